"""Parse-back of the generator outputs and what a schema obliges them to contain (C42).

Everything here starts from the *reference* model of the schema text
(_c41_ref.analyse), never from the tree's own Schema object, and reads the
generated text back with generic readers (ElementTree for XML, a small brace
reader for the C tables).  The comparison is item by item: element, attribute,
type, arity, default, keyword, constant - present once, nothing extra.

The facts the generators add on their own (dm_control overlay tables, the list
of top-level elements of XMLschema.rst, the names of table-driven elements)
are taken from the generator modules as *configuration* (data, not logic).
"""
from __future__ import annotations

import re
import xml.etree.ElementTree as ET

from . import _c41_ref as R

XS = '{http://www.w3.org/2001/XMLSchema}'


class Mismatch(Exception):
    """Generated text disagrees with the schema; .what is a stable short name, .detail the particulars."""

    def __init__(self, what, detail=''):
        Exception.__init__(self, '%s: %s' % (what, detail))
        self.what = what
        self.detail = detail


class Refuse(Exception):
    """The schema is outside what the generator documents as supported; .why is the documented reason."""

    def __init__(self, why):
        Exception.__init__(self, why)
        self.why = why


def need(cond, what, detail=''):
    if not cond:
        raise Mismatch(what, detail)


# ------------------------------------------------------------------ view of the reference model

class Attr(object):
    __slots__ = ('name', 'type', 'target', 'lo', 'hi', 'default', 'facets', 'doc', 'line')

    def __init__(self, t):
        (_, self.name, self.type, self.target, self.lo, self.hi, self.default, f, self.doc, self.line) = t
        self.facets = dict(f)

    def scalar(self):
        return self.lo == 1 and self.hi == 1


class Element(object):
    def __init__(self, t, view):
        self.name, self.spec, f, self.members, self.doc, self.line = t
        self.facets = dict(f)
        self.view = view

    def xml_name(self):
        return str(self.facets.get('xml', self.name))

    def children(self):
        return [(m[1], m[2]) for m in self.members if m[0] == 'child']

    def consts(self):
        return [(m[1], m[2]) for m in self.members if m[0] == 'set']

    def attrs(self):
        return [Attr(a) for a in R.expand(self.view.groups, self.members)]

    def constraints(self):
        """Own constraints and those of every group used, directly or through other groups, each group once."""
        out = [(m[1], m[2]) for m in self.members if m[0] == 'con']
        seen = set()
        todo = [m[1] for m in self.members if m[0] == 'use']
        while todo:
            g = todo.pop()
            if g in seen:
                continue
            seen.add(g)
            for m in self.view.groups[g][2]:
                if m[0] == 'con':
                    out.append((m[1], m[2]))
                elif m[0] == 'use':
                    todo.append(m[1])
        return out


class View(object):
    def __init__(self, model):
        enums, groups, elements = model
        self.enums = {e[0]: e for e in enums}          # name -> (name, ctype, items, doc, line)
        self.enum_order = [e[0] for e in enums]
        self.groups = {g[0]: g for g in groups}
        self.elements = {}
        for e in elements:
            self.elements[e[0]] = Element(e, self)

    def keywords(self, enum):
        return [k for k, _ in self.enums[enum][2]]


def project(attrs):
    """The defaultable projection of an attribute list (documented in generate_xsd / generate_mjcf_table)."""
    return [a for a in attrs if a.name not in ('name', 'class') and not a.facets.get('nodefault')]


def child_cycle(view):
    """True if the child graph has a cycle that is not a self-loop and does not pass through an alias element
    (the grammar table and the dm_control tree are finite only without such cycles)."""
    color = {}
    for root in view.elements:
        if root in color:
            continue
        stack = [(root, iter(view.elements[root].children()))]
        color[root] = 1
        while stack:
            node, it = stack[-1]
            nxt = None
            for cname, _ in it:
                if cname == node or 'alias' in view.elements[cname].facets:
                    continue
                nxt = cname
                break
            if nxt is None:
                color[node] = 2
                stack.pop()
                continue
            if color.get(nxt) == 1:
                return True
            if nxt not in color:
                color[nxt] = 1
                stack.append((nxt, iter(view.elements[nxt].children())))
    return False


def dims_from_header(path):
    """mjN* dimension macros of mjmodel.h (own reader)."""
    out = {}
    for line in open(path, encoding='utf-8'):
        parts = line.split()
        if len(parts) >= 3 and parts[0] == '#define' and parts[1].startswith('mjN') and parts[2].isdigit():
            out[parts[1]] = int(parts[2])
    return out


def numbers_equal(text, value):
    try:
        return float(text) == value
    except ValueError:
        return False


def default_matches(text, default):
    """Does the printed default `text` denote the declared default?"""
    if isinstance(default, tuple):
        toks = text.split()
        return len(toks) == len(default) and all(numbers_equal(t, v) for t, v in zip(toks, default))
    if isinstance(default, float):
        return numbers_equal(text, default) and len(text.split()) == 1
    return text == default


# ------------------------------------------------------------------ C initialiser reader

def strip_comments(text):
    out = []
    i = 0
    n = len(text)
    while i < n:
        c = text[i]
        if c == '"':
            j = text.index('"', i + 1)
            out.append(text[i:j + 1])
            i = j + 1
        elif c == '/' and text[i:i + 2] == '//':
            j = text.find('\n', i)
            i = n if j < 0 else j
        else:
            out.append(c)
            i += 1
    return ''.join(out)


def read_braces(text, start):
    """Read the brace initialiser starting at text[start] == '{' -> (nested lists of item strings, end index)."""
    assert text[start] == '{'
    items = []
    cur = []
    i = start + 1
    n = len(text)
    depth = 0
    while i < n:
        c = text[i]
        if c == '"':
            j = text.index('"', i + 1)
            cur.append(text[i:j + 1])
            i = j + 1
            continue
        if c == "'":
            j = text.index("'", i + 1)
            cur.append(text[i:j + 1])
            i = j + 1
            continue
        if c == '{' and depth == 0:
            sub, i = read_braces(text, i)
            cur.append(sub)
            continue
        if c == '(':
            depth += 1
        elif c == ')':
            depth -= 1
        if depth == 0 and (c == ',' or c == '}'):
            lits = [x for x in cur if not isinstance(x, str) or x.strip()]
            if lits:
                if len(lits) == 1 and not isinstance(lits[0], str):
                    items.append(lits[0])
                else:
                    need(all(isinstance(x, str) for x in lits), 'c-syntax', 'mixed item %r' % (lits,))
                    items.append(''.join(lits).strip())
            cur = []
            if c == '}':
                return items, i + 1
            i += 1
            continue
        cur.append(c)
        i += 1
    raise Mismatch('c-syntax', 'unterminated initialiser')


def c_arrays(text):
    """All `<decl> NAME[] = { ... };` arrays of a generated C file -> [(declaration text, NAME, rows)]."""
    text = strip_comments(text)
    out = []
    for m in re.finditer(r'([^;{}\n]*?)\b(\w+)\[\]\s*=\s*\{', text):
        rows, end = read_braces(text, m.end() - 1)
        out.append((m.group(1).strip(), m.group(2), rows))
    return out, text


def unquote(s, what='c-string'):
    need(isinstance(s, str) and len(s) >= 2 and s[0] == '"' and s[-1] == '"', what, repr(s))
    return s[1:-1]


# ------------------------------------------------------------------ mjcf_map.h

def check_map(view, text):
    arrays, plain = c_arrays(text)
    want = [('bool', [('false', '0'), ('true', '1')])]
    for name in view.enum_order:
        want.append((name, [(k, v) for k, v in view.enums[name][2]]))
    got = []
    for decl, name, rows in arrays:
        need(name.endswith('_map') and 'mjMap' in decl, 'map:unexpected-array', name)
        got.append((name[:-4], [(unquote(r[0]), r[1]) for r in rows if need(len(r) == 2, 'map:row-shape', repr(r)) is None]))
    need([n for n, _ in got] == [n for n, _ in want], 'map:enum-set',
         'arrays %s, schema enums %s' % ([n for n, _ in got], [n for n, _ in want]))
    for (n, g), (_, w) in zip(got, want):
        need(g == w, 'map:items', 'enum %s: emitted %s, declared %s' % (n, g, w))
    sizes = dict((m.group(1), int(m.group(2))) for m in re.finditer(r'\bint\s+(\w+)_sz\s*=\s*(\d+)\s*;', plain))
    need(sizes == dict((n, len(w)) for n, w in want[1:]), 'map:sizes', repr(sizes))
    return sum(len(w) for _, w in want)


# ------------------------------------------------------------------ mjcf_table.inc

KIND_CHAR = {'exclusive': 'e', 'together': 't', 'requires': 'r', 'oneof': 'o'}


def expected_table(view):
    """(entries, constraints): entries = rows [xml name, card, attr...] and ['<'] / ['>'] markers."""
    entries = []
    cons = []

    def visit(el, card, proj, depth):
        need(depth < 200, 'harness', 'table nesting too deep')
        attrs = el.attrs()
        if proj:
            attrs = project(attrs)
        names = [a.name for a in attrs]
        index = len(entries)
        entries.append([el.xml_name(), card] + names)
        have = set(names)
        for kind, bundles in el.constraints():
            if all(n in have for b in bundles for n in b):
                cons.append((index, KIND_CHAR[kind], '|'.join(' '.join(b) for b in bundles)))
        kids = [(c, k) for c, k in el.children()
                if c != el.name and 'alias' not in view.elements[c].facets]
        if proj:
            kids = [(c, k) for c, k in kids if c != 'plugin']
        if not kids:
            return
        entries.append(['<'])
        for c, k in kids:
            visit(view.elements[c], k, proj or (el.name == 'default' and not c.startswith('default_')), depth + 1)
        entries.append(['>'])
    visit(view.elements['mujoco'], '!', False, 0)
    return entries, cons


def read_table(text):
    arrays, plain = c_arrays(text)
    by = {}
    for decl, name, rows in arrays:
        need(name not in by, 'table:duplicate-array', name)
        by[name] = rows
    need(set(by) == {'MJCF', 'MJCF_constraints'}, 'table:arrays', repr(sorted(by)))
    entries = [[unquote(x) for x in row] for row in by['MJCF']]
    cons = []
    for row in by['MJCF_constraints']:
        need(len(row) == 3 and row[1][0] == "'" and row[0].isdigit(), 'table:constraint-shape', repr(row))
        cons.append((int(row[0]), row[1][1:-1], unquote(row[2])))
    return entries, cons


def check_table(view, text):
    want_e, want_c = expected_table(view)
    got_e, got_c = read_table(text)
    if got_e != want_e:
        for i, (g, w) in enumerate(zip(got_e, want_e)):
            if g != w:
                if g[:2] != w[:2]:
                    raise Mismatch('table:row-head', 'entry %d is %s, schema gives %s' % (i, g[:4], w[:4]))
                raise Mismatch('table:row-attrs', 'entry %d (%s): %s, schema gives %s' % (i, g[0], g[2:], w[2:]))
        raise Mismatch('table:row-count', '%d entries, schema gives %d' % (len(got_e), len(want_e)))
    need(sorted(got_c) == sorted(want_c), 'table:constraints',
         'emitted %s, schema gives %s' % (sorted(set(got_c) - set(want_c))[:3], sorted(set(want_c) - set(got_c))[:3]))
    return len(want_e) + len(want_c)


# ------------------------------------------------------------------ mjcf.xsd

XSD_BASE = {'int': 'xs:int', 'double': 'xs:double', 'float': 'xs:float', 'string': 'xs:string', 'file': 'xs:string'}


def xsd_expected_type(view, a, dims):
    """Semantic type an attribute must have in the XSD."""
    t = a.type
    if t == 'bool':
        return ('keyword', ('false', 'true'))
    if t == 'enum':
        return ('keyword', tuple(view.keywords(a.target)))
    if t == 'flags':
        return ('keywordlist', tuple(view.keywords(a.target)))
    if t in ('ref', 'id', 'string', 'file'):
        # text is opaque to the XSD (and to dm_control): xs:string whatever arity the schema writes on it
        return ('scalar', 'xs:string', ())
    if t == 'chars':
        if 'pattern' in a.facets:
            return ('scalar', 'xs:string', (('pattern', str(a.facets['pattern'])),))
        if a.lo == a.hi:
            return ('scalar', 'xs:string', (('length', a.hi),))
        return ('scalar', 'xs:string', (('maxLength', a.hi), ('minLength', a.lo)))
    hi = dims[a.hi] if isinstance(a.hi, str) else a.hi
    numeric = t in ('int', 'double', 'float')
    facets = []
    if numeric:
        if 'min' in a.facets:
            facets.append(('minInclusive', float(a.facets['min'])))
        if 'max' in a.facets:
            facets.append(('maxInclusive', float(a.facets['max'])))
        if a.facets.get('positive'):
            facets.append(('minExclusive', 0.0))
    if a.lo == 1 and hi == 1:
        return ('scalar', XSD_BASE[t], tuple(sorted(facets)))
    if facets or (numeric and any(f in a.facets for f in ('min', 'max', 'positive'))):
        raise Refuse('numeric facets on a vector attribute')
    return ('list', XSD_BASE[t], a.lo, hi)


def xsd_expected(view, dims):
    """complexType name -> (element, projected, child list [(tag, type name)])  in discovery order."""
    types = {}
    order = []
    todo = [('mujoco', False)]
    while todo:
        name, proj = todo.pop(0)
        if (name, proj) in types:
            continue
        el = view.elements[name]
        kids = el.children()
        if proj:
            kids = [(c, k) for c, k in kids if c != 'plugin']
        out = []
        for c, k in kids:
            target = view.elements[c]
            tag = target.xml_name()
            if name == 'mujoco' and c == 'body':
                need('worldbody' in view.elements, 'harness', 'schema space must declare worldbody with body')
                target = view.elements['worldbody']
                tag = 'worldbody'
            cproj = proj or (name == 'default' and not c.startswith('default_') and c != 'default')
            out.append((tag, ('default_' if cproj else '') + target.name))
            todo.append((target.name, cproj))
        types[(name, proj)] = out
        order.append((name, proj))
    unreached = set(view.elements) - set(n for n, _ in types)
    if unreached:
        raise Refuse('elements unreachable from mujoco')
    return types, order


def _xsd_simple(node, named, depth=0):
    """Semantic content of an xs:simpleType node."""
    need(depth < 5, 'xsd:type-nesting')
    kids = list(node)
    kids = [k for k in kids if k.tag != XS + 'annotation']
    need(len(kids) == 1, 'xsd:simpleType-shape', ET.tostring(node, encoding='unicode')[:200])
    k = kids[0]
    if k.tag == XS + 'list':
        item = k.get('itemType')
        if item in named and item.startswith('kw_'):
            inner = _xsd_simple(named[item], named, depth + 1)
            need(inner[0] == 'keyword', 'xsd:list-item', item)
            return ('keywordlist', inner[1])
        return ('list', item, 0, None)
    need(k.tag == XS + 'restriction', 'xsd:simpleType-shape', k.tag)
    facets = [f for f in k if f.tag != XS + 'simpleType' and f.tag != XS + 'annotation']
    inner = [f for f in k if f.tag == XS + 'simpleType']
    if inner:
        need(len(inner) == 1 and k.get('base') is None, 'xsd:restriction-shape')
        base = _xsd_simple(inner[0], named, depth + 1)
        need(base[0] == 'list' and base[2] == 0 and base[3] is None, 'xsd:restriction-of', repr(base))
        lo, hi = 0, None
        for f in facets:
            tag = f.tag[len(XS):]
            v = int(f.get('value'))
            if tag == 'length':
                lo = hi = v
            elif tag == 'minLength':
                lo = v
            elif tag == 'maxLength':
                hi = v
            else:
                raise Mismatch('xsd:list-facet', tag)
        return ('list', base[1], lo, hi)
    base = k.get('base')
    tags = [f.tag[len(XS):] for f in facets]
    if tags and all(t == 'enumeration' for t in tags):
        need(base == 'xs:string', 'xsd:keyword-base', base)
        return ('keyword', tuple(f.get('value') for f in facets))
    out = []
    for f in facets:
        tag = f.tag[len(XS):]
        v = f.get('value')
        if tag in ('minInclusive', 'maxInclusive', 'minExclusive'):
            try:
                v = float(v)
            except ValueError:
                raise Mismatch('xsd:facet-value', '%s=%r' % (tag, v))
        elif tag in ('length', 'minLength', 'maxLength'):
            v = int(v)
        elif tag != 'pattern':
            raise Mismatch('xsd:unknown-facet', tag)
        out.append((tag, v))
    need(len(set(t for t, _ in out)) == len(out), 'xsd:duplicate-facet')
    return ('scalar', base, tuple(sorted(out)))


def _docs(node):
    out = []
    for ann in node.findall(XS + 'annotation'):
        for d in ann.findall(XS + 'documentation'):
            out.append(d.text or '')
    return out


def check_xsd(view, text, dims):
    want_types, order = xsd_expected(view, dims)        # may Refuse
    # every attribute's expected type first, so that a documented refusal is decided by the schema alone
    want_attr = {}
    for (name, proj) in order:
        attrs = view.elements[name].attrs()
        if proj:
            attrs = project(attrs)
        want_attr[(name, proj)] = [(a, xsd_expected_type(view, a, dims)) for a in attrs]
    try:
        root = ET.fromstring(text)
    except ET.ParseError as e:
        raise Mismatch('xsd:not-well-formed', str(e))
    need(root.tag == XS + 'schema', 'xsd:root', root.tag)
    named = {}
    complexes = {}
    tops = []
    for node in root:
        if node.tag == XS + 'simpleType':
            need(node.get('name') not in named, 'xsd:duplicate-type', node.get('name'))
            named[node.get('name')] = node
        elif node.tag == XS + 'complexType':
            need(node.get('name') not in complexes, 'xsd:duplicate-type', node.get('name'))
            complexes[node.get('name')] = node
        elif node.tag == XS + 'element':
            tops.append((node.get('name'), node.get('type')))
        else:
            raise Mismatch('xsd:unexpected-top-level', node.tag)
    need(tops == [('mujoco', 'mujoco')], 'xsd:root-element', repr(tops))
    # keyword types
    need('kw_bool' in named and _xsd_simple(named['kw_bool'], named) == ('keyword', ('false', 'true')), 'xsd:kw_bool')
    flags_used = set()
    for el in view.elements.values():
        for a in el.attrs():
            if a.type == 'flags':
                flags_used.add(a.target)
    used_named = set(['kw_bool'])
    for e in view.enum_order:
        nm = 'kw_' + e
        need(nm in named, 'xsd:enum-missing', e)
        need(_xsd_simple(named[nm], named) == ('keyword', tuple(view.keywords(e))), 'xsd:enum-keywords',
             '%s: %s' % (e, _xsd_simple(named[nm], named)))
        used_named.add(nm)
        doc = view.enums[e][3]
        if doc:
            need(doc in _docs(named[nm]), 'xsd:enum-doc', e)
        if e in flags_used:
            need('kwlist_' + e in named, 'xsd:flags-list-missing', e)
            need(_xsd_simple(named['kwlist_' + e], named) == ('keywordlist', tuple(view.keywords(e))), 'xsd:flags-list', e)
            used_named.add('kwlist_' + e)
    # complex types
    want_names = dict((('default_' if p else '') + n, (n, p)) for n, p in order)
    need(len(want_names) == len(order), 'harness', 'type names collide')
    need(set(complexes) == set(want_names) | {'include'}, 'xsd:complexType-set',
         'extra %s missing %s' % (sorted(set(complexes) - set(want_names) - {'include'})[:4],
                                 sorted(set(want_names) - set(complexes))[:4]))
    nitems = 0
    for tname, key in want_names.items():
        node = complexes[tname]
        el = view.elements[key[0]]
        docs = _docs(node)
        if el.doc and not key[1]:
            need(el.doc in docs, 'xsd:element-doc', tname)
        for kind, bundles in el.constraints():
            need(any(all('+'.join(b) in d for b in bundles) and d.startswith('constraint') for d in docs),
                 'xsd:constraint-doc', '%s %s %s' % (tname, kind, bundles))
        for c, k in el.children():
            need(any('%s (%s)' % (c, k) in d for d in docs), 'xsd:cardinality-doc', '%s child %s' % (tname, c))
        # content model
        choices = node.findall(XS + 'choice')
        got_kids = []
        for ch in choices:
            need(ch.get('minOccurs') == '0' and ch.get('maxOccurs') == 'unbounded', 'xsd:choice-occurs', tname)
            got_kids += [(x.get('name'), x.get('type')) for x in ch]
        wk = want_types[key]
        if wk:
            need(got_kids == wk + [('include', 'include')], 'xsd:children',
                 '%s: %s, schema gives %s' % (tname, got_kids[:6], wk[:6]))
        else:
            need(got_kids == [], 'xsd:children', '%s has a content model but the element has no children' % tname)
        # attributes
        got_attrs = node.findall(XS + 'attribute')
        wa = want_attr[key]
        need([g.get('name') for g in got_attrs] == [a.name for a, _ in wa], 'xsd:attribute-list',
             '%s: %s, schema gives %s' % (tname, [g.get('name') for g in got_attrs][:8], [a.name for a, _ in wa][:8]))
        for g, (a, wtype) in zip(got_attrs, wa):
            nitems += 1
            where = '%s.%s' % (tname, a.name)
            ty = g.get('type')
            inline = g.findall(XS + 'simpleType')
            need((ty is None) != (not inline) and len(inline) <= 1, 'xsd:attribute-type-shape', where)
            if ty is not None:
                if ty in named:
                    gtype = _xsd_simple(named[ty], named)
                    used_named.add(ty)
                else:
                    need(ty.startswith('xs:'), 'xsd:dangling-type', '%s -> %s' % (where, ty))
                    gtype = ('scalar', ty, ())
            else:
                gtype = _xsd_simple(inline[0], named)
            if wtype[0] == 'scalar' and wtype[1] == 'xs:string' and a.type in ('string', 'file') and gtype[0] == 'scalar':
                # a pattern on a plain string may or may not be carried; if it is, it must be the declared one
                extra = [f for f in gtype[2] if f not in wtype[2]]
                need(all(f == ('pattern', str(a.facets.get('pattern'))) for f in extra), 'xsd:attribute-type', where)
                gtype = (gtype[0], gtype[1], wtype[2])
            need(gtype == wtype, 'xsd:attribute-type', '%s: emitted %s, declared %s %s[%s..%s] -> %s'
                 % (where, gtype, a.type, a.target or '', a.lo, a.hi, wtype))
            need((g.get('use') == 'required') == bool(a.facets.get('required')), 'xsd:attribute-required', where)
            need(g.get('use') in (None, 'required'), 'xsd:attribute-use', where)
            d = g.get('default')
            if a.default is None:
                need(d is None, 'xsd:attribute-default', '%s: default %r emitted, none declared' % (where, d))
            else:
                need(d is not None and default_matches(d, a.default), 'xsd:attribute-default',
                     '%s: emitted %r, declared %r' % (where, d, a.default))
            if a.doc:
                need(a.doc in _docs(g), 'xsd:attribute-doc', where)
    inc = complexes['include']
    need([(x.get('name'), x.get('type'), x.get('use')) for x in inc.findall(XS + 'attribute')] ==
         [('file', 'xs:string', 'required')], 'xsd:include')
    need(set(named) == used_named, 'xsd:simpleType-set', 'unused or undeclared simple types %s'
         % sorted(set(named) ^ used_named)[:5])
    return nitems + len(want_names)


# ------------------------------------------------------------------ dmcontrol_schema.xml

def dm_expected_attr(view, cfg, dims, el, a, attr_names, refs):
    """Expected XML attributes of one <attribute> node, as a dict."""
    hi = dims[a.hi] if isinstance(a.hi, str) else a.hi
    out = {'name': a.name}
    if a.name == 'objname' and 'objtype' in attr_names:
        out.update(type='reference', reference_namespace='attrib:objtype')
    elif a.name == 'refname' and 'reftype' in attr_names:
        out.update(type='reference', reference_namespace='attrib:reftype')
    elif (el.name, a.name) in cfg.IDENTIFIER_OVERRIDES:
        out.update(type='identifier')
    elif el.name == 'mujoco' and a.name == 'model':
        out.update(type='string')
    elif a.name in cfg.BASEPATHS and el.name == 'compiler':
        out.update(type='basepath', path_namespace=cfg.BASEPATHS[a.name])
    elif a.type == 'file':
        out.update(type='file')
        if cfg.FILE_NS.get(el.name):
            out['path_namespace'] = cfg.FILE_NS[el.name]
    elif a.type == 'enum':
        out.update(type='keyword', valid_values=' '.join(view.keywords(a.target)))
    elif a.type == 'bool':
        out.update(type='keyword', valid_values='false true')
    elif a.type == 'id':
        out.update(type='identifier')
    elif a.type == 'ref':
        ns = cfg.REF_NS_MAP.get(a.target, a.target)
        refs.add((el.name, a.name, ns))
        out.update(type='reference', reference_namespace=ns)
    elif a.type in ('string', 'chars', 'flags'):
        out.update(type='string')
    else:
        base = 'int' if a.type == 'int' else 'float'
        if a.lo == 1 and hi == 1:
            out.update(type=base)
        else:
            out.update(type='array', array_type=base)
            if hi is not None:
                out['array_size'] = str(hi)
    if a.facets.get('required'):
        out['required'] = 'true'
    if (el.name, a.name) in cfg.CONFLICTS:
        out['conflict_allowed'] = 'true'
        if cfg.CONFLICTS[(el.name, a.name)] is not None:
            out['conflict_behavior'] = cfg.CONFLICTS[(el.name, a.name)]
    return out


def dm_namespace(view, cfg, el, parent):
    if (parent, el.name) in cfg.CONTEXT_NAMESPACE:
        return cfg.CONTEXT_NAMESPACE[(parent, el.name)]
    if el.name in cfg.NAMESPACE_OVERRIDES:
        return cfg.NAMESPACE_OVERRIDES[el.name]
    for a in el.attrs():
        if a.type == 'id':
            return a.target
        if (el.name, a.name) in cfg.IDENTIFIER_OVERRIDES:
            return el.name
    return None


def check_dm(view, text, dims, cfg):
    try:
        root = ET.fromstring(text)
    except ET.ParseError as e:
        raise Mismatch('dm:not-well-formed', str(e))
    refs = set()
    ids = set()
    count = [0]

    def walk(node, el, tag, card, proj, parent, depth):
        need(depth < 200, 'harness', 'dm tree too deep')
        count[0] += 1
        where = '%s/%s' % (parent, tag)
        need(node.tag == 'element' and node.get('name') == tag, 'dm:element-name', '%s: got %s' % (where, node.get('name')))
        self_rec = any(c == el.name for c, _ in el.children())
        top_default = el.name == 'default' and parent == 'mujoco'
        want = {'name': tag}
        if self_rec and not top_default:
            want['recursive'] = 'true'
        if card in ('*', 'R') and not top_default and (parent, tag) not in cfg.SINGLETONS:
            want['repeated'] = 'true'
        if el.name in cfg.ON_DEMAND:
            want['on_demand'] = 'true'
        ns = dm_namespace(view, cfg, el, parent)
        if ns:
            ids.add(ns)
            if ns != tag:
                want['namespace'] = ns
        need(dict(node.attrib) == want, 'dm:element-flags', '%s: emitted %s, schema gives %s' % (where, dict(node.attrib), want))
        attrs = el.attrs()
        if proj:
            attrs = project(attrs)
        names = set(a.name for a in attrs)
        sections = [c.tag for c in node]
        got_attr_nodes = []
        got_child_nodes = []
        for c in node:
            if c.tag == 'attributes':
                got_attr_nodes += list(c)
            elif c.tag == 'children':
                got_child_nodes += list(c)
            else:
                raise Mismatch('dm:section', '%s: %s' % (where, c.tag))
        need(sections in ([], ['attributes'], ['children'], ['attributes', 'children']), 'dm:sections', where)
        need([g.get('name') for g in got_attr_nodes] == [a.name for a in attrs], 'dm:attribute-list',
             '%s: %s, schema gives %s' % (where, [g.get('name') for g in got_attr_nodes][:8], [a.name for a in attrs][:8]))
        for g, a in zip(got_attr_nodes, attrs):
            count[0] += 1
            need(g.tag == 'attribute', 'dm:attribute-tag', where)
            w = dm_expected_attr(view, cfg, dims, el, a, names, refs)
            got = dict(g.attrib)
            d = got.pop('default', None)
            if a.default is None:
                need(d is None, 'dm:attribute-default', '%s.%s: default %r emitted, none declared' % (where, a.name, d))
            else:
                need(d is not None and default_matches(d, a.default), 'dm:attribute-default',
                     '%s.%s: emitted %r, declared %r' % (where, a.name, d, a.default))
            need(got == w, 'dm:attribute-type', '%s.%s: emitted %s, declared %s %s[%s..%s] -> %s'
                 % (where, a.name, got, a.type, a.target or '', a.lo, a.hi, w))
        kids = []
        for c, k in el.children():
            if c == el.name:
                if top_default:
                    kids.append((el, tag, k, proj))
                continue
            target = view.elements[c]
            ctag = target.xml_name()
            if el.name == 'mujoco' and c == 'body':
                target, ctag = view.elements['worldbody'], 'worldbody'
            if target.name in cfg.EXCLUDED_ELEMENTS or (el.name, target.name) in cfg.EXCLUDED_CHILDREN:
                continue
            cproj = proj or (el.name == 'default' and not c.startswith('default_') and c != 'default')
            if proj and c == 'plugin':
                continue
            kids.append((target, ctag, k, cproj))
        need([g.get('name') for g in got_child_nodes] == [t for _, t, _, _ in kids], 'dm:children',
             '%s: %s, schema gives %s' % (where, [g.get('name') for g in got_child_nodes][:8], [t for _, t, _, _ in kids][:8]))
        for g, (target, ctag, k, cproj) in zip(got_child_nodes, kids):
            walk(g, target, ctag, k, cproj, el.name, depth + 1)

    # refusal documented by the generator: references into namespaces nothing emitted populates
    walk_ok = None
    try:
        walk(root, view.elements['mujoco'], 'mujoco', '!', False, None, 0)
    except Mismatch as m:
        walk_ok = m
    if walk_ok is not None:
        raise walk_ok
    return count[0]


def dm_refusal(view, dims, cfg):
    """True when the schema makes generate_dmcontrol refuse (dangling reference namespaces), decided from the schema."""
    refs = set()
    ids = set()

    def walk(el, tag, proj, parent, depth):
        need(depth < 200, 'harness', 'dm tree too deep')
        ns = dm_namespace(view, cfg, el, parent)
        if ns:
            ids.add(ns)
        attrs = el.attrs()
        if proj:
            attrs = project(attrs)
        names = set(a.name for a in attrs)
        for a in attrs:
            dm_expected_attr(view, cfg, dims, el, a, names, refs)
        top_default = el.name == 'default' and parent == 'mujoco'
        for c, k in el.children():
            if c == el.name:
                if top_default:
                    walk(el, tag, proj, el.name, depth + 1)
                continue
            target = view.elements[c]
            ctag = target.xml_name()
            if el.name == 'mujoco' and c == 'body':
                target, ctag = view.elements['worldbody'], 'worldbody'
            if target.name in cfg.EXCLUDED_ELEMENTS or (el.name, target.name) in cfg.EXCLUDED_CHILDREN:
                continue
            if proj and c == 'plugin':
                continue
            cproj = proj or (el.name == 'default' and not c.startswith('default_') and c != 'default')
            walk(target, ctag, cproj, el.name, depth + 1)
    walk(view.elements['mujoco'], 'mujoco', False, None, 0)
    return any(r[2] not in ids for r in refs)


# ------------------------------------------------------------------ XMLschema.rst (driven by the grammar table)

ICON = {'!': 'star', '?': 'dot', '*': None, 'R': 'sync'}


def rst_expected(entries, order, display):
    """Dropdown list [(indent level, display name, link, icon, [attr links])] for table entries."""
    rows = []
    level = 0
    path = {}
    for e in entries:
        if e == ['<']:
            level += 1
            continue
        if e == ['>']:
            level -= 1
            continue
        path[level] = e[0]
        rows.append((level, e, dict(path)))
    out = []
    links = set()
    for top in order:
        for level, e, p in rows:
            if level == 0:
                mine = top == 'mujoco'
            else:
                mine = p.get(1) == top
            if not mine:
                continue
            link = e[0] if level <= 1 else '%s-%s' % (p[level - 1], e[0])
            alinks = ['%s-%s' % (link, a) for a in e[2:]]
            links.add(link)
            links.update(alinks)
            out.append((level, display.get(e[0], e[0]), link, ICON[e[1]], [(a, l) for a, l in zip(e[2:], alinks)]))
    return out, links


def read_rst(text):
    out = []
    cur = None
    for line in text.split('\n'):
        s = line.strip()
        if s.startswith('.. dropdown::'):
            indent = (len(line) - len(line.lstrip())) // 3
            m = re.match(r'\.\. dropdown:: :ref:`(.*?)<(.*?)>`(?: :octicon:`(\w+)`| \|\*\|)$', s)
            need(m is not None, 'rst:dropdown-syntax', s)
            cur = (indent, m.group(1), m.group(2), m.group(3), [])
            out.append(cur)
        elif s.startswith(':ref:`') and cur is not None:
            m = re.match(r':ref:`(.*?)<(.*?)>`$', s)
            need(m is not None, 'rst:ref-syntax', s)
            cur[4].append((m.group(1), m.group(2)))
    return out


def check_rst(entries, text, order, display):
    want, _ = rst_expected(entries, order, display)
    got = read_rst(text)
    need(len(got) == len(want), 'rst:dropdown-count', '%d dropdowns, table gives %d' % (len(got), len(want)))
    for g, w in zip(got, want):
        need(g[:4] == w[:4], 'rst:dropdown', 'emitted %s, table gives %s' % (g[:4], w[:4]))
        need(g[4] == w[4], 'rst:attributes', '%s: emitted %s, table gives %s' % (w[2], g[4][:5], w[4][:5]))
    return len(want)
