"""Support-function reference for C15.

Signed distance between convex sets A, B:
    d(A,B) = max over unit n of g(n),   g(n) = n.(cB - cA) - hA(n) - hB(-n)
(h = support function about the geom centre).  d > 0: separation distance, d < 0: minus the penetration depth.
g is Lipschitz on the sphere with constant L = |cB-cA| + RA + RB (R = bounding radius), which gives a branch-and-bound
over spherical triangles with rigorous bounds:  lower <= d <= upper.  `lower` is g at an actual unit direction (a
certificate), `upper` is the largest cell bound that is left.  Polytope pairs add the finite candidate set of the
separating-axis theorem (face normals, edge x edge), smooth pairs a local polish of the best cells.
Nothing here shares code or structure with GJK/EPA.
"""
from __future__ import annotations

import numpy as np

SPHERE, CAPSULE, ELLIPSOID, CYLINDER, BOX, MESH = 2, 3, 4, 5, 6, 7


class Shape:
    """type, size, world centre c, rotation R; meshes carry vertices (local, about the geom frame) and hull faces."""

    def __init__(self, t, size, c, R, verts=None, faces=None):
        self.t, self.size, self.c, self.R = t, np.asarray(size, float), np.asarray(c, float), np.asarray(R, float)
        self.verts = None if verts is None else np.asarray(verts, float)
        self.faces = faces
        if t == SPHERE:
            self.rb = self.size[0]
        elif t == CAPSULE:
            self.rb = self.size[0] + self.size[1]
        elif t == ELLIPSOID:
            self.rb = float(np.max(self.size[:3]))
        elif t == CYLINDER:
            self.rb = float(np.hypot(self.size[0], self.size[1]))
        elif t == BOX:
            self.rb = float(np.linalg.norm(self.size[:3]))
        else:
            self.rb = float(np.max(np.linalg.norm(self.verts, axis=1)))
        if t == MESH:
            tri = self.verts[np.asarray(faces)]
            nrm = np.cross(tri[:, 1] - tri[:, 0], tri[:, 2] - tri[:, 0])
            nrm /= np.linalg.norm(nrm, axis=1, keepdims=True)
            self.fn = nrm                      # local face normals
            self.fo = np.einsum("ij,ij->i", nrm, tri[:, 0])
            ed = set()
            for f in np.asarray(faces):
                for a, b in ((f[0], f[1]), (f[1], f[2]), (f[2], f[0])):
                    ed.add((min(a, b), max(a, b)))
            e = np.array(sorted(ed))
            dirs = self.verts[e[:, 1]] - self.verts[e[:, 0]]
            dirs /= np.linalg.norm(dirs, axis=1, keepdims=True)
            self.edirs = _unique_dirs(dirs)
            self.fn_u = _unique_dirs(nrm)

    def moved(self, c, R):
        s = Shape.__new__(Shape)
        s.__dict__.update(self.__dict__)
        s.c, s.R = np.asarray(c, float), np.asarray(R, float)
        return s

    # support function about the centre, N unit directions (world)
    def h(self, N):
        L = N @ self.R                       # local directions
        s = self.size
        if self.t == SPHERE:
            return np.full(len(N), s[0])
        if self.t == CAPSULE:
            return s[0] + s[1] * np.abs(L[:, 2])
        if self.t == ELLIPSOID:
            return np.linalg.norm(L * s[:3], axis=1)
        if self.t == CYLINDER:
            return s[1] * np.abs(L[:, 2]) + s[0] * np.hypot(L[:, 0], L[:, 1])
        if self.t == BOX:
            return np.abs(L) @ s[:3]
        return (L @ self.verts.T).max(axis=1)

    def polytope(self):
        return self.t in (BOX, MESH)

    def kink_axes(self):
        """World directions a such that g has a kink on the great circle n.a = 0 (and possibly at n = +-a)."""
        if self.t in (CAPSULE, CYLINDER):
            return [self.R[:, 2]]
        if self.t == BOX:
            return [self.R[:, 0], self.R[:, 1], self.R[:, 2]]
        if self.t == MESH:
            return list(self.edirs @ self.R.T)
        return []

    def face_normals(self):
        if self.t == BOX:
            return self.R.T.copy()           # rows = axes
        return self.fn_u @ self.R.T

    def edge_dirs(self):
        if self.t == BOX:
            return self.R.T.copy()
        return self.edirs @ self.R.T

    def off_surface(self, p, tol):
        """Certified: True only if world point p is farther than tol from the surface."""
        q = self.R.T @ (np.asarray(p) - self.c)
        s = self.size
        if self.t == SPHERE:
            return abs(np.linalg.norm(q) - s[0]) > tol
        if self.t == CAPSULE:
            z = np.clip(q[2], -s[1], s[1])
            return abs(np.linalg.norm(q - np.array([0, 0, z])) - s[0]) > tol
        if self.t == ELLIPSOID:
            r = np.linalg.norm(q / s[:3]) - 1.0
            return abs(r) * float(np.min(s[:3])) > tol
        if self.t == CYLINDER:
            dx = np.hypot(q[0], q[1]) - s[0]
            dz = abs(q[2]) - s[1]
            return abs(np.hypot(max(dx, 0.0), max(dz, 0.0)) + min(max(dx, dz), 0.0)) > tol
        if self.t == BOX:
            e = np.abs(q) - s[:3]
            return abs(np.linalg.norm(np.maximum(e, 0.0)) + min(e.max(), 0.0)) > tol
        pd = (self.fn @ q - self.fo).max()   # inside: exact (negative); outside: lower bound of the distance
        return abs(pd) > tol


def _unique_dirs(d):
    out = []
    for v in d:
        if not any(abs(abs(v @ w) - 1) < 1e-9 for w in out):
            out.append(v)
    return np.array(out)


def gap(A, B, N):
    return N @ (B.c - A.c) - A.h(N) - B.h(-N)


# ----------------------------------------------------------------- sphere subdivision

def _ico():
    t = (1 + 5 ** 0.5) / 2
    v = np.array([(-1, t, 0), (1, t, 0), (-1, -t, 0), (1, -t, 0), (0, -1, t), (0, 1, t), (0, -1, -t), (0, 1, -t),
                  (t, 0, -1), (t, 0, 1), (-t, 0, -1), (-t, 0, 1)], float)
    v /= np.linalg.norm(v, axis=1, keepdims=True)
    f = np.array([(0, 11, 5), (0, 5, 1), (0, 1, 7), (0, 7, 10), (0, 10, 11), (1, 5, 9), (5, 11, 4), (11, 10, 2), (10, 7, 6),
                  (7, 1, 8), (3, 9, 4), (3, 4, 2), (3, 2, 6), (3, 6, 8), (3, 8, 9), (4, 9, 5), (2, 4, 11), (6, 2, 10), (8, 6, 7),
                  (9, 8, 1)])
    return v[f]            # (20,3,3) triangles of unit vectors


def _split(T):
    a, b, c = T[:, 0], T[:, 1], T[:, 2]

    def mid(x, y):
        m = x + y
        return m / np.linalg.norm(m, axis=1, keepdims=True)
    ab, bc, ca = mid(a, b), mid(b, c), mid(c, a)
    return np.concatenate([np.stack([a, ab, ca], 1), np.stack([b, bc, ab], 1), np.stack([c, ca, bc], 1), np.stack([ab, bc, ca], 1)])


_T0 = _ico()
for _ in range(4):
    _T0 = _split(_T0)       # 5120 cells
_CEN = _T0.sum(axis=1)
_CEN /= np.linalg.norm(_CEN, axis=1, keepdims=True)
_RAD = float(np.linalg.norm(_T0 - _CEN[:, None, :], axis=2).max())     # chord radius of the largest cell (~0.03)


def _polish(A, B, N0):
    """Pattern search on the sphere, vectorised over K start directions; monotone (never decreases g).  Converges fast at
    smooth optima; optima on kinks of g are covered by the 1-D / 0-D candidates below."""
    n = N0.copy()
    val = gap(A, B, n)
    K = len(n)
    step = np.full(K, 1.5 * _RAD)
    pat = np.array([(1, 0), (-1, 0), (0, 1), (0, -1), (1, 1), (-1, 1), (1, -1), (-1, -1)], float)
    for _ in range(300):
        ref = np.where(np.abs(n[:, :1]) < 0.9, np.array([[1.0, 0, 0]]), np.array([[0, 1.0, 0]]))
        e1 = np.cross(n, ref)
        e1 /= np.linalg.norm(e1, axis=1, keepdims=True)
        e2 = np.cross(n, e1)
        cand = n[:, None, :] + step[:, None, None] * (pat[None, :, :1] * e1[:, None, :] + pat[None, :, 1:] * e2[:, None, :])
        cand /= np.linalg.norm(cand, axis=2, keepdims=True)
        gv = gap(A, B, cand.reshape(-1, 3)).reshape(K, 8)
        k = gv.argmax(axis=1)
        gb = gv[np.arange(K), k]
        imp = gb > val
        n = np.where(imp[:, None], cand[np.arange(K), k], n)
        val = np.where(imp, gb, val)
        step = np.where(imp, step, step * 0.5)
        if step.max() < 1e-10:
            break
    return n, val


_TH = np.linspace(0.0, 2 * np.pi, 360, endpoint=False)
_GR = (5 ** 0.5 - 1) / 2


def _circles(A, B, axes):
    """Maximise g on each great circle {n : n.a = 0} (the kinks of g): lattice of 360 angles + golden section."""
    axes = np.asarray(axes)
    M = len(axes)
    ref = np.where(np.abs(axes[:, :1]) < 0.9, np.array([[1.0, 0, 0]]), np.array([[0, 1.0, 0]]))
    u = np.cross(axes, ref)
    u /= np.linalg.norm(u, axis=1, keepdims=True)
    v = np.cross(axes, u)

    def ev(th):       # th: (M, P)
        n = np.cos(th)[:, :, None] * u[:, None, :] + np.sin(th)[:, :, None] * v[:, None, :]
        return gap(A, B, n.reshape(-1, 3)).reshape(th.shape), n
    g0, _ = ev(np.repeat(_TH[None], M, 0))
    k = g0.argmax(axis=1)
    dth = _TH[1] - _TH[0]
    lo = _TH[k] - dth
    hi = _TH[k] + dth
    for _ in range(48):
        a = hi - _GR * (hi - lo)
        b = lo + _GR * (hi - lo)
        ga, _ = ev(a[:, None])
        gb, _ = ev(b[:, None])
        left = ga[:, 0] > gb[:, 0]
        hi = np.where(left, b, hi)
        lo = np.where(left, lo, a)
    th = 0.5 * (lo + hi)
    gv, n = ev(th[:, None])
    return n[:, 0, :], gv[:, 0]


def signed_distance(A, B, K=6):
    """Returns (lower, upper, n_best, second).
    lower  = g at an explicit unit direction: a certified lower bound of d(A,B).  The search combines a global lattice of
             5120 directions with (i) a smooth 2-D polish of the K best separated cells, (ii) 1-D maximisation along every
             kink circle of g (directions orthogonal to a capsule/cylinder axis, a box axis or a mesh edge), (iii) the 0-D
             kink intersections (+-axes and +-cross products of all axis pairs; for polytope pairs this is the separating-axis
             candidate set, which is exact);
    upper  = certified upper bound max_cells(g(centre) + L*radius) of the lattice (loose: L*0.03);
    second = best value among candidates whose direction is > 0.05 rad away from n_best (tie indicator)."""
    L = float(np.linalg.norm(B.c - A.c) + A.rb + B.rb)
    axes = [a for a in A.kink_axes()] + [a for a in B.kink_axes()]
    if A.polytope() and B.polytope():
        # penetrating polytopes: the optimum is a face normal or an edge x edge direction (separating-axis theorem): exact
        ax = np.array(axes)
        cr = np.cross(ax[:, None, :], ax[None, :, :]).reshape(-1, 3)
        ln = np.linalg.norm(cr, axis=1)
        C = cr[ln > 1e-9] / ln[ln > 1e-9][:, None]
        gc = gap(A, B, C)
        k = int(np.argmax(gc))
        if gc[k] < 0:
            far = np.linalg.norm(C - C[k], axis=1) > 0.05
            return float(gc[k]), float(gc[k]), C[k], (float(gc[far].max()) if far.any() else -np.inf)
    gv = gap(A, B, _CEN)
    upper = float(gv.max() + L * _RAD)
    order = np.argsort(-gv)
    picks = []
    for i in order[:400]:
        if all(np.linalg.norm(_CEN[i] - _CEN[j]) > 3 * _RAD for j in picks):
            picks.append(i)
            if len(picks) == K:
                break
    n2, v2 = _polish(A, B, _CEN[picks])
    N, V = [n2], [v2]
    if axes:
        axes = np.array(axes)
        cr = np.cross(axes[:, None, :], axes[None, :, :]).reshape(-1, 3)
        ln = np.linalg.norm(cr, axis=1)
        cr = cr[ln > 1e-9] / ln[ln > 1e-9][:, None]
        C = np.concatenate([axes, -axes, cr])          # cr already contains both signs (a x b and b x a)
        N.append(C)
        V.append(gap(A, B, C))
        n1, v1 = _circles(A, B, axes)
        N.append(n1)
        V.append(v1)
    N = np.concatenate(N)
    V = np.concatenate(V)
    k = int(np.argmax(V))
    far = np.linalg.norm(N - N[k], axis=1) > 0.05
    second = float(V[far].max()) if far.any() else -np.inf
    return float(V[k]), max(upper, float(V[k])), N[k], second
