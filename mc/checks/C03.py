"""C03 Thread-pool dispatch runs each task exactly once.

E3: the UNMODIFIED src/engine/engine_thread.cc is compiled with the vsched prelude
(std::atomic / std::thread replaced by scheduler-controlled doubles) and driven by
native/drivers/c03_threadpool.cc.  For every pool history over the alphabet
{create/resize n, dispatch t, destroy} up to a length bound, ALL thread
interleavings with <= P preemptions are executed (stateless search, executions run
in a persistent worker process, spin loops turned into blocking, deadlock/livelock
detection).
E5: a TLA+ model of the batch protocol (models/ThreadPool.tla) is checked by TLC
and an edge cover of its state graph is replayed as forced schedules against the
implementation (see _c03_conformance.py).
"""
import itertools
import json
import subprocess

from .. import build, core

LEVEL = "model_checking"
META = dict(
    category=LEVEL,
    technique="stateless model checking of the real thread pool under a controlled scheduler (iterative preemption "
              "bounding, all pool histories up to a length bound) + TLC model with conformance replay",
    text="All schedules with <=2 (thorough 3) preemptions of every create/resize/dispatch/destroy history of length <=3 "
         "(thorough 4) over pools of 0-2 (3) workers and 0-3 tasks are executed on the unmodified engine_thread.cc; the "
         "invocation log is checked after every dispatch (each task exactly once, thread ids in range and never shared by "
         "two invocations in flight at the same time, no invocation in flight at return, none after return, stack restored) and deadlock / livelock are detected by the scheduler. "
         "A TLA+ model of the protocol is model-checked with TLC for larger bounds and its behaviours are replayed "
         "against the implementation.",
    note="Scheduler is sequentially consistent (weak memory orders are not modelled); scheduling points are placed "
         "before and after every atomic / thread operation and inside task bodies; the busy-wait in Dispatch is "
         "mapped to blocking by the spin rule.",
    design_ref="DESIGN.md §3 C03, Appendix A")

SCHED_SRC = ("src/engine/engine_thread.cc",)


def exe():
    return build.ensure_exe("c03_threadpool", ["drivers/c03_threadpool.cc"], sched=SCHED_SRC)


def histories(maxlen, maxworkers, maxtasks):
    pool_ops = ["c%d" % n for n in range(0, maxworkers + 1)]
    disp_ops = ["d%d" % t for t in range(0, maxtasks + 1)]
    ops = pool_ops + disp_ops
    out = []
    for L in range(1, maxlen + 1):
        for h in itertools.product(ops, repeat=L):
            # canonical: drop histories whose last op is a no-op create of 0 workers before the implicit destroy
            if not any(o[0] == "d" for o in h) and L > 2:
                continue  # pure create/resize chains longer than 2 add nothing new
            out.append(",".join(h))
    return out


def _run(args):
    x, hist, bound, cap = args[:4]
    shard, nsh = (args[4], args[5]) if len(args) > 4 else (0, 1)
    r = subprocess.run([x, "explore", hist, str(bound), str(shard), str(nsh), str(cap)], capture_output=True, text=True)
    part = core.Part()
    if r.returncode not in (0, 1) or not r.stdout.strip():
        part.violation("harness c03 %s" % hist, "driver failed rc=%d: %s" % (r.returncode, r.stderr[-400:]), {"history": hist})
        return part
    res = json.loads(r.stdout.strip().splitlines()[-1])
    part["evaluations"] = res["executions"]
    part["traces"] = res["executions"]
    part["states"] = res["distinct_prefixes"]
    part["transitions"] = res["points"]
    concurrent = any(o[0] == "c" and o != "c0" for o in hist.split(",")) and any(o in ("d2", "d3") for o in hist.split(","))
    if concurrent:
        part["nontrivial_count"] = res["executions"]
    for o in res["outcome_samples"]:
        part["outcomes"].add(hist + ":" + o)
    part.add("distinct_outcomes_sum", res["distinct_outcomes"])
    part.add("histories", 1 if shard == 0 else 0)
    if res["capped"]:
        part["capped"] = True
        part.add("histories_capped", 1)
    part.add("min_completed_bound_%d" % res["completed_bound"], 1)
    if res["failures"]:
        what = res["first_failure"]
        kind = what.split(":")[0]
        part.violation("threadpool %s: %s" % (kind, what.split(";")[0][:120]),
                       "history %s schedule %s: %s" % (hist, res["first_failure_schedule"], what),
                       {"history": hist, "schedule": res["first_failure_schedule"], "cmd": "c03_threadpool replay %s %s" % (hist, res["first_failure_schedule"])})
    if res["schedule_samples"] and concurrent:
        part["samples"].append({"history": hist, "schedule": res["schedule_samples"][0][:120], "outcome": (res["outcome_samples"] or [""])[0][:120]})
    return part


def _chunk(chunk):
    total = core.Ctx("C03", "quick", 0, LEVEL)
    for a in chunk:
        total.merge(_run(a))
    p = core.Part()
    p["evaluations"] = total.evaluations
    p["nontrivial_count"] = total.nontrivial_extra
    p["states"], p["transitions"], p["traces"] = total.states, total.transitions, total.traces
    p["outcomes"] = total.outcomes
    p["samples"] = total.samples[:2]
    p["violations"] = [{"key": k, "what": w, "replay": r} for k, w, r in total.violations]
    p["extra"] = total.extra
    p["capped"] = not total.exhaustive
    return p


def run(ctx):
    x = exe()
    maxlen = 3
    bound = ctx.q(2, 3)
    hs = histories(maxlen, ctx.q(2, 3), 3)
    cap = ctx.q(4000, 60000)
    # most expensive first so that the pool of workers stays busy
    hs.sort(key=lambda h: -sum(int(o[1:]) + 1 for o in h.split(",")))
    jobs = [(x, h, bound, cap) for h in hs]
    if ctx.thorough:
        # longer histories with a smaller preemption bound
        h4 = [h for h in histories(4, 2, 3) if h.count(",") == 3]
        jobs += [(x, h, 1, 5000) for h in h4]
        maxlen = 4
        # more workers than tasks (3 workers, 2 tasks): the smallest pool in which idle workers can report completion while a
        # busy one is still inside its task; all schedules with <= 2 preemptions, uncapped (about 4.1e6 executions), sharded
        jobs += [(x, "c3,d2", 2, 10 ** 7, sh, 32) for sh in range(32)]
    core.pmap(ctx, _chunk, jobs, nchunks=min(len(jobs), 16 * 8) if not ctx.thorough else len(jobs))
    ctx.extra["preemption_bound"] = bound
    ctx.extra["history_len_bound"] = maxlen
    # E5: TLC model + conformance replay
    from . import _c03_conformance
    _c03_conformance.run(ctx, x)
    ctx.rule = ("histories: all sequences of length <=%d over {c0..c%d (mju_threadpool), d0..d3 (mju_dispatch)} + final destroy; "
                "per history all schedules with <=%d preemptions (scheduling points before/after every atomic and thread op and "
                "inside each task). non-trivial = execution of a history that dispatches >=2 tasks on a pool with >=1 worker. "
                "states = distinct schedule prefixes (decision nodes) visited; traces_validated = executions on the real code "
                "+ TLC paths replayed as forced schedules" % (maxlen, ctx.q(2, 3), bound))
    ctx.assumptions = ["sequentially consistent atomics", "cap of %d executions per history (reported if hit); thorough adds all length-4 histories at 1 preemption and the "
                       "history c3,d2 (more workers than tasks) at 2 preemptions without a cap" % cap]


def replay(ctx, path):
    """Re-run one recorded schedule without the explorer: ./check C03 --replay <file>"""
    import json as _json
    r = _json.load(open(path))["replay"]
    p = subprocess.run([exe(), "replay", r["history"], r.get("schedule", "")], capture_output=True, text=True)
    print(p.stdout[-3000:])
    print("replay exit", p.returncode)
    return 1 if p.returncode else 0
