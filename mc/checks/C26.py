"""C26 The state vector API is a faithful serialization.

Exhaustive over ALL 2^14 state signatures x 8 models that between them make every state
component non-empty (and, in other models, empty): mj_stateSize / mj_getState / mj_setState /
mj_copyState / mj_extractState against a reference serialisation written from the
documentation (components concatenated in mjtState bit order, eq_active widened to mjtNum),
with guard words around every buffer, a receiver mjData pre-filled with sentinels, and a
complete field-by-field comparison of the receiver against its pristine copy ("leaves all
others untouched").  Plus: mj_resetData after every call history of depth <= 2 (thorough 3)
== fresh mj_makeData on every field, mj_resetDataKeyframe == key arrays, and the error paths
(invalid signature bits / dst not a subset of src must raise mju_error, not crash).
"""
import ctypes
import itertools
import json

import numpy as np

from .. import core, mj
from . import _c01_models as M
from . import _c01_native as N

LEVEL = "exploration"
META = dict(
    category=LEVEL,
    technique="exhaustive enumeration of all 2^14 mjtState signatures x 8 feature models (bit-exact reference serialisation, "
              "guard words, sentinel-filled receiver, complete mjData field diff); all reset histories of depth <= 2/3",
    text="All 16384 signatures are run through mj_stateSize/getState/setState/copyState on 8 compiled models covering every "
         "state component both empty and non-empty (na, nhistory, nmocap, neq, nuserdata, npluginstate, nq!=nv, nv=0); "
         "mj_extractState is run for every src signature against dst = src minus each component, src intersected with the 4 "
         "named composites, every single component, src itself and the empty set. The oracle is a reference serialisation "
         "built in numpy from the documented component order/sizes, compared bit-for-bit, with canaries on both sides of "
         "every buffer and a full per-field diff of the receiving mjData (all MJDATA_POINTERS, arena arrays, scalars, stack "
         "pointers) to prove that nothing outside the signature is touched. mj_resetData is compared with a fresh "
         "mj_makeData after every call history up to the depth bound, mj_resetDataKeyframe with the key arrays.",
    note="npluginstate>0 needs a plugin that declares state: no first-party plugin does, so a verification plugin "
         "(native/drivers/c26_stateplugin.cc, registered through mjp_registerPlugin) is used. Fields ignored in mjData "
         "diffs: timers, maxuse_* statistics, threadpool handle, plugin_data (heap pointers). 'every model' is "
         "represented by 8 models chosen so that each component size is zero in one and non-zero in another.",
    design_ref="DESIGN.md §3 C26")

NSTATE = 14
COMPOSITES = {
    "PHYSICS": (1 << 1) | (1 << 2) | (1 << 3) | (1 << 4),
    "FULLPHYSICS": (1 << 0) | (1 << 1) | (1 << 2) | (1 << 3) | (1 << 4) | (1 << 13),
    "USER": (1 << 6) | (1 << 7) | (1 << 8) | (1 << 9) | (1 << 10) | (1 << 11) | (1 << 12),
    "INTEGRATION": (1 << NSTATE) - 1,
}
GUARD = 4
CANARY = np.frombuffer(np.array([0x7FF8DEADBEEF0001], dtype=np.uint64).tobytes(), dtype=np.float64)[0]  # a NaN payload
CANARY_BITS = np.uint64(0x7FF8DEADBEEF0001)


def tree_enums(lib):
    """mjtState values from the tree's introspection tables (not transcribed)."""
    from .. import introspect_tree
    en = introspect_tree.load("enums").ENUMS["mjtState"].values
    return dict(en)


def doc_sizes(m):
    """Component sizes as documented in mjtState / mjData comments."""
    return [1, m.nq, m.nv, m.na, m.nhistory, m.nv, m.nu, m.nv, 6 * m.nbody, m.neq, 3 * m.nmocap, 4 * m.nmocap,
            m.nuserdata, m.npluginstate]


def fill_pattern(d, base):
    """Write a recognisable, everywhere-distinct pattern into every state component of d."""
    vals = []
    for k, (_, _, fld) in enumerate(M.STATE_BITS):
        if fld == "time":
            d.time = base + 0.5
            vals.append(np.array([base + 0.5]))
            continue
        a = d.field(fld)
        n = a.size
        if fld == "eq_active":
            v = np.array([(i + int(base)) % 2 for i in range(n)], dtype=np.uint8)
            a[...] = v.reshape(a.shape)
            vals.append(v.astype(np.float64))
            continue
        v = base + 10.0 * (k + 1) + 0.001 * np.arange(1, n + 1)
        a[...] = v.reshape(a.shape)
        vals.append(v.astype(np.float64))
    return vals


def state_arrays(d):
    """Current value of every state component as a flat float64 array (eq_active widened)."""
    out = []
    for _, _, fld in M.STATE_BITS:
        if fld == "time":
            out.append(np.array([d.time], dtype=np.float64))
        else:
            out.append(np.array(d.field(fld), dtype=np.float64).ravel())
    return out


def bits_eq(a, b):
    return a.shape == b.shape and a.tobytes() == b.tobytes()


class Buf:
    """float64 buffer of n doubles with GUARD canaries on both sides."""

    def __init__(self, n):
        self.n = n
        self.raw = np.empty(n + 2 * GUARD, dtype=np.float64)
        self.u = self.raw.view(np.uint64)
        self.reset()
        self.data = self.raw[GUARD:GUARD + n]
        self.ptr = self.raw.ctypes.data + 8 * GUARD

    def reset(self, fill=0x7FF8DEADBEEF0001):
        self.u[:] = np.uint64(fill)

    def guards_ok(self):
        return bool((self.u[:GUARD] == CANARY_BITS).all() and (self.u[GUARD + self.n:] == CANARY_BITS).all())


def prepare(lib, name, xml_fn):
    m = lib.load_xml(xml_fn())
    src = lib.make_data(m)
    for _ in range(3):
        lib.mj_step(m, src)
    srcvals = fill_pattern(src, 100.0)
    rcv = lib.make_data(m)
    # a used receiver (different history), then sentinels in every state component
    rcv.qvel[...] = 0.3
    for _ in range(2):
        lib.mj_step(m, rcv)
    lib.mj_forward(m, rcv)
    rcvvals = fill_pattern(rcv, -777.0)
    rcv0 = lib.mj_copyData(None, m, rcv)
    src0 = lib.mj_copyData(None, m, src)
    return m, src, srcvals, rcv, rcvvals, mj.Data(lib, m, rcv0), mj.Data(lib, m, src0)


def restore_state(rcv, rcvvals):
    for (_, _, fld), v in zip(M.STATE_BITS, rcvvals):
        if fld == "time":
            rcv.time = v[0]
        elif v.size:
            a = rcv.field(fld)
            a[...] = v.astype(a.dtype).reshape(a.shape)


def check_sig_range(lib, part, mi, lo, hi, thorough):
    name, fn = M.C26_MODELS[mi]
    cmp = N.cmp_for(lib)
    m, src, srcvals, rcv, rcvvals, rcv0, src0 = prepare(lib, name, fn)
    sizes = doc_sizes(m)
    nonempty = [k for k in range(NSTATE) if sizes[k] > 0]
    total = sum(sizes)
    gbuf = Buf(total)
    ebuf = Buf(total)
    rep = {"model": name}

    def viol(key, what, sig, **kw):
        r = dict(rep, sig=sig, **kw)
        part.violation("%s model=%s sig=%d" % (key, name, sig), "%s (model %s, sig=0x%x)" % (what, name, sig), r)

    def verify_receiver(sig, api):
        """rcv must hold src's value in every component of sig, its sentinel elsewhere, and be otherwise pristine."""
        cur = state_arrays(rcv)
        ok = True
        for k in range(NSTATE):
            want = srcvals[k] if (sig >> k) & 1 else rcvvals[k]
            if not bits_eq(cur[k], want):
                viol("%s wrong component %s" % (api, M.STATE_BITS[k][0]),
                     "%s: component %s %s" % (api, M.STATE_BITS[k][0],
                                              "not restored exactly" if (sig >> k) & 1 else "modified although not in the signature"),
                     sig, component=M.STATE_BITS[k][0])
                ok = False
        restore_state(rcv, rcvvals)
        dl = cmp.diff(m, rcv, rcv0)
        if dl:
            viol("%s touches %s" % (api, dl[0]), "%s modified non-state mjData field(s) %s" % (api, dl[:5]), sig, fields=dl[:8])
            lib.mj_copyData(rcv, m, rcv0)
            ok = False
        return ok

    for sig in range(lo, hi):
        comps = [k for k in range(NSTATE) if (sig >> k) & 1]
        ref = np.concatenate([srcvals[k] for k in comps]) if comps else np.zeros(0)
        nref = ref.size
        sel_nonempty = [k for k in comps if sizes[k] > 0]
        nontrivial = bool(sel_nonempty) and len(sel_nonempty) < len(nonempty)
        part.count(1, key=(name, sig) if nontrivial else None,
                   sample={"model": name, "sig": sig, "components": [M.STATE_BITS[k][0] for k in comps], "size": int(nref)}
                   if sig in (0x2a5f, 0x1234) else None)
        # ---- stateSize
        n = lib.mj_stateSize(m, sig)
        if n != nref:
            viol("stateSize", "mj_stateSize=%d, documented component sizes sum to %d" % (n, nref), sig)
            continue
        # ---- getState: writes exactly n doubles, equal to the reference serialisation; src untouched
        gbuf.reset()
        lib.mj_getState(m, src, gbuf.ptr, sig)
        if not (gbuf.u[:GUARD] == CANARY_BITS).all() or not (gbuf.u[GUARD + nref:] == CANARY_BITS).all():
            viol("getState length", "mj_getState wrote outside the first mj_stateSize=%d doubles" % n, sig)
            continue
        if not bits_eq(gbuf.raw[GUARD:GUARD + nref], ref):
            viol("getState content", "mj_getState differs from the reference serialisation", sig)
            continue
        if (gbuf.u[GUARD:GUARD + nref] == CANARY_BITS).any():
            viol("getState short", "mj_getState left some of the first mj_stateSize doubles unwritten", sig)
            continue
        dl = cmp.diff(m, src, src0)
        if dl:
            viol("getState modifies source", "mj_getState modified its const mjData: %s" % dl[:5], sig)
            lib.mj_copyData(src, m, src0)
        # ---- setState(getState) into the sentinel receiver
        lib.mj_setState(m, rcv, gbuf.ptr, sig)
        if not gbuf.guards_ok() or not bits_eq(gbuf.raw[GUARD:GUARD + nref], ref):
            viol("setState modifies input", "mj_setState modified its const state vector", sig)
        verify_receiver(sig, "setState")
        # ---- copyState == get ; set
        lib.mj_copyState(m, src, rcv, sig)
        verify_receiver(sig, "copyState")
        dl = cmp.diff(m, src, src0)
        if dl:
            viol("copyState modifies source", "mj_copyState modified its const source: %s" % dl[:5], sig)
            lib.mj_copyData(src, m, src0)
        # ---- extractState for the stated family of destination signatures
        dsts = {sig, 0}
        for k in comps:
            dsts.add(sig & ~(1 << k))
            dsts.add(1 << k)
        for c in COMPOSITES.values():
            dsts.add(sig & c)
        for dst in sorted(dsts):
            dcomps = [k for k in range(NSTATE) if (dst >> k) & 1]
            dref = np.concatenate([srcvals[k] for k in dcomps]) if dcomps else np.zeros(0)
            ebuf.reset()
            lib.mj_extractState(m, gbuf.ptr, sig, ebuf.ptr, dst)
            part.add("extract_calls")
            nd = dref.size
            if (not (ebuf.u[:GUARD] == CANARY_BITS).all() or not (ebuf.u[GUARD + nd:] == CANARY_BITS).all()
                    or not bits_eq(ebuf.raw[GUARD:GUARD + nd], dref)):
                viol("extractState dst=%d" % dst, "mj_extractState(src=0x%x,dst=0x%x) != mj_getState(dst) or wrote outside "
                     "mj_stateSize(dst)=%d doubles" % (sig, dst, nd), sig, dst=dst)
                break
            if not bits_eq(gbuf.raw[GUARD:GUARD + nref], ref) or not gbuf.guards_ok():
                viol("extractState modifies src", "mj_extractState modified its const src vector", sig, dst=dst)
                break
        # ---- error path: dst with one bit outside src must raise, and must not write
        if sig != (1 << NSTATE) - 1:
            cands = [k for k in range(NSTATE) if not (sig >> k) & 1]
            dst = (sig & 0x5555) | (1 << cands[sig % len(cands)])
            ebuf.reset()
            try:
                lib.mj_extractState(m, gbuf.ptr, sig, ebuf.ptr, dst)
                viol("extractState accepts non-subset", "mj_extractState did not raise for dst=0x%x not a subset of src" % dst,
                     sig, dst=dst)
            except mj.MjError:
                part.add("error_paths")
                if not (ebuf.u == CANARY_BITS).all():
                    viol("extractState writes before error", "mj_extractState wrote to dst before raising", sig, dst=dst)
    for x in (src, rcv, rcv0, src0):
        x.free()
    m.free()


INVALID_SIGS = [-1, 1 << NSTATE, (1 << NSTATE) | 1, (1 << NSTATE) + 0x2aaa, 1 << 20, 1 << 30, -(1 << 31), (1 << 31) - 1,
                -(1 << NSTATE)]


def check_errors(lib, part, mi):
    """Invalid signatures must raise mju_error in every entry point and leave buffers / data untouched."""
    name, fn = M.C26_MODELS[mi]
    cmp = N.cmp_for(lib)
    m = lib.load_xml(fn())
    total = sum(doc_sizes(m))
    for sig in INVALID_SIGS:
        for api in ("stateSize", "getState", "setState", "copyState", "extract_src", "extract_dst"):
            d = lib.make_data(m)
            d2 = lib.make_data(m)
            d0 = mj.Data(lib, m, lib.mj_copyData(None, m, d))
            buf = Buf(total)
            buf2 = Buf(total)
            part.count(1, key=("err", name, sig, api))
            part.add("error_paths")
            try:
                if api == "stateSize":
                    lib.mj_stateSize(m, sig)
                elif api == "getState":
                    lib.mj_getState(m, d, buf.ptr, sig)
                elif api == "setState":
                    buf.raw[:] = 0.0
                    lib.mj_setState(m, d, buf.ptr, sig)
                elif api == "copyState":
                    lib.mj_copyState(m, d2, d, sig)
                elif api == "extract_src":
                    lib.mj_extractState(m, buf.ptr, sig, buf2.ptr, 0)
                else:
                    lib.mj_extractState(m, buf.ptr, (1 << NSTATE) - 1, buf2.ptr, sig)
                if not (api == "extract_dst" and 0 <= sig < (1 << NSTATE)):
                    part.violation("invalid signature accepted api=%s sig=%d" % (api, sig),
                                   "mj_%s accepted invalid signature %d without mju_error (model %s)" % (api, sig, name),
                                   {"model": name, "api": api, "sig": sig})
            except mj.MjError:
                if api in ("getState", "extract_src", "extract_dst") and not ((buf.u == CANARY_BITS).all() and (buf2.u == CANARY_BITS).all()):
                    part.violation("write before error api=%s sig=%d" % (api, sig), "mj_%s wrote output before raising" % api,
                                   {"model": name, "api": api, "sig": sig})
                if api in ("setState", "copyState"):
                    dl = cmp.diff(m, d, d0)
                    if dl:
                        part.violation("data modified before error api=%s sig=%d" % (api, sig),
                                       "mj_%s modified %s before raising" % (api, dl[:4]), {"model": name, "api": api, "sig": sig})
            d.free()
            d2.free()
            d0.free()
    m.free()


# ---------------------------------------------------------------------------------------------- reset

RESET_OPTIONS = ["", '  <option integrator="RK4"/>', '  <option integrator="implicitfast" cone="elliptic"><flag energy="enable"/></option>',
                 '  <option><flag sleep="enable"/></option>']


def _op_pattern(lib, m, d):
    # perturb every state component, keeping the state physically usable (unit quaternions, small values)
    if m.nv:
        d.qvel[...] = np.array(d.qvel) + 0.25
        d.qfrc_applied[...] = 0.125
    d.xfrc_applied[...] = 0.0625
    if m.nu:
        d.ctrl[...] = 0.5
    if m.neq:
        d.eq_active[...] = 1 - np.array(d.eq_active)
    if m.nuserdata:
        d.userdata[...] = 7.5
    if m.npluginstate:
        d.plugin_state[...] = -2.5
    if m.nmocap:
        d.mocap_pos[...] = np.array(d.mocap_pos) + 0.01
    if m.na:
        d.act[...] = np.array(d.act) + 0.125
    if m.nhistory:
        d.history[...] = np.array(d.history) + 0.001
    if m.nv:
        d.qacc_warmstart[...] = 0.5
    d.time = d.time + 0.75


RESET_OPS = {
    "step": lambda lib, m, d: lib.mj_step(m, d),
    "forward": lambda lib, m, d: lib.mj_forward(m, d),
    "inverse": lambda lib, m, d: lib.mj_inverse(m, d),
    "step1": lambda lib, m, d: lib.mj_step1(m, d),
    "step2": lambda lib, m, d: lib.mj_step2(m, d),
    "perturb": _op_pattern,
    "key": lambda lib, m, d: lib.mj_resetDataKeyframe(m, d, m.nkey - 1),
    "reset": lambda lib, m, d: lib.mj_resetData(m, d),
}


def reset_models():
    """the 8 signature models + the sleep model (mj_resetData re-runs mj_forward to put init-asleep trees to sleep)"""
    return M.C26_MODELS + [("sleep", M.m_sleep), ("stack", M.m_stack)]


def check_reset(lib, part, mi, oi, depth):
    name, fn = reset_models()[mi]
    cmp = N.cmp_for(lib)
    opt = RESET_OPTIONS[oi]
    m = lib.load_xml(fn(opt))
    fresh = lib.make_data(m)
    ops = sorted(RESET_OPS)
    for L in range(0, depth + 1):
        for hist in itertools.product(ops, repeat=L):
            d = lib.make_data(m)
            try:
                for o in hist:
                    RESET_OPS[o](lib, m, d)
                lib.mj_resetData(m, d)
            except mj.MjError as e:
                part.add("history_raised")
                d.free()
                continue
            nontrivial = any(o in ("step", "step2", "perturb", "key") for o in hist)
            part.count(1, key=("reset", name, oi, hist) if nontrivial else None,
                       sample={"model": name, "option": opt, "history": hist} if hist == ("perturb", "step") else None)
            dl = cmp.diff(m, d, fresh)
            if dl:
                part.violation("resetData != makeData field=%s model=%s" % (dl[0], name),
                               "after history %s, mj_resetData differs from a fresh mj_makeData in %s (model %s, option %r)"
                               % (list(hist), dl[:6], name, opt), {"model": name, "option": opt, "history": hist, "fields": dl[:10]})
            # keyframes: exactly the key arrays on top of the reset state
            for key in range(-1, m.nkey + 1):
                lib.mj_resetDataKeyframe(m, d, key)
                part.add("keyframe_resets")
                exp = {}
                if 0 <= key < m.nkey:
                    exp = {"time": np.array([m.key_time[key]]), "qpos": m.key_qpos[key] if m.nq else None,
                           "qvel": m.key_qvel[key] if m.nv else None, "act": m.key_act[key] if m.na else None,
                           "mocap_pos": m.key_mpos[key] if m.nmocap else None, "mocap_quat": m.key_mquat[key] if m.nmocap else None,
                           "ctrl": m.key_ctrl[key] if m.nu else None}
                bad = []
                for fld, v in exp.items():
                    if v is None:
                        continue
                    cur = np.array([d.time]) if fld == "time" else np.array(d.field(fld)).ravel()
                    if not bits_eq(cur, np.array(v, dtype=np.float64).ravel()):
                        bad.append(fld)
                dl = [f for f in cmp.diff(m, d, fresh) if f not in exp or exp[f] is None]
                # fields that the keyframe sets may differ from fresh; but they must differ ONLY if the key value differs
                if bad or dl:
                    part.violation("resetDataKeyframe key=%d model=%s" % (key, name),
                                   "mj_resetDataKeyframe(%d): key fields not loaded exactly %s / other fields differ from reset %s "
                                   "(model %s, history %s)" % (key, bad, dl[:6], name, list(hist)),
                                   {"model": name, "option": opt, "history": hist, "key": key})
            d.free()
    fresh.free()
    m.free()


def _chunk(chunk):
    lib = mj.load()
    N.register_stateplugin(lib)
    part = core.Part()
    for job in chunk:
        try:
            if job[0] == "sig":
                check_sig_range(lib, part, job[1], job[2], job[3], job[4])
            elif job[0] == "err":
                check_errors(lib, part, job[1])
            else:
                check_reset(lib, part, job[1], job[2], job[3])
        except mj.MjError as e:
            part.violation("unexpected mju_error job=%s" % (job,), "unexpected mju_error: %s" % e, {"job": job})
    return part


def self_check(lib):
    en = tree_enums(lib)
    for nm, bit, _ in M.STATE_BITS:
        if en["mjSTATE_" + nm] != bit:
            raise RuntimeError("mjtState layout changed: %s" % nm)
    for nm, v in COMPOSITES.items():
        if en["mjSTATE_" + nm] != v:
            raise RuntimeError("mjtState composite changed: %s" % nm)
    nbits = sum(1 for k, v in en.items() if v and v & (v - 1) == 0)
    if nbits != NSTATE:
        raise RuntimeError("mjNSTATE changed: %d single-bit components" % nbits)


def run(ctx):
    lib = mj.load()
    N.register_stateplugin(lib)
    N.cmp_for(lib)
    self_check(lib)
    nsig = 1 << NSTATE
    step = 512
    jobs = []
    for mi in range(len(M.C26_MODELS)):
        for lo in range(0, nsig, step):
            jobs.append(("sig", mi, lo, lo + step, ctx.thorough))
        jobs.append(("err", mi))
    for mi in range(len(reset_models())):
        for oi in range(len(RESET_OPTIONS)):
            jobs.append(("reset", mi, oi, ctx.q(2, 3)))
    core.pmap(ctx, _chunk, jobs, nchunks=min(len(jobs), core.NCPU * 6))
    ctx.extra["models"] = len(M.C26_MODELS)
    ctx.extra["signatures_per_model"] = nsig
    ctx.rule = ("8 models (all components non-empty; minimal; ball+mocap+equalities; PID plugin; two stateful plugin instances; "
                "history-heavy; free+ball+slide; nv=0) x all 2^14 signatures: stateSize/getState/setState/copyState, and "
                "extractState for dst in {src, 0, src minus each component, each single component, src & PHYSICS/FULLPHYSICS/"
                "USER/INTEGRATION} plus one non-subset dst (must raise); 9 invalid signatures x 6 entry points per model; "
                "mj_resetData (8 models + sleep-init model + contact stack) after every history of depth <= %d over %s under 4 "
                "option sets (default; RK4; implicitfast+elliptic+energy; sleep enabled), and mj_resetDataKeyframe for "
                "every key in [-1, nkey]. non-trivial = signature selecting at least one non-empty component and leaving at "
                "least one non-empty component unselected; reset history containing a state-changing call"
                % (ctx.q(2, 3), sorted(RESET_OPS)))
    ctx.assumptions = ["reference serialisation: components in mjtState bit order, sizes from the mjtState/mjData documentation, "
                       "eq_active widened byte->mjtNum", "mjtState values cross-checked against the tree's introspect tables",
                       "verification plugin verif.state supplies npluginstate>0 (no first-party plugin declares state)"]


def replay(ctx, path):
    with open(path) as fh:
        r = json.load(fh)["replay"]
    lib = mj.load()
    N.register_stateplugin(lib)
    part = core.Part()
    names = [n for n, _ in M.C26_MODELS]
    if "sig" in r and "api" not in r:
        check_sig_range(lib, part, names.index(r["model"]), r["sig"], r["sig"] + 1, True)
    elif "api" in r:
        check_errors(lib, part, names.index(r["model"]))
    elif "history" in r:
        check_reset(lib, part, [n for n, _ in reset_models()].index(r["model"]), RESET_OPTIONS.index(r["option"]), len(r["history"]))
    ctx.merge(part)
    ctx.rule = "replay"
    return ctx.finish()
