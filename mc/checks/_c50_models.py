"""Models for C50 (scene construction): a kitchen-sink model that contains every object kind that
engine_vis_visualize.c draws, a geom-group / material / alpha model for the exact-geom-set oracle, and a few
kinematic-tree alphabet models."""
from __future__ import annotations

from .. import alphabet


def _tetra(name, s=0.1):
    return ('<mesh name="%s" vertex="0 0 0  %g 0 0  0 %g 0  0 0 %g"/>' % (name, s, s, s))


def _octa(name, s=0.08):
    v = "%g 0 0  -%g 0 0  0 %g 0  0 -%g 0  0 0 %g  0 0 -%g" % (s, s, s, s, s, s)
    return '<mesh name="%s" vertex="%s"/>' % (name, v)


KITCHEN_SINK = """
<mujoco model="kitchen-sink">
  <compiler angle="radian" autolimits="true"/>
  <option timestep="0.002" cone="elliptic" solver="CG">
    <flag island="enable"/>
  </option>
  <size memory="2M"/>
  <visual>
    <global offwidth="64" offheight="64"/>
    <quality numslices="6"/>
  </visual>
  <extension>
    <plugin plugin="mujoco.sensor.touch_grid"/>
    <plugin plugin="mujoco.elasticity.cable"/>
  </extension>
  <asset>
    <texture name="tex2d" type="2d" builtin="checker" width="8" height="8" rgb1="1 0 0" rgb2="0 1 0"/>
    <texture name="texcube" type="cube" builtin="flat" width="4" height="4" rgb1="0 0 1" rgb2="1 1 0"/>
    <material name="matplane" texture="tex2d" texrepeat="3 2" texuniform="true" reflectance="0.3"/>
    <material name="matcube" texture="texcube" rgba="0.2 0.4 0.6 0.8" emission="0.1" specular="0.7" shininess="0.2"/>
    <material name="matplain" rgba="0.9 0.1 0.1 1"/>
    <material name="matclear" rgba="0.9 0.1 0.1 0"/>
    %(tetra)s
    %(octa)s
    %(octa2)s
    <hfield name="hf" nrow="3" ncol="3" size="0.3 0.3 0.05 0.02" elevation="0 0.1 0  0.2 0.5 0.2  0 0.1 1"/>
  </asset>
  <default>
    <default class="nocol"><geom contype="0" conaffinity="0"/></default>
  </default>
  <worldbody>
    <light name="l0" pos="0 0 3" dir="0 0 -1"/>
    <light name="l1" pos="1 1 2" dir="-1 -1 -1" type="directional" active="false"/>
    <camera name="camfix" pos="0 -2 1" xyaxes="1 0 0 0 0.5 1"/>
    <camera name="camres" pos="1 -2 1" xyaxes="1 0 0 0 0.5 1" resolution="3 2" fovy="40"/>
    <camera name="camortho" pos="-1 -2 1" xyaxes="1 0 0 0 0.5 1" resolution="2 2" projection="orthographic" fovy="1.5"/>
    <camera name="camintr" pos="0 -2 2" xyaxes="1 0 0 0 0.5 1" resolution="4 3" sensorsize="0.004 0.003" focal="0.005 0.005"/>
    <geom name="floor" type="plane" size="0 0 0.1" material="matplane"/>
    <geom name="finiteplane" type="plane" size="0.4 0.3 0.1" pos="3 0 0.01" rgba="0.3 0.3 0.3 1" class="nocol"/>
    <geom name="hfg" type="hfield" hfield="hf" pos="-3 0 0" class="nocol" group="1"/>
    <geom name="wsphere" type="sphere" size="0.05" pos="0 2 0.5" class="nocol" rgba="1 1 1 0"/>
    <geom name="wmesh" type="mesh" mesh="octa" pos="0 2.3 0.5" class="nocol" group="2"/>
    <geom name="wsdf" type="sdf" mesh="octa2" pos="0 2.6 0.5" class="nocol"/>
    <site name="wsite" pos="0 2 1" size="0.03" type="box" material="matplain"/>
    <site name="wsite0" pos="0 2.2 1" size="0.03" rgba="1 1 1 0"/>
    <site name="anchor0" pos="-0.5 0 1.2" size="0.01"/>
    <site name="anchor1" pos="0.5 0 1.2" size="0.01"/>
    <site name="anchor2" pos="-0.5 0.3 1.2" size="0.01" group="4"/>
    <site name="anchor3" pos="0.5 0.3 1.2" size="0.01" group="4"/>

    <body name="mocap" mocap="true" pos="0 -1 0.5">
      <geom name="mocapgeom" type="box" size="0.05 0.05 0.05" class="nocol" rgba="0 1 0 0.5"/>
      <site name="mocapsite" size="0.02"/>
    </body>

    <body name="freebox" pos="0 0 0.12">
      <freejoint name="free0"/>
      <geom name="boxg" type="box" size="0.1 0.1 0.1" material="matcube" condim="6" surfacevel="0.2 0.1 0 0 0 0"/>
      <site name="boxs" pos="0 0 0.1" size="0.02" type="capsule"/>
      <site name="rf_site" pos="0.12 0 0" zaxis="1 0 0" size="0.01"/>
      <camera name="bodycam" pos="0 0 0.2" resolution="2 1"/>
      <light name="bodylight" pos="0 0 0.3"/>
    </body>

    <body name="ballsphere" pos="0.4 0 0.09">
      <freejoint name="free1"/>
      <geom name="sphg" type="sphere" size="0.1" condim="1" rgba="0.2 0.3 0.4 1"/>
      <geom name="ellg" type="ellipsoid" size="0.04 0.05 0.06" pos="0 0 0.15" group="1"/>
    </body>

    <body name="gapbody" pos="-0.4 0 0.16">
      <freejoint name="free2"/>
      <geom name="gapg" type="capsule" size="0.05 0.1" margin="0.1" gap="0.1" condim="3"/>
    </body>

    <body name="arm" pos="0 0.6 0.5">
      <joint name="hinge0" type="hinge" axis="0 1 0" range="-0.3 0.3" damping="0.1"/>
      <geom name="armg" type="capsule" fromto="0 0 0 0.3 0 0" size="0.03" class="nocol"/>
      <site name="arms" pos="0.3 0 0" size="0.02" type="cylinder" group="1"/>
      <site name="cranksite" pos="0.15 0 0.03" size="0.01"/>
      <body name="forearm" pos="0.3 0 0">
        <joint name="ball0" type="ball" damping="0.1"/>
        <geom name="forearmg" type="cylinder" size="0.03 0.1" pos="0 0 -0.1" class="nocol" group="2"/>
        <geom name="forearmmesh" type="mesh" mesh="tetra" pos="0 0 -0.25" contype="1" conaffinity="1"/>
        <site name="fas" pos="0 0 -0.2" size="0.02" type="ellipsoid"/>
        <body name="hand" pos="0 0 -0.3">
          <joint name="slide0" type="slide" axis="0 0 1" range="-0.05 0.05" damping="1"/>
          <joint name="hinge1" type="hinge" axis="1 0 0" damping="0.1"/>
          <geom name="handg" type="box" size="0.03 0.02 0.01" class="nocol" material="matplain" rgba="0.1 0.9 0.1 1"/>
          <geom name="handclear" type="sphere" size="0.02" class="nocol" material="matclear"/>
          <site name="hands" size="0.015"/>
          <site name="slidersite" pos="0 0 -0.05" size="0.01" zaxis="1 0 0"/>
        </body>
      </body>
    </body>

    <body name="wrapbody" pos="0 0.3 1.0">
      <joint name="hinge2" type="hinge" axis="0 1 0" damping="0.5"/>
      <geom name="wrapg" type="sphere" size="0.06" class="nocol" group="3"/>
      <geom name="wrapcyl" type="cylinder" size="0.03 0.1" pos="0.2 0 0" euler="1.57 0 0" class="nocol" group="5"/>
      <site name="sidesite" pos="0 0 0.1" size="0.01"/>
      <site name="ts0" pos="-0.2 0 0.02" size="0.01"/>
      <site name="ts1" pos="0.35 0 0.02" size="0.01"/>
    </body>

    <body name="weldbody" pos="1 1 0.5">
      <joint name="slide1" type="slide" axis="0 0 1" damping="2"/>
      <geom name="weldg" type="sphere" size="0.05" class="nocol"/>
      <site name="welds" size="0.01"/>
    </body>
    <body name="connbody" pos="1.3 1 0.5">
      <joint name="ball1" type="ball" damping="0.2"/>
      <geom name="conng" type="capsule" size="0.02 0.1" class="nocol" group="7"/>
      <geom name="conng2" type="sphere" size="0.02" class="nocol" group="-1"/>
      <inertial pos="0 0 0" mass="0.1" diaginertia="0.001 0.001 0.001"/>
      <site name="conns" pos="0 0 0.1" size="0.01"/>
    </body>

    <body name="touchbody" pos="0.8 0 0.3">
      <geom name="touchg" type="box" size="0.05 0.05 0.05"/>
      <site name="touchsite" pos="0 0 0.06" zaxis="0 0 1" size="0.01"/>
    </body>
    <body name="toucher" pos="0.8 0 0.392">
      <freejoint name="free3"/>
      <geom name="toucherg" type="sphere" size="0.04"/>
    </body>

    <body name="cablebase" pos="-1 1 0.8">
      <composite prefix="cab" type="cable" curve="s" count="4 1 1" size="0.3" initial="none">
        <plugin plugin="mujoco.elasticity.cable">
          <config key="twist" value="1e5"/><config key="bend" value="1e5"/><config key="vmax" value="0"/>
        </plugin>
        <joint kind="main" damping="0.01"/>
        <geom type="box" size="0.05 .004 .008" rgba=".8 .2 .1 1" contype="0" conaffinity="0"/>
      </composite>
    </body>

    <flexcomp name="cloth" type="grid" count="3 3 1" spacing="0.1 0.1 0.1" pos="-1 -1 0.6" radius="0.01" dim="2"
              mass="0.1" rgba="0.2 0.8 0.2 1">
      <contact selfcollide="none" internal="false"/>
      <edge equality="true"/>
      <pin id="0 2"/>
    </flexcomp>
    <flexcomp name="rope" type="grid" count="3 1 1" spacing="0.1 0.1 0.1" pos="-1 -1.5 0.6" radius="0.01" dim="1"
              mass="0.05" group="1">
      <contact selfcollide="none" internal="false"/>
      <pin id="0"/>
    </flexcomp>
    <flexcomp name="soft" type="grid" count="2 2 2" spacing="0.1 0.1 0.1" pos="1 -1 0.3" radius="0.005" dim="3"
              mass="0.2" dof="trilinear" material="matcube">
      <contact selfcollide="none" internal="false"/>
      <elasticity young="1e3" poisson="0.2"/>
    </flexcomp>
  </worldbody>

  <tendon>
    <spatial name="wraptendon" width="0.005" range="0 1.5" limited="true">
      <site site="ts0"/>
      <geom geom="wrapg" sidesite="sidesite"/>
      <site site="ts1"/>
      <pulley divisor="2"/>
      <site site="ts1"/>
      <geom geom="wrapcyl"/>
      <site site="arms"/>
    </spatial>
    <spatial name="catenary_spring" width="0.004" springlength="0 1.3" stiffness="10" rgba="0.1 0.1 0.9 1">
      <site site="anchor0"/>
      <site site="anchor1"/>
    </spatial>
    <spatial name="catenary_limit" width="0.004" range="0 1.2" limited="true" material="matplain" group="4">
      <site site="anchor2"/>
      <site site="anchor3"/>
    </spatial>
    <spatial name="tightlimit" width="0.004" range="0 0.2" limited="true">
      <site site="fas"/>
      <site site="arms"/>
    </spatial>
    <fixed name="fixedt"><joint joint="hinge0" coef="1"/><joint joint="hinge2" coef="-1"/></fixed>
  </tendon>

  <equality>
    <connect name="eqconnect" body1="connbody" body2="weldbody" anchor="0 0 0.1"/>
    <weld name="eqweld" body1="weldbody" relpose="0 0 0 1 0 0 0"/>
    <connect name="eqsite" site1="conns" site2="welds"/>
    <weld name="eqweldsite" site1="hands" site2="mocapsite" active="false"/>
    <joint name="eqjoint" joint1="hinge2" joint2="hinge0" polycoef="0 0.5 0 0 0"/>
  </equality>

  <actuator>
    <motor name="a_hinge" joint="hinge0" ctrlrange="-1 1" gear="2"/>
    <position name="a_slide" joint="slide0" kp="10" ctrlrange="0 0.04"/>
    <motor name="a_ball" joint="ball0" gear="0 1 0"/>
    <motor name="a_free" joint="free1" gear="0 0 1 0 0 0"/>
    <general name="a_filter" joint="hinge1" dyntype="filter" dynprm="0.1" actlimited="true" actrange="-0.5 0.2" group="1"/>
    <motor name="a_site" site="boxs" gear="0 0 1 0 0 0" ctrlrange="-2 -1"/>
    <adhesion name="a_body" body="ballsphere" ctrlrange="0 1" gain="1"/>
    <motor name="a_tendon" tendon="wraptendon" gear="1"/>
    <general name="a_crank" cranksite="cranksite" slidersite="slidersite" cranklength="0.5"/>
    <general name="a_crankbroken" cranksite="cranksite" slidersite="slidersite" cranklength="0.01" group="4"/>
    <motor name="a_jip" jointinparent="hinge1" ctrlrange="0 1"/>
    <pid name="a_pid" joint="slide1" kp="1" group="2"/>
  </actuator>

  <sensor>
    <rangefinder name="rf0" site="rf_site"/>
    <rangefinder name="rf_all" site="rf_site" data="dist dir origin point normal depth"/>
    <rangefinder name="rf_pn" site="boxs" data="point normal"/>
    <rangefinder name="rf_cam" camera="bodycam" data="dist point normal"/>
    <rangefinder name="rf_camortho" camera="camortho"/>
    <fromto name="ft" geom1="sphg" geom2="boxg" cutoff="2"/>
    <plugin name="tg" plugin="mujoco.sensor.touch_grid" objtype="site" objname="touchsite">
      <config key="size" value="3 3"/>
      <config key="fov" value="60 60"/>
      <config key="gamma" value="0"/>
      <config key="nchannel" value="3"/>
    </plugin>
    <tactile name="tact" geom="toucherg" mesh="octa"/>
  </sensor>

  <keyframe>
    <key name="k0" time="0"/>
  </keyframe>
</mujoco>
""" % dict(tetra=_tetra("tetra"), octa=_octa("octa"), octa2=_octa("octa2", 0.06))


GROUPS_MODEL = """
<mujoco model="groups">
  <compiler angle="radian"/>
  <asset>
    <texture name="tex2d" type="2d" builtin="checker" width="8" height="8" rgb1="1 0 0" rgb2="0 1 0"/>
    <material name="mtex" texture="tex2d" texrepeat="3 2" texuniform="true" reflectance="0.3" rgba="0.3 0.6 0.9 0.7"/>
    <material name="mplain" rgba="0.9 0.1 0.1 1" emission="0.3" specular="0.1" shininess="0.9"/>
    <material name="mclear" rgba="0.9 0.1 0.1 0"/>
    %(tetra)s
    <hfield name="hf" nrow="2" ncol="2" size="0.3 0.3 0.05 0.02" elevation="0 1 1 0"/>
  </asset>
  <worldbody>
    <geom name="p_inf" type="plane" size="0 0 0.1" material="mtex" group="0"/>
    <geom name="p_fin" type="plane" size="0.4 0.3 0.1" pos="0 0 0.5" euler="0.3 0.2 0.1" group="1"/>
    <geom name="p_halfinf" type="plane" size="0 0.3 0.1" pos="2 1 0.5" euler="0.1 -0.4 0.7" group="3"/>
    <geom name="w_g7" type="sphere" size="0.05" pos="1 0 0" group="7"/>
    <geom name="w_gneg" type="capsule" size="0.05 0.1" pos="1 1 0" group="-2" rgba="0.5 0.5 0.5 1" material="mplain"/>
    <geom name="w_hf" type="hfield" hfield="hf" pos="-2 0 0" group="2"/>
    <geom name="w_mesh" type="mesh" mesh="tetra" pos="0 -1 0" group="4" material="mtex" rgba="0.1 0.2 0.3 0.4"/>
    <body name="welded" pos="0 0 1" euler="0.2 0.3 0.4">
      <geom name="s_g5" type="ellipsoid" size="0.05 0.06 0.07" group="5"/>
      <geom name="s_clear" type="box" size="0.05 0.06 0.07" pos="0.2 0 0" group="0" rgba="0.4 0.4 0.4 0"/>
    </body>
    <body name="dyn" pos="0.5 0.5 1" euler="0.5 -0.3 0.1">
      <joint name="j0" type="hinge" axis="1 1 0"/>
      <geom name="d_g0" type="cylinder" size="0.05 0.1" group="0" material="mplain"/>
      <geom name="d_g1" type="box" size="0.05 0.06 0.07" pos="0.2 0 0" group="1" material="mtex"/>
      <geom name="d_g2" type="mesh" mesh="tetra" pos="0.4 0 0" group="2" contype="0" conaffinity="0"/>
      <body name="dyn2" pos="0 0 0.3">
        <joint name="j1" type="ball"/>
        <geom name="d_g3" type="capsule" fromto="0 0 0 0.1 0.1 0.2" size="0.02" group="3" rgba="0.7 0.7 0.1 0.6"/>
        <geom name="d_g4" type="sphere" size="0.04" pos="0 0.2 0" group="4" material="mclear" rgba="0.5 0.5 0.5 1"/>
        <geom name="d_g5" type="sphere" size="0.04" pos="0 0.3 0" group="5"/>
        <geom name="d_grayalpha" type="sphere" size="0.03" pos="0.2 0.3 0" group="1" material="mplain" rgba="0.5 0.5 0.5 0.4"/>
        <geom name="d_graymat" type="sphere" size="0.03" pos="0.3 0.3 0" group="2" material="mtex" rgba="0.5 0.5 0.5 1"/>
        <geom name="d_last_clear" type="sphere" size="0.04" pos="0 0.4 0" group="0" rgba="1 0 0 0"/>
      </body>
    </body>
    <body name="mocap" mocap="true" pos="-1 -1 1">
      <geom name="m_g2" type="box" size="0.1 0.1 0.1" group="2" contype="0" conaffinity="0"/>
    </body>
  </worldbody>
</mujoco>
""" % dict(tetra=_tetra("tetra"))


def alphabet_models():
    """(name, xml): a few kinematic forests from the shared model alphabet with visible geoms and sites."""
    out = []
    picks = [((-1,), ("hinge",)), ((-1, 0), ("free", "ball")), ((-1, -1, 0), ("slide", "hinge", "hinge2")),
             ((-1, 0, 1), ("ball", "slidehinge", "none"))]
    for k, (parents, joints) in enumerate(picks):
        xml = alphabet.tree_mjcf(parents, joints, axis=2, anchor=1, frame=2, geom=("capsule", "box", "ellipsoid")[k % 3],
                                 gattr='contype="0" conaffinity="0"')
        out.append(("tree%d" % k, xml))
    return out


def kitchen_sink_notouch():
    """the kitchen sink without the touch_grid plugin sensor: touch_grid.cc reads geom_bodyid[contact.geom] and flex
    contacts have geom = -1 (out-of-bounds read, reported under C51), so states with flex contacts use this variant."""
    s = KITCHEN_SINK
    a = s.index('<plugin name="tg" plugin="mujoco.sensor.touch_grid"')
    b = s.index("</plugin>", a) + len("</plugin>")
    s = s[:a] + s[b:]
    return s.replace('<plugin plugin="mujoco.sensor.touch_grid"/>', "").replace('model="kitchen-sink"', 'model="kitchen-sink-notouch"')


def models():
    return [("kitchen-sink", KITCHEN_SINK), ("groups", GROUPS_MODEL)] + alphabet_models()


def thorough_models():
    return [("kitchen-sink-notouch", kitchen_sink_notouch())]
