"""C36 Equivalent model descriptions compile to equivalent physics (metamorphic).

Base models: all forests <= N bodies x a joint menu (mc/alphabet topology), each body with an explicit pose, a geom, a site,
a camera, explicit or geom-derived inertia.  Every applicable rewriting of a base model is generated and compared:

  spell    orientation of every body/geom/site/camera given as quat (computed by a reference model written from the
           documentation) vs axisangle / euler with eulerseq xyz, zyx, XYZ, yzy / xyaxes / zaxis;
  degree   compiler angle=radian vs degree (euler, axisangle, hinge range/ref/springref scaled by 180/pi);
  class    joint/geom/site attributes written on the elements vs hoisted into a nested default class reached by
           class= or by childclass= of the body;
  frame    body (and geom/site) given directly with the composed pose vs wrapped in <frame pos quat>;
  repl     <replicate count offset euler> vs written-out copies with the documented cumulative poses and names;
  attach   child spec attached with mjs_attach vs the same subtree written inline with prefixed names in nested frames:
           every admitted (target, child element) combination -- frame<-body, frame<-frame, site<-body, site<-frame,
           body<-frame (child frame = a non-identity frame holding the subtree) -- x the target frame/site declared
           directly in the host body or inside 1, 2 (thorough: 3) nested non-identity <frame>s;
  fuse     fusestatic on vs off; visual  discardvisual on vs off (kept bodies compared by name);
  setconst runtime edit of a real-valued mjModel parameter + mj_setConst vs editing the spec field and recompiling.

Oracle: compiled arrays that must be equal are equal (bit-exact where no trigonometry is involved, else 1e-12 of the
array scale; 1e-9 for mj_setConst-derived constants), and the world poses of all kept bodies along a 100-step
trajectory from a perturbed state agree to 1e-9 (relative to 1 m / unit quaternion).
"""
from __future__ import annotations

import ctypes
import itertools
import math

import numpy as np

from .. import alphabet as A
from .. import core, mj
from . import _c32_gen as G
from . import _c32_rt as R

LEVEL = "exploration"
META = dict(
    category=LEVEL,
    technique="metamorphic: exhaustive product of base models (all forests <= N bodies x joint menu) x rewritings; "
              "differential oracle on compiled arrays and 100-step trajectories; orientation reference model from the documentation",
    text="Every base model of the alphabet is rewritten in every applicable equivalent spelling (orientation "
         "quat/axisangle/euler x 4 sequences/xyaxes/zaxis, degree vs radian, nested default classes and childclass, "
         "frames, replicate vs copies, mjs_attach (frame/site/body target, body/frame child, target nested in 0-3 frames) vs inline, fusestatic, discardvisual) and both are compiled by the "
         "tree's compiler: arrays that must coincide are compared (1e-12) and the kept bodies' poses along a 100-step "
         "trajectory agree to 1e-9. A runtime edit of each real-valued parameter followed by mj_setConst is compared "
         "with recompiling the edited spec on every model array.",
    note="quaternions for the quat spelling are computed in Python from the documented conventions (intrinsic lower-case / "
         "extrinsic upper-case Euler axes, right-handed axis-angle, Gram-Schmidt xyaxes, minimal rotation zaxis); contacts "
         "are disabled in the alphabet so that trajectories are smooth; spec fields are edited in place through "
         "compiler-computed offsetof values.",
    design_ref="DESIGN.md §3 C36")

TOL_ARR = 1e-12
TOL_TRAJ = 1e-9
TOL_SETCONST = 1e-9
NSTEP = 100
# fusing re-diagonalises the merged inertia with an iterative eigen-solver: dof_M0 moves by ~4e-8 relative and the poses by
# <= 2.5e-8 after 100 steps (observed); a dropped mass / mis-composed frame moves them by > 1e-3
TOL_FAMILY = {"fusestatic": 1e-5}

# ------------------------------------------------------------------ reference orientation model (from the docs)


def qmul(a, b):
    aw, ax, ay, az = a
    bw, bx, by, bz = b
    return np.array([aw * bw - ax * bx - ay * by - az * bz, aw * bx + ax * bw + ay * bz - az * by,
                     aw * by - ax * bz + ay * bw + az * bx, aw * bz + ax * by - ay * bx + az * bw])


def q_axisangle(v, ang):
    v = np.asarray(v, float)
    v = v / np.linalg.norm(v)
    return np.concatenate([[math.cos(ang / 2)], math.sin(ang / 2) * v])


def q_euler(e, seq):
    q = np.array([1.0, 0, 0, 0])
    for ang, ch in zip(e, seq):
        ax = {"x": (1, 0, 0), "y": (0, 1, 0), "z": (0, 0, 1)}[ch.lower()]
        r = q_axisangle(ax, ang)
        q = qmul(q, r) if ch.islower() else qmul(r, q)      # intrinsic: rotating frame; extrinsic: fixed parent frame
    return q


def q_from_mat(Rm):
    # standard conversion, w >= 0 branch selection by largest diagonal
    t = np.trace(Rm)
    if t > 0:
        s = math.sqrt(t + 1.0) * 2
        q = [0.25 * s, (Rm[2, 1] - Rm[1, 2]) / s, (Rm[0, 2] - Rm[2, 0]) / s, (Rm[1, 0] - Rm[0, 1]) / s]
    else:
        i = int(np.argmax(np.diag(Rm)))
        j, k = (i + 1) % 3, (i + 2) % 3
        s = math.sqrt(1.0 + Rm[i, i] - Rm[j, j] - Rm[k, k]) * 2
        q = [0, 0, 0, 0]
        q[0] = (Rm[k, j] - Rm[j, k]) / s
        q[1 + i] = 0.25 * s
        q[1 + j] = (Rm[j, i] + Rm[i, j]) / s
        q[1 + k] = (Rm[k, i] + Rm[i, k]) / s
    q = np.array(q)
    return q / np.linalg.norm(q)


def q_xyaxes(v):
    x = np.array(v[:3], float)
    y = np.array(v[3:], float)
    x = x / np.linalg.norm(x)
    y = y - x * np.dot(x, y)
    y = y / np.linalg.norm(y)
    z = np.cross(x, y)
    return q_from_mat(np.column_stack([x, y, z]))


def q_zaxis(v):
    z = np.array(v, float)
    z = z / np.linalg.norm(z)
    a = np.cross([0, 0, 1.0], z)
    s = np.linalg.norm(a)
    c = z[2]
    if s < 1e-12:
        return np.array([1.0, 0, 0, 0]) if c > 0 else np.array([0.0, 1, 0, 0])
    return q_axisangle(a / s, math.atan2(s, c))


def fmt(v):
    return " ".join("%.17g" % x for x in np.atleast_1d(v))


# orientation parameters per element slot (k = running index): values chosen per spelling family
AXANG = [((1, 2, 3), 1.1), ((0, 1, 0), 0.7), ((-1, 0.5, 0.2), -2.3), ((0, 0, 1), math.pi / 2)]
EULER = [(0.3, -0.2, 0.5), (1.2, 0.4, -0.9), (-0.6, 1.5, 0.1), (0.0, math.pi / 2, 0.3)]
XYAX = [(0, 1, 0, -1, 0, 0), (1, 1, 0, -1, 1, 0.2), (0.3, 0.2, 1, 0, 1, 0.5), (1, 0, 0, 0.3, 0, 1)]
ZAX = [(0, 1, 0), (1, 1, 1), (0.2, -0.3, 0.9), (0.1, 0, -1)]
EULERSEQS = ["xyz", "zyx", "XYZ", "yzy"]
SPELLS = ["axisangle"] + ["euler:" + s for s in EULERSEQS] + ["xyaxes", "zaxis"]


def orient(spell, k, ref, degree=False):
    """(attribute text) of orientation slot k in spelling `spell`; ref=True gives the quat computed by the reference."""
    kind = spell.split(":")[0]
    sc = 180 / math.pi if degree else 1.0
    if kind == "axisangle":
        v, a = AXANG[k % 4]
        return 'quat="%s"' % fmt(q_axisangle(v, a)) if ref else 'axisangle="%s %.17g"' % (fmt(v), a * sc)
    if kind == "euler":
        e = EULER[k % 4]
        return 'quat="%s"' % fmt(q_euler(e, spell.split(":")[1])) if ref else 'euler="%s"' % fmt(np.array(e) * sc)
    if kind == "xyaxes":
        return 'quat="%s"' % fmt(q_xyaxes(XYAX[k % 4])) if ref else 'xyaxes="%s"' % fmt(XYAX[k % 4])
    if kind == "zaxis":
        return 'quat="%s"' % fmt(q_zaxis(ZAX[k % 4])) if ref else 'zaxis="%s"' % fmt(ZAX[k % 4])
    raise ValueError(spell)


# ------------------------------------------------------------------ base model emitter

POS = ["0.2 0.1 -0.15", "0.15 -0.2 0.1", "-0.1 0.12 0.3"]
JATTR = 'damping="0.11" armature="0.013" stiffness="0.7"'
GATTR = 'friction="0.7 0.01 0.002" rgba="0.1 0.2 0.3 1" contype="0" conaffinity="0"'


def tree(par, js, *, ori, compiler="", default="", jattr=JATTR, gattr=GATTR, jclass="", gclass="", childclass=None,
         hinge_scale=1.0, body_wrap=None, extra=None, sections="", explicit_inertia=False):
    """MJCF of a forest; ori(k) -> orientation attribute text for slot k (4 slots per body: body, geom, site, camera)."""
    def body(i, ind):
        kids = [k for k, p in enumerate(par) if p == i]
        cc = ' childclass="%s"' % childclass if (childclass and par[i] == -1) else ""
        s = '%s<body name="b%d" pos="%s" %s%s>\n' % (ind, i, POS[i % 3], ori(4 * i), cc)
        if explicit_inertia:
            s += '%s  <inertial pos="0.01 0.02 -0.01" mass="%.3f" diaginertia="0.011 0.013 0.017"/>\n' % (ind, 0.8 + 0.3 * i)
        for jn, (jt, aoff) in enumerate(A.JOINTS[js[i]]):
            nm = "j%d_%d" % (i, jn)
            if jt == "free":
                s += '%s  <joint name="%s" type="free" %s%s/>\n' % (ind, nm, jattr, jclass)
            elif jt == "ball":
                s += '%s  <joint name="%s" type="ball" pos="%s" range="0 %.17g" %s%s/>\n' % (ind, nm, A.ANCHORS[(i + 1) % 2], 1.1 * hinge_scale, jattr, jclass)
            else:
                rng = ""
                if jt == "hinge":
                    rng = ' range="%.17g %.17g" ref="%.17g" springref="%.17g"' % (-1.2 * hinge_scale, 0.9 * hinge_scale, 0.1 * hinge_scale, -0.2 * hinge_scale)
                else:
                    rng = ' range="-0.4 0.5" ref="0.05"'
                s += '%s  <joint name="%s" type="%s" axis="%s" pos="%s"%s %s%s/>\n' % (
                    ind, nm, jt, A.AXES[(i + aoff) % 3], A.ANCHORS[(i + 1) % 2], rng, jattr, jclass)
        s += '%s  <geom name="g%d" %s pos="0.03 0.02 -0.05" %s %s%s/>\n' % (ind, i, A.GEOMS[A.GEOM_ORDER[i % 5]], ori(4 * i + 1), gattr, gclass)
        s += '%s  <site name="s%d" pos="0.02 -0.04 0.06" %s/>\n' % (ind, i, ori(4 * i + 2))
        s += '%s  <camera name="c%d" pos="0 -0.3 0.1" %s/>\n' % (ind, i, ori(4 * i + 3))
        if extra:
            s += extra(i, ind + "  ")
        for k in kids:
            s += body(k, ind + "  ")
        s += "%s</body>\n" % ind
        if body_wrap and par[i] == -1:
            s = body_wrap(i, s, ind)
        return s
    out = '<mujoco>\n  <compiler usethread="false" %s/>\n  <option timestep="0.002"/>\n' % (compiler or 'angle="radian"')
    if default:
        out += "  <default>\n%s  </default>\n" % default
    out += "  <worldbody>\n"
    for r in [k for k, p in enumerate(par) if p == -1]:
        out += body(r, "    ")
    out += "  </worldbody>\n" + sections + "</mujoco>\n"
    return out


def base_models(nmax, menu):
    for par in A.all_forests(nmax):
        roots = [p == -1 for p in par]
        doms = [A.joint_menu(r, menu) for r in roots]
        for js in itertools.product(*doms):
            if all(j == "none" for j in js):
                continue
            yield par, js


# ------------------------------------------------------------------ comparison


def names_of(lib, m, objtype, n):
    return [m.name(objtype, i) for i in range(n)]


def trajectory(lib, m, nstep=NSTEP):
    """World poses (by body name) after each of nstep steps from a deterministic perturbed state."""
    d = lib.make_data(m)
    try:
        lib.mj_resetData(m, d)
        nq, nv = m.nq, m.nv
        q = np.array(d.qpos)
        jt = m.jnt_type
        adr = m.jnt_qposadr
        for j in range(m.njnt):
            a = adr[j]
            if jt[j] in (2, 3):
                q[a] += 0.2 - 0.07 * (j % 3)
            elif jt[j] == 1:
                q[a:a + 4] = A.QUATS[1 + j % 2]
            else:
                q[a:a + 3] += (0.1, -0.05, 0.2)
                q[a + 3:a + 7] = A.QUATS[2]
        d.qpos[:] = q
        d.qvel[:] = [0.5 * ((-1) ** i) * (1 + 0.2 * i) for i in range(nv)]
        out = []
        for _ in range(nstep):
            lib.mj_step(m, d)
            out.append((np.array(d.xpos), np.array(d.xquat)))
        return out
    finally:
        d.free()


def cmp_traj(lib, ma, mb, keep=None):
    """max deviation of kept bodies' poses (matched by name) over the trajectory; None if not comparable."""
    na = {ma.name(1, i): i for i in range(ma.nbody)}
    nb = {mb.name(1, i): i for i in range(mb.nbody)}
    common = [n for n in na if n in nb and n and (keep is None or n in keep)]
    ta, tb = trajectory(lib, ma), trajectory(lib, mb)
    worst = 0.0
    for (pa, qa), (pb, qb) in zip(ta, tb):
        for n in common:
            i, j = na[n], nb[n]
            worst = max(worst, float(np.max(np.abs(pa[i] - pb[j]))))
            dq = min(float(np.max(np.abs(qa[i] - qb[j]))), float(np.max(np.abs(qa[i] + qb[j]))))
            worst = max(worst, dq)
        if not np.all(np.isfinite(pa)):
            return None, len(common)
    return worst, len(common)


SKIP_ALWAYS = {"signature", "names", "names_map", "name_bodyadr", "paths"}


def cmp_arrays(lib, a, b, tol, skip=()):
    bad, noise = R.compare(lib, a, b, tol64=tol, tol32=1e-6)
    bad = [(f, e) for f, e in bad if f not in skip]
    return bad, noise


def check_pair(lib, part, family, tag, xa, xb, *, tol=TOL_ARR, skip=(), arrays=True, vfs=None, keep=None, key_detail=""):
    """Compile both spellings, compare arrays (optionally) and trajectories."""
    replay = {"family": family, "case": tag, "xml_a": xa, "xml_b": xb}
    try:
        ma = lib.load_xml(xa, vfs)
    except mj.MjError as e:
        raise RuntimeError("base model does not compile (%s %s): %s\n%s" % (family, tag, e, xa))
    try:
        mb = lib.load_xml(xb, vfs)
    except mj.MjError as e:
        ma.free()
        part.violation("%s: rewritten model rejected: %s" % (family + key_detail, R_norm(str(e))), "%s %s: %s" % (family, tag, e), replay)
        return
    try:
        part.count(1, key=(family, tag), sample={"family": family, "case": tag, "xml_b": xb} if hash(tag) % 53 == 0 else None)
        if arrays:
            bad, noise = cmp_arrays(lib, ma, mb, tol, skip)
            if noise:
                part["extra"]["max_array_noise"] = max(part["extra"].get("max_array_noise", 0.0), max(e for _, e in noise))
            if bad:
                part.violation("%s: compiled arrays differ [%s]" % (family + key_detail, ",".join(f for f, _ in bad[:4])),
                               "%s %s: %s" % (family, tag, "; ".join("%s (%s)" % (f, e) for f, e in bad[:8])), replay)
        w, n = cmp_traj(lib, ma, mb, keep)
        if w is None:
            part.add("trajectory_nonfinite_skipped")
        else:
            part["extra"]["max_traj_dev_" + family] = max(part["extra"].get("max_traj_dev_" + family, 0.0), w)
            part.add("trajectories_compared")
            if w > TOL_FAMILY.get(family, TOL_TRAJ):
                part.violation("%s: trajectories of kept bodies diverge" % (family + key_detail),
                               "%s %s: max pose deviation %.3g over %d steps (%d bodies)" % (family, tag, w, NSTEP, n), replay)
    finally:
        ma.free()
        mb.free()


def R_norm(msg):
    import re
    msg = re.sub(r"line \d+", "line N", msg)
    msg = re.sub(r"id \d+", "id N", msg)
    return " | ".join(x.strip() for x in msg.strip().splitlines())[:160]


# ------------------------------------------------------------------ families


def fam_spell(lib, part, par, js, vfs):
    for spell in SPELLS:
        comp = 'angle="radian"'
        if spell.startswith("euler:"):
            comp += ' eulerseq="%s"' % spell.split(":")[1]
        xa = tree(par, js, ori=lambda k: orient(spell, k, True), compiler=comp)
        xb = tree(par, js, ori=lambda k: orient(spell, k, False), compiler=comp)
        check_pair(lib, part, "spell", "%s %s %s" % (spell, par, js), xa, xb, key_detail=" " + spell)


def fam_degree(lib, part, par, js, vfs):
    for spell in ("axisangle", "euler:xyz", "euler:XYZ"):
        seq = ' eulerseq="%s"' % spell.split(":")[1] if ":" in spell else ""
        xa = tree(par, js, ori=lambda k: orient(spell, k, False), compiler='angle="radian"' + seq)
        xb = tree(par, js, ori=lambda k: orient(spell, k, False, degree=True), compiler='angle="degree"' + seq, hinge_scale=180 / math.pi)
        check_pair(lib, part, "degree", "%s %s %s" % (spell, par, js), xa, xb, key_detail=" " + spell.split(":")[0])


def fam_class(lib, part, par, js, vfs):
    ori = lambda k: orient("axisangle", k, True)
    xa = tree(par, js, ori=ori)
    d1 = ('    <default class="outer">\n      <joint damping="0.11"/>\n      <geom friction="0.7 0.01 0.002" contype="0" conaffinity="0"/>\n'
          '      <default class="inner">\n        <joint armature="0.013" stiffness="0.7"/>\n        <geom rgba="0.1 0.2 0.3 1"/>\n      </default>\n    </default>\n')
    xb = tree(par, js, ori=ori, default=d1, jattr="", gattr="", jclass=' class="inner"', gclass=' class="inner"')
    check_pair(lib, part, "class", "class= %s %s" % (par, js), xa, xb, tol=0.0, key_detail=" (class attribute)")
    xc = tree(par, js, ori=ori, default=d1, jattr="", gattr="", childclass="inner")
    check_pair(lib, part, "class", "childclass= %s %s" % (par, js), xa, xc, tol=0.0, key_detail=" (childclass)")
    # top-level (main) defaults
    d0 = '    <joint %s/>\n    <geom %s/>\n' % (JATTR, GATTR)
    xd = tree(par, js, ori=ori, default=d0, jattr="", gattr="")
    check_pair(lib, part, "class", "main %s %s" % (par, js), xa, xd, tol=0.0, key_detail=" (main default)")


FRAME_POSE = ((0.05, -0.1, 0.2), (0.7, 0.1, -0.2, 0.3))


def fam_frame(lib, part, par, js, vfs):
    """Root bodies wrapped in <frame pos quat>: the frame pose composes with the body pose."""
    fp = np.array(FRAME_POSE[0])
    fq = np.array(FRAME_POSE[1]) / np.linalg.norm(FRAME_POSE[1])
    ori = lambda k: orient("axisangle", k, True)

    def wrap(i, s, ind):
        return '%s<frame pos="%s" quat="%s">\n%s%s</frame>\n' % (ind, fmt(fp), fmt(fq), s, ind)
    gp, gq = np.array([0.03, 0.02, -0.05]), q_axisangle(*AXANG[1])
    sp, sq = np.array([0.02, -0.04, 0.06]), q_axisangle(*AXANG[2])
    f2p = np.array([0.02, 0.05, -0.03])
    f2q = np.array([0.5, -0.5, 0.5, 0.5])
    R2 = np.array(_quat2mat(f2q))

    m_p, m_q = np.array([0.0, 0.0, 0.1]), q_axisangle((1, 0, 1), 0.6)       # middle frame
    i_p, i_q = np.array([0.01, -0.02, 0.0]), q_axisangle((0, 1, 1), -0.9)     # innermost frame

    def compose(pa, qa, pb, qb):
        return pa + np.array(_quat2mat(qa)) @ pb, qmul(qa, qb)

    def extra_b(i, ind):       # geom in a frame; site three frames deep
        return ('%s<frame name="ff%d" pos="%s" quat="%s">\n%s  <geom name="fg%d" size="0.02 0.03" type="capsule" pos="%s" quat="%s" %s/>\n'
                '%s  <frame pos="%s" quat="%s"><frame pos="%s" quat="%s"><site name="fs%d" pos="%s" quat="%s"/></frame></frame>\n%s</frame>\n'
                % (ind, i, fmt(f2p), fmt(f2q), ind, i, fmt(gp), fmt(gq), GATTR, ind, fmt(m_p), fmt(m_q), fmt(i_p), fmt(i_q), i, fmt(sp), fmt(sq), ind))

    def extra_a(i, ind):       # the same elements with the composed poses written out
        p1, q1 = compose(f2p, f2q, gp, gq)
        p, q = compose(i_p, i_q, sp, sq)
        p, q = compose(m_p, m_q, p, q)
        p, q = compose(f2p, f2q, p, q)
        return ('%s<geom name="fg%d" size="0.02 0.03" type="capsule" pos="%s" quat="%s" %s/>\n%s<site name="fs%d" pos="%s" quat="%s"/>\n'
                % (ind, i, fmt(p1), fmt(q1), GATTR, ind, i, fmt(p), fmt(q)))
    xb = tree(par, js, ori=ori, body_wrap=wrap, extra=extra_b)
    # reference: composed pose written out for root bodies
    Rf = np.array(_quat2mat(fq))

    def ori_ref(k):
        return ori(k)
    xa = tree(par, js, ori=ori_ref, extra=extra_a)
    import re
    roots = [i for i, p in enumerate(par) if p == -1]
    for i in roots:
        v, a = AXANG[(4 * i) % 4]
        qb = q_axisangle(v, a)
        pb = np.array([float(x) for x in POS[i % 3].split()])
        pn = fp + Rf @ pb
        qn = qmul(fq, qb)
        old = '<body name="b%d" pos="%s" %s' % (i, POS[i % 3], ori(4 * i))
        new = '<body name="b%d" pos="%s" quat="%s"' % (i, fmt(pn), fmt(qn))
        assert old in xa
        xa = xa.replace(old, new)
    check_pair(lib, part, "frame", "%s %s" % (par, js), xa, xb)


def _quat2mat(q):
    w, x, y, z = q
    return [[w * w + x * x - y * y - z * z, 2 * (x * y - w * z), 2 * (x * z + w * y)],
            [2 * (x * y + w * z), w * w - x * x + y * y - z * z, 2 * (y * z - w * x)],
            [2 * (x * z - w * y), 2 * (y * z + w * x), w * w - x * x - y * y + z * z]]


def fam_replicate(lib, part, par, js, vfs):
    """<replicate count=3 offset euler> around the whole forest vs three written-out copies: copy i has the pose obtained
    by applying the (offset, euler) transform i times (cumulative, relative to the previous replica) and suffix i."""
    if any(j == "free" for j in js):
        return      # replicate does not admit free joints (schema comment)
    ori = lambda k: orient("axisangle", k, True)
    off = np.array([0.0, 0.6, 0.1])
    eul = (0.0, 0.0, 0.4)
    count = 3
    inner = tree(par, js, ori=ori)
    body_txt = inner.split("<worldbody>\n")[1].split("  </worldbody>")[0]
    head = inner.split("<worldbody>\n")[0] + "<worldbody>\n"
    xb = head + '    <replicate count="%d" offset="%s" euler="%s">\n%s    </replicate>\n  </worldbody>\n</mujoco>\n' % (count, fmt(off), fmt(eul), body_txt)
    # written-out
    qstep = q_euler(eul, "xyz")
    pos = np.zeros(3)
    quat = np.array([1.0, 0, 0, 0])
    copies = ""
    import re
    for c in range(count):
        txt = re.sub(r'name="([a-z]+\d+(?:_\d+)?)"', lambda m: 'name="%s%d"' % (m.group(1), c), body_txt)
        copies += '    <frame pos="%s" quat="%s">\n%s    </frame>\n' % (fmt(pos), fmt(quat), txt)
        # accumulate: next frame = current frame o (offset, qstep)
        pos = pos + np.array(_quat2mat(quat)) @ off
        quat = qmul(quat, qstep)
    xa = head + copies + "  </worldbody>\n</mujoco>\n"
    check_pair(lib, part, "replicate", "%s %s" % (par, js), xa, xb)
    # the same with a model-level element that references nothing inside the replicated subtree (a clock sensor): replicating
    # bodies must not replicate it
    glob = '  <sensor><clock name="clk"/></sensor>\n</mujoco>\n'
    check_pair(lib, part, "replicate (with a reference-less sensor)", "%s %s" % (par, js), xa.replace("</mujoco>\n", glob),
               xb.replace("</mujoco>\n", glob))
    part.add("replicate_with_referenceless_sensor")


def elem(ptr):
    return ctypes.cast(ptr, ctypes.POINTER(ctypes.c_void_p))[0]


# poses of the frames that enclose the attachment target (outermost first) and of the child frame; all non-identity
ENCL = [((0.03, -0.05, 0.08), (0.9, 0.2, -0.3, 0.1)), ((-0.04, 0.02, 0.05), (0.5, 0.5, -0.5, 0.5)), ((0.02, 0.06, -0.03), (0.3, -0.1, 0.2, 0.9))]
CHILD_FRAME = ((0.04, 0.03, -0.02), (0.8, -0.2, 0.1, 0.5))
_OPTS = {"attach_depths": (0, 1, 2)}


def attach_cases(depths):
    """(target kind, child kind, number of frames enclosing the target): every parent/child combination mjs_attach admits
    (frame<-body, frame<-frame, site<-body, site<-frame, body<-frame) x nesting depth of the target element."""
    out = []
    for tk, ck in (("frame", "body"), ("frame", "frame"), ("site", "body"), ("site", "frame")):
        for d in depths:
            out.append((tk, ck, d))
    out.append(("body", "frame", 0))
    return out


def fam_attach(lib, part, par, js, vfs):
    """Child spec (the forest; its root body, or a non-identity frame holding the root body) attached with mjs_attach to a
    frame / a site / the body of a parent spec -- the frame or site being declared directly in the host body or inside
    1..3 nested non-identity <frame>s -- vs the same subtree written inline with prefixed names in nested frames."""
    ori = lambda k: orient("axisangle", k, True)
    roots = [i for i, p in enumerate(par) if p == -1]
    if len(roots) != 1 or "free" in js:
        return      # one subtree root per attachment; free joints are only legal at the top level
    root = "b%d" % roots[0]
    child_body_xml = tree(par, js, ori=ori)
    body_txt = child_body_xml.split("<worldbody>\n")[1].split("  </worldbody>")[0]
    cf_open = '<frame name="cf" pos="%s" quat="%s">\n' % (fmt(CHILD_FRAME[0]), fmt(CHILD_FRAME[1]))
    child_frame_xml = child_body_xml.replace("<worldbody>\n", "<worldbody>\n" + cf_open).replace("  </worldbody>", "</frame>\n  </worldbody>")
    import re
    pre = "p_"
    inl_body = re.sub(r'name="([a-z]+\d+(?:_\d+)?)"', lambda m: 'name="%s%s"' % (pre, m.group(1)), body_txt)
    host_head = '<mujoco>\n  <compiler angle="radian" usethread="false"/>\n  <option timestep="0.002"/>\n  <worldbody>\n'
    SITE = 'pos="0.1 0 0.1" quat="0.8 0 0.6 0"'

    def host(depth, in_hf="", at_site="", in_body=""):
        """host body; site hs and frame hf sit inside `depth` nested frames; in_hf: content of hf; at_site: siblings of hs
        (inside the same nested frames); in_body: direct children of the host body."""
        opn = "".join('<frame pos="%s" quat="%s">' % (fmt(p), fmt(q)) for p, q in ENCL[:depth])
        cls = "</frame>" * depth
        return (host_head + '    <body name="host" pos="0 0 1" quat="0.9 0.1 0.2 -0.3">\n      <joint name="hj" axis="0 1 0" damping="0.2"/>\n'
                '      <geom name="hg" size="0.05" contype="0" conaffinity="0"/>\n'
                '      %s<site name="hs" %s/>\n'
                '      <frame name="hf" pos="0.1 0.2 0" quat="0.6 0 0 0.8">%s</frame>\n%s%s\n%s    </body>\n  </worldbody>\n</mujoco>\n'
                % (opn, SITE, in_hf, at_site, cls, in_body))
    for tk, ck, depth in attach_cases(_OPTS["attach_depths"]):
        # one key per (target, child element, target nested or not); the depth is in the message and the replay
        kind = (tk if ck == "body" else "%s<-%s" % (tk, ck)) + (", target inside nested frames" if depth else "")
        where = "%s<-%s, %d frame%s around the target" % (tk, ck, depth, "" if depth == 1 else "s")
        child_xml = child_body_xml if ck == "body" else child_frame_xml
        inl = inl_body if ck == "body" else "      " + cf_open + inl_body + "      </frame>\n"
        parent = lib.parse_xml(host(depth), vfs)
        child = lib.parse_xml(child_xml, vfs)
        m_att = None
        try:
            if tk == "frame":
                tgt = elem(lib.mjs_findFrame(parent, b"hf"))
            elif tk == "site":
                tgt = lib.mjs_findElement(parent, 6, b"hs")
            else:
                tgt = elem(lib.mjs_findBody(parent, b"host"))
            src = elem(lib.mjs_findBody(child, root.encode())) if ck == "body" else elem(lib.mjs_findFrame(child, b"cf"))
            if not tgt or not src:
                raise RuntimeError("attach %s: target/source element not found" % kind)
            if not lib.mjs_attach(tgt, src, pre.encode(), b""):
                part.violation("attach: mjs_attach failed: " + R_norm(lib.cstr(lib.mjs_getError(parent)) or ""), "attach %s %s %s" % (where, par, js),
                               {"family": "attach", "kind": kind, "child": child_xml, "host": host(depth)})
                continue
            m_att = lib.compile(parent, vfs)
            if tk == "frame":
                xa = host(depth, in_hf="\n" + inl + "      ")
            elif tk == "site":
                # an element attached to a site sits in a frame at the site's pose, next to the site
                xa = host(depth, at_site='      <frame %s>\n%s      </frame>\n' % (SITE, inl))
            else:
                xa = host(depth, in_body=inl)
            m_inl = lib.load_xml(xa, vfs)
            replay = {"family": "attach", "kind": kind, "target": tk, "child_element": ck, "frames_around_target": depth,
                      "inline": xa, "child": child_xml, "host": host(depth), "prefix": pre}
            part.count(1, key=("attach", tk, ck, depth, par, js))
            part.add("attach_%s<-%s_depth%d" % (tk, ck, depth))
            bad, noise = cmp_arrays(lib, m_inl, m_att, TOL_ARR, skip={"names", "names_map", "paths"} | {f for f in m_inl.fields() if f.startswith("name_")})
            if bad:
                part.violation("attach (%s): compiled arrays differ from the inline spelling [%s]" % (kind, ",".join(f for f, _ in bad[:4])),
                               "attach %s %s %s: %s" % (where, par, js, bad[:6]), replay)
            w, n = cmp_traj(lib, m_inl, m_att)
            if w is not None:
                part["extra"]["max_traj_dev_attach"] = max(part["extra"].get("max_traj_dev_attach", 0.0), w)
                part.add("trajectories_compared")
                if w > TOL_TRAJ:
                    part.violation("attach (%s): trajectories of kept bodies diverge" % kind, "attach %s %s %s: %.3g (%d bodies)" % (where, par, js, w, n), replay)
            m_inl.free()
        finally:
            if m_att is not None:
                m_att.free()
            lib.mj_deleteSpec(parent)
            lib.mj_deleteSpec(child)


def fam_fuse(lib, part, par, js, vfs):
    """fusestatic on/off and discardvisual on/off: bodies that keep a joint (or have a jointed descendant ... any body that
    survives) are compared by name."""
    ori = lambda k: orient("axisangle", k, True)

    def extra(i, ind):
        return ('%s<geom name="vis%d" type="box" size="0.02 0.03 0.01" pos="0.2 0 0" contype="0" conaffinity="0" group="3" density="0"/>\n'
                '%s<body name="st%d" pos="0.05 0.05 0" quat="0.9 0 0.3 0.1"><geom name="stg%d" size="0.03" contype="0" conaffinity="0"/>'
                '<site name="sts%d" pos="0 0 0.05"/></body>\n' % (ind, i, ind, i, i, i))
    if "none" not in js and True:
        pass
    xa = tree(par, js, ori=ori, extra=extra, compiler='angle="radian" fusestatic="false"')
    xb = tree(par, js, ori=ori, extra=extra, compiler='angle="radian" fusestatic="true"')
    moving = {"b%d" % i for i in range(len(par)) if js[i] != "none"}
    check_pair(lib, part, "fusestatic", "%s %s" % (par, js), xa, xb, arrays=False, keep=moving)
    xc = tree(par, js, ori=ori, extra=extra, compiler='angle="radian" discardvisual="false"')
    xd = tree(par, js, ori=ori, extra=extra, compiler='angle="radian" discardvisual="true"')
    check_pair(lib, part, "discardvisual", "%s %s" % (par, js), xc, xd, arrays=False)


# runtime-editable real parameters: (model field, row selector, spec object kind, spec field, width)
EDITS = [
    ("body_mass", "body", "mjsBody.mass", 1), ("body_inertia", "body", "mjsBody.inertia", 3), ("body_pos", "body", "mjsBody.pos", 3),
    ("body_ipos", "body", "mjsBody.ipos", 3), ("body_quat", "body", "mjsBody.quat", 4),
    ("jnt_pos", "joint", "mjsJoint.pos", 3), ("jnt_axis", "joint", "mjsJoint.axis", 3), ("dof_armature", "joint", "mjsJoint.armature", 1),
    ("geom_pos", "geom", "mjsGeom.pos", 3), ("site_pos", "site", "mjsSite.pos", 3), ("cam_pos", "camera", "mjsCamera.pos", 3),
    ("actuator_gear", "actuator", "mjsActuator.gear", 6),
]
OBJ = {"body": 1, "joint": 3, "geom": 5, "site": 6, "camera": 7, "actuator": 19}
# arrays that mj_setConst does not own (bounding volumes are compile-time; sameframe shortcuts are recomputed identically or not at all)
SETCONST_SKIP = {"bvh_aabb", "bvh_nodeid", "bvh_child", "bvh_depth", "geom_aabb", "names", "paths"}


def fam_setconst(lib, part, par, js, vfs):
    off = R._offsets(lib)
    ori = lambda k: orient("axisangle", k, True)
    scal = []
    for i, j in enumerate(js):
        for k, (jt, _) in enumerate(A.JOINTS[j]):
            if jt in ("hinge", "slide"):
                scal.append("j%d_%d" % (i, k))
    sections = ""
    if scal:
        sections += '  <actuator>\n    <motor name="a0" joint="%s" gear="1.5"/>\n  </actuator>\n' % scal[0]
    if len(par) >= 2:
        sections += '  <tendon>\n    <spatial name="t0" stiffness="2"><site site="s0"/><site site="s1"/></spatial>\n  </tendon>\n'
    xml = tree(par, js, ori=ori, explicit_inertia=True, sections=sections)
    for field, kind, sfield, width in EDITS:
        spec = lib.parse_xml(xml, vfs)
        m1 = m2 = d1 = None
        try:
            m1 = lib.compile(spec, vfs)
            names = {"body": "b%d", "geom": "g%d", "site": "s%d", "camera": "c%d"}
            if kind == "joint":
                if not m1.njnt:
                    continue
                jid = m1.njnt - 1
                nm = m1.name(3, jid)
                if field == "jnt_axis" and m1.jnt_type[jid] in (0, 1):
                    continue
                if field == "jnt_pos" and m1.jnt_type[jid] == 0:
                    continue
                row = m1.jnt_dofadr[jid] if field == "dof_armature" else jid
                ndof = {0: 6, 1: 3, 2: 1, 3: 1}[int(m1.jnt_type[jid])]
            elif kind == "actuator":
                if not m1.nu:
                    continue
                nm, row = "a0", 0
            else:
                idx = len(par) - 1
                nm = names[kind] % idx
                row = lib.mj_name2id(m1, OBJ[kind], nm.encode())
                if field in ("body_pos", "body_quat") and js[idx] == "free":
                    part.add("boundary_excluded")      # a free body's pose lives in qpos0, not in body_pos/body_quat
                    continue
            e = lib.mjs_findElement(spec, OBJ[kind], nm.encode())
            if not e:
                raise RuntimeError("spec element %s %s not found" % (kind, nm))
            caster = {"body": lib.mjs_asBody, "joint": lib.mjs_asJoint, "geom": lib.mjs_asGeom, "site": lib.mjs_asSite,
                      "camera": lib.mjs_asCamera, "actuator": lib.mjs_asActuator}[kind]
            sp = caster(e)
            arr = m1.field(field)
            cur = np.array(arr[row], dtype=float).reshape(-1)[:width] if arr.ndim > 1 else np.array([arr[row]], float)
            if field.endswith("quat"):
                new = qmul(cur, q_axisangle((0.2, 1, -0.4), 0.3))
            elif field == "jnt_axis":
                v = cur + np.array([0.3, -0.2, 0.1])
                new = v / np.linalg.norm(v)
            elif field in ("body_mass", "body_inertia", "dof_armature"):
                new = cur * 1.37 + 0.002
            elif field == "actuator_gear":
                new = cur.copy()
                new[0] = 2.25
            else:
                new = cur + np.array([0.03, -0.02, 0.05])[:width]
            # A: runtime edit + mj_setConst
            if arr.ndim > 1:
                arr[row][:width] = new
            elif field == "dof_armature":
                arr[row:row + ndof] = new[0]
            else:
                arr[row] = new[0]
            d1 = lib.make_data(m1)
            lib.mj_setConst(m1, d1)
            # B: edit the spec field, recompile
            buf = (ctypes.c_double * width).from_address(sp + off[sfield])
            for k in range(width):
                buf[k] = float(new[k])
            m2 = lib.compile(spec, vfs)
            replay = {"family": "setconst", "xml": xml, "edit": {"field": field, "row": int(row), "value": new}, "object": nm}
            part.count(1, key=("setconst", field, par, js), sample={"family": "setconst", "field": field, "object": nm, "new": new} if field == "body_mass" and len(par) == 2 else None)
            bad, noise = cmp_arrays(lib, m1, m2, TOL_SETCONST, SETCONST_SKIP)
            if noise:
                part["extra"]["max_setconst_noise"] = max(part["extra"].get("max_setconst_noise", 0.0), max(e for _, e in noise))
            if bad:
                part.violation("setconst: runtime edit + mj_setConst differs from recompiling the edited spec in [%s]" % ",".join(f for f, _ in bad[:4]),
                               "%s of %s in %s %s: %s" % (field, nm, par, js, "; ".join("%s (%s)" % (f, e) for f, e in bad[:8])), replay)
        finally:
            for x in (d1,):
                if x is not None:
                    x.free()
            for x in (m1, m2):
                if x is not None:
                    x.free()
            lib.mj_deleteSpec(spec)


LAT_AXES = [(1, 0, 0), (0, 1, 0), (0, 0, 1), (1, 1, 0), (1, 0, 1), (0, 1, 1), (1, 1, 1), (-1, 1, 0.3), (0.2, -1, 0.1),
            (0.1, 0.3, -1), (1, -0.2, 0.1), (-0.3, 0.1, 1), (0.5, 1, -0.5)]
LAT_ANGLES = [1, 179, 181] + list(range(15, 360, 15))


def fam_orient_lattice(lib, part, par, js, vfs):
    """Every branch of the frame -> quaternion conversions: rotations by 1, 15, 30 .. 345, 179, 181 degrees about 13 axes
    (the coordinate axes, diagonals, axes close to +-x, +-y, +-z), each written as xyaxes (x not unit, y not orthogonal to
    x) and as zaxis on a site of its own; the compiled site_quat must be the documented rotation (Gram-Schmidt frame /
    minimal rotation of z), i.e. equal to the reference quaternion up to sign."""
    sites, refs = [], []
    for ai, ax in enumerate(LAT_AXES):
        for an in LAT_ANGLES:
            Rm = np.array(_quat2mat(q_axisangle(ax, math.radians(an))))
            xy = np.concatenate([1.7 * Rm[:, 0], 0.6 * Rm[:, 1] + 0.3 * Rm[:, 0]])
            sites.append('<site name="x%d_%d" xyaxes="%s"/>' % (ai, an, fmt(xy)))
            refs.append(("xyaxes", ai, an, q_xyaxes(xy)))
            z = 0.8 * Rm[:, 2]
            sites.append('<site name="z%d_%d" zaxis="%s"/>' % (ai, an, fmt(z)))
            refs.append(("zaxis", ai, an, q_zaxis(z)))
    xml = '<mujoco><worldbody><body><geom size="0.1"/>%s</body></worldbody></mujoco>' % "".join(sites)
    m = lib.load_xml(xml, vfs)
    try:
        sq = np.array(m.site_quat).reshape(-1, 4)
        for (kind, ai, an, q), got in zip(refs, sq):
            err = 1.0 - abs(float(np.dot(q, got)))
            branch = "trace>0" if np.trace(np.array(_quat2mat(q))) > 0 else "q%d largest" % (1 + int(np.argmax(np.abs(q[1:]))))
            part.count(1, key=("orient-lattice", kind, branch, ai))
            if not err <= 1e-12:
                part.violation("orientation lattice: %s converted to a different rotation" % kind,
                               "%s for a rotation of %d deg about %s compiles to quat %s, documented %s (conversion branch %s)"
                               % (kind, an, LAT_AXES[ai], got.tolist(), q.tolist(), branch),
                               {"family": "orient-lattice", "kind": kind, "axis": LAT_AXES[ai], "angle_deg": an, "xml": xml})
    finally:
        m.free()


FAMILIES = [("spell", fam_spell), ("degree", fam_degree), ("class", fam_class), ("frame", fam_frame), ("replicate", fam_replicate),
            ("attach", fam_attach), ("fuse", fam_fuse), ("setconst", fam_setconst)]


def _init():
    lib = mj.load()
    R._offsets(lib)
    return lib, G.make_vfs(lib)


def _item(state, part, it):
    lib, vfs = state
    fam, par, js = it
    if fam == "orient-lattice":
        return fam_orient_lattice(lib, part, par, js, vfs)
    dict(FAMILIES)[fam](lib, part, par, js, vfs)


def run(ctx):
    lib = mj.load()
    R._offsets(lib)
    nmax = ctx.q(2, 3)
    menu = ctx.q(["none", "hinge", "slide", "ball", "free"], ["none", "hinge", "slide", "ball", "free", "hinge2", "slidehinge"])
    bases = list(base_models(nmax, menu))
    _OPTS["attach_depths"] = ctx.q((0, 1, 2), (0, 1, 2, 3))
    items = [(f, par, js) for par, js in bases for f, _ in FAMILIES] + [("orient-lattice", "-", "-")]
    R.rpmap(ctx, _item, items, init=_init, label=lambda it: "%s %s %s" % it)
    ctx.extra["violation_keys"] = sorted(v[0] for v in ctx.violations)
    ctx.extra["base_models"] = len(bases)
    ctx.extra["families"] = [f for f, _ in FAMILIES]
    ctx.rule = ("base models = all forests <= %d bodies x joint menu %s (not all-welded); each x every rewriting family: %d orientation "
                "spellings (reference quats from the documented conventions), degree/radian x 3 spellings, 3 default-class "
                "hoistings, frame wrapping, replicate x3 vs copies, mjs_attach vs inline for %d (target<-child element, number of "
                "non-identity frames enclosing the target) cases = {frame,site}<-{body,frame} x depths %s + body<-frame, fusestatic, "
                "discardvisual, %d runtime edits + mj_setConst vs spec edit + recompile; non-trivial = every (family, spelling, base "
                "model) pair that compiled and was compared"
                % (nmax, menu, len(SPELLS), len(attach_cases(_OPTS["attach_depths"])), list(_OPTS["attach_depths"]), len(EDITS)))
    ctx.extra["attach_cases"] = ["%s<-%s depth %d" % c for c in attach_cases(_OPTS["attach_depths"])]
    ctx.assumptions = ["arrays: bit-exact for default-class rewritings, 1e-12 of the array scale where trigonometry is involved "
                       "(float32 arrays 1e-6), 1e-9 for mj_setConst; trajectories: 1e-9 absolute on positions (m) and unit quaternions after 100 steps",
                       "contacts disabled (contype=conaffinity=0) so that trajectories are smooth",
                       "mj_setConst is not expected to recompute bounding volumes: " + ", ".join(sorted(SETCONST_SKIP))]
