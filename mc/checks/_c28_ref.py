"""C28 reference: sensor readings recomputed from the documented definitions.

Positions/orientations are read from mjData frames at the state and at two neighbours along the flow
q(t +- e) = q (+) (+-e v + e^2/2 qacc) (mj_integratePos, then mj_kinematics/mj_comPos/mj_camlight on a scratch mjData);
velocities and accelerations are central first/second differences of those frames, so they do not use cvel/cacc/cdof.
"""
from __future__ import annotations

import math

import numpy as np

from ..mjutil import quat2mat

EPS = 2e-4        # second differences (accelerations): q(t+-e) = q (+) (+-e v + e^2/2 qacc), at e and e/2 (Richardson)
DEL = 1e-6        # first differences (velocities): q (+) (+-d v)

OBJ = dict(body=1, xbody=2, joint=3, geom=5, site=6, camera=7, tendon=18, actuator=19, sensor=20)


def skew_vec(A):
    return np.array([A[2, 1] - A[1, 2], A[0, 2] - A[2, 0], A[1, 0] - A[0, 1]]) / 2


def rotlog(Rm):
    """rotation vector of a rotation matrix close to identity."""
    w = skew_vec(Rm)
    s = np.linalg.norm(w)
    if s < 1e-12:
        return w
    return w / s * math.asin(min(1.0, s))


class Snap:
    """frames of all bodies/geoms/sites/cameras of a scratch mjData."""

    def __init__(self, lib, m, d, q):
        d.qpos[:] = q
        lib.mj_kinematics(m, d)
        lib.mj_comPos(m, d)
        lib.mj_camlight(m, d)
        self.pos = {"xbody": np.array(d.xpos), "body": np.array(d.xipos), "geom": np.array(d.geom_xpos),
                    "site": np.array(d.site_xpos), "camera": np.array(d.cam_xpos)}
        self.mat = {"xbody": np.array(d.xmat).reshape(-1, 3, 3), "body": np.array(d.ximat).reshape(-1, 3, 3),
                    "geom": np.array(d.geom_xmat).reshape(-1, 3, 3), "site": np.array(d.site_xmat).reshape(-1, 3, 3),
                    "camera": np.array(d.cam_xmat).reshape(-1, 3, 3)}
        self.q = np.array(q, float)


class State:
    """everything the reference needs at one (qpos, qvel, qacc): three snapshots and helpers."""

    def __init__(self, lib, m, d, scratch, names):
        self.lib, self.m, self.d = lib, m, d
        self.names = names                 # (objtype, name) -> id
        q, v, a = np.array(d.qpos), np.array(d.qvel), np.array(d.qacc)
        self.q, self.v, self.a = q, v, a
        self.s0 = Snap(lib, m, scratch, q)
        qp = q.copy()
        lib.mj_integratePos(m, qp, EPS * v + 0.5 * EPS * EPS * a, 1.0)
        qm = q.copy()
        lib.mj_integratePos(m, qm, -EPS * v + 0.5 * EPS * EPS * a, 1.0)
        self.sp = Snap(lib, m, scratch, qp)
        self.sm = Snap(lib, m, scratch, qm)
        h = 0.5 * EPS
        qp = q.copy()
        lib.mj_integratePos(m, qp, h * v + 0.5 * h * h * a, 1.0)
        qm = q.copy()
        lib.mj_integratePos(m, qm, -h * v + 0.5 * h * h * a, 1.0)
        self.hp = Snap(lib, m, scratch, qp)
        self.hm = Snap(lib, m, scratch, qm)
        qp = q.copy()
        lib.mj_integratePos(m, qp, v, DEL)
        qm = q.copy()
        lib.mj_integratePos(m, qm, v, -DEL)
        self.vp = Snap(lib, m, scratch, qp)
        self.vm = Snap(lib, m, scratch, qm)
        self.g = np.array(m.opt.gravity)

    def oid(self, ot, name):
        return self.names[(ot if ot != "xbody" else "body", name)]

    # ---- kinematic quantities of a frame (objtype, id)
    def pos(self, ot, i):
        return self.s0.pos[ot][i]

    def mat(self, ot, i):
        return self.s0.mat[ot][i]

    def linvel(self, ot, i):
        return (self.vp.pos[ot][i] - self.vm.pos[ot][i]) / (2 * DEL)

    def angvel(self, ot, i):
        return rotlog(self.vp.mat[ot][i] @ self.vm.mat[ot][i].T) / (2 * DEL)

    def linacc(self, ot, i):
        p0 = self.s0.pos[ot][i]
        a1 = (self.sp.pos[ot][i] - 2 * p0 + self.sm.pos[ot][i]) / (EPS * EPS)
        a2 = (self.hp.pos[ot][i] - 2 * p0 + self.hm.pos[ot][i]) / (0.25 * EPS * EPS)
        return (4 * a2 - a1) / 3          # the e^2 error term cancels

    def angacc(self, ot, i):
        R0 = self.s0.mat[ot][i]
        out = []
        for (sp, sm, h) in ((self.sp, self.sm, EPS), (self.hp, self.hm, 0.5 * EPS)):
            wp = rotlog(sp.mat[ot][i] @ R0.T) / h
            wm = rotlog(R0 @ sm.mat[ot][i].T) / h
            out.append((wp - wm) / h)
        return (4 * out[1] - out[0]) / 3

    def rel(self, snap, ot, i, rt, ri):
        """position and orientation of (ot,i) in the frame (rt,ri) in one snapshot."""
        Rr = snap.mat[rt][ri]
        return Rr.T @ (snap.pos[ot][i] - snap.pos[rt][ri]), Rr.T @ snap.mat[ot][i]


def quat_close(q, Rm, tol):
    """unit quaternion q represents rotation matrix Rm (either sign)."""
    q = np.asarray(q, float)
    if abs(np.linalg.norm(q) - 1) > tol:
        return False
    return np.max(np.abs(quat2mat(q) - Rm)) <= tol


def inside_site(stype, size, spos, smat, p):
    """closed-form point-in-volume test for site shapes (mjtGeom: 2 sphere, 3 capsule, 4 ellipsoid, 5 cylinder, 6 box)."""
    loc = smat.T @ (p - spos)
    if stype == 2:
        return float(np.linalg.norm(loc) <= size[0])
    if stype == 6:
        return float(np.all(np.abs(loc) <= size))
    if stype == 4:
        return float(np.sum((loc / size) ** 2) <= 1.0)
    if stype == 5:
        return float(math.hypot(loc[0], loc[1]) <= size[0] and abs(loc[2]) <= size[1])
    if stype == 3:
        z = min(max(loc[2], -size[1]), size[1])
        return float(np.linalg.norm(loc - np.array([0, 0, z])) <= size[0])
    raise ValueError(stype)


def inside_margin(stype, size, spos, smat, p):
    """distance-like slack to the boundary (for excluding points on the discontinuity)."""
    loc = smat.T @ (p - spos)
    if stype == 6:
        return float(np.min(np.abs(np.abs(loc) - size)))
    if stype == 4:
        return abs(float(np.sum((loc / size) ** 2)) - 1.0)
    if stype == 2:
        return abs(float(np.linalg.norm(loc)) - size[0])
    return 1.0
