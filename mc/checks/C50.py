"""C50 Visualization scene construction is bounded and faithful.

Fault dimension: the scene capacity maxgeom.  For a kitchen-sink model that reaches every acquireGeom call site of
engine_vis_visualize.c (geoms, sites, spatial / catenary tendons, slider-cranks, frames, body / flex / mesh BVH and octree
boxes, tactile and camera-frustum triangles, inertia boxes, perturbation objects, selection point, body / island labels,
joints, actuators, cameras, lights, COM, auto-connect, range-finder rays, external forces, equality anchors, contact
points / surface-velocity arrows / contact forces, flex, skin, plugin visualisers), a geom-group / material model and a few
kinematic trees, and for every visualisation option set of a stated list (only geoms; every mjVIS flag alone and with
Static; default; all flags; selected / perturbed body; every frame mode; every label mode; every category mask; BVH depths;
all 64 geom-group masks), EVERY capacity 0..G+2 is executed (G = geoms of the ample-capacity scene): fresh mjvScene with
exactly maxgeom geoms (ASan build, exact-size allocator, canary-filled buffer), two consecutive mjv_updateScene calls.
Oracle per point: native/drivers/c50_scene.cc (header comment).
"""
from __future__ import annotations

import concurrent.futures as cf
import json
import os
import re
import subprocess
import tempfile

from .. import build, core
from . import _c2x_run as rx
from . import _c50_models as models

LEVEL = "fault_enumeration"
META = dict(
    category=LEVEL,
    technique="exhaustive enumeration of the scene capacity (every maxgeom in 0..G+2) x option-set list x models, ASan/UBSan "
              "build with an exact-size scene buffer, differential against the ample-capacity scene, independent model of "
              "the geom -> mjvGeom mapping for the only-geoms option sets",
    text="Each of the 40 acquireGeom call sites fails only for a particular window of capacities, and the window moves with "
         "the options, so every capacity from 0 to the ample need is executed for every option set; the oracle is the "
         "sanitizer plus the prefix relation with the ample scene plus the status/warning equivalence.  Fault enumeration "
         "is the right level: the fault space (capacity) is finite and covered completely.",
    note="Rendering (mjr_*) is not available; SDF plugin visualisers are not reached (marching-cubes shim is inert); "
         "scn.status is sticky by design (\"warning issued\"), so it is compared with 'this or an earlier call overflowed'; "
         "infinite planes are re-centred under the camera of the previous call, so call k is compared with call k of the "
         "ample scene; mjvGeom.camdist / transparent are renderer-owned (acquireGeom zeroes them).",
    design_ref="DESIGN.md §3 C50")

K_SPURIOUS = "spurious overflow: status set although the scene fits"


def _parse(stdout):
    res = dict(hist={}, first={}, nontrivial=0, viol=[], crashes=[], skipped=0, tlines=[])
    for line in stdout.splitlines():
        if line.startswith("H "):
            _, n, f, cls = line.split(" ", 3)
            res["hist"][cls] = res["hist"].get(cls, 0) + int(n)
            res["first"][cls] = min(res["first"].get(cls, 1 << 62), int(f))
        elif line.startswith("N "):
            res["nontrivial"] += int(line[2:])
        elif line.startswith("V "):
            _, f, n, l, rest = line.split(" ", 4)
            key, _, what = rest.partition("|")
            res["viol"].append((int(f), int(n), int(l), key, what))
        elif line.startswith("CRASH "):
            _, pt, rest = line.split(" ", 2)
            res["crashes"].append((int(pt), rest))
        elif line.startswith("S "):
            res["skipped"] += int(line.split(" ", 2)[1])
        elif line.startswith("T "):
            _, os_, g, base, exact, name = line.split(" ", 5)
            res["tlines"].append((int(os_), int(g), int(base), int(exact), name))
    return res


def _locate(tlines, point):
    """point number -> (option set id, name, maxgeom)."""
    cur = None
    for t in tlines:
        if t[2] <= point:
            cur = t
    if cur is None:
        return (-1, "?", point)
    return (cur[0], cur[4], point - cur[2])


def _job(job):
    exe, mname, path, mode, nstep, ids, variant = job
    part = core.Part()
    r = subprocess.run([exe, path, mode, str(nstep), "sweep", ",".join(str(i) for i in ids), "1500"],
                       capture_output=True, text=True, env=rx.env(False))
    if r.returncode != 0:
        raise RuntimeError("c50_scene failed rc=%d on %s: %s" % (r.returncode, mname, r.stderr[-1500:]))
    res = _parse(r.stdout)
    objs = rx.objs_for(variant, exe)
    npts = sum(res["hist"].values())
    part["evaluations"] += npts + len(res["crashes"])
    part["nontrivial_count"] += res["nontrivial"] + len(res["crashes"])
    for cls, n in res["hist"].items():
        part.add("points %s" % cls, n)
    part.add("scene_builds", 2 * npts)
    part.add("option_sets[%s]" % mname, len(res["tlines"]))
    part.add("exact_option_sets", sum(1 for t in res["tlines"] if t[3]))
    part["extra"]["G[%s] max" % mname] = 0
    if res["tlines"]:
        big = max(res["tlines"], key=lambda t: t[1])
        part["extra"]["largest scene in job %s/%d" % (mname, ids[0])] = "%d geoms (%s)" % (big[1], big[4])
        del part["extra"]["G[%s] max" % mname]
    xml = dict(_all_models(True)).get(mname.split("@")[0], "")
    for cls in ("overflow", "fits"):
        if cls in res["first"] and len(part["samples"]) < 2:
            os_, name, mg = _locate(res["tlines"], res["first"][cls])
            g = [t[1] for t in res["tlines"] if t[0] == os_]
            part["samples"].append(dict(model=mname, option_set=name, maxgeom=mg, ample_ngeom=g[0] if g else None,
                                        outcome=cls))
    # one record per canonical key and job (Part keeps at most 50 records: a key that is hit at every capacity must not
    # crowd out the others); the record is the smallest failing point
    agg = {}
    for f, n, l, key, what in res["viol"]:
        a = agg.setdefault(key, [f, 0, what])
        if f < a[0]:
            a[0], a[2] = f, what
        a[1] += n
        part.add("violating_points", n)
    for key, (f, n, what) in sorted(agg.items()):
        os_, name, mg = _locate(res["tlines"], f)
        part.violation(key, "%s: %s (%d capacities of this job)" % (mname, what, n),
                       dict(model=mname, xml=xml, mode=mode, nstep=nstep, option_set=os_, option_set_name=name, maxgeom=mg))
    seen = set()
    for pt, rest in res["crashes"]:
        kind, fn, _ = rx.crash_key(rest, objs)
        # innermost frame that is not sanitizer runtime (the runtime is linked into the driver executable)
        m = re.search(r"frames: ([^|]*)", rest)
        for fr in (m.group(1).strip().split("<") if m else []):
            f2 = rx._frame_fn(fr.strip(), objs)
            if f2 and not f2.startswith(("__asan", "__interceptor", "__sanitizer", "__ubsan", "__GI_", "memset", "memcpy")):
                fn = f2
                break
        ck = "crash: %s in %s" % (kind, fn)
        part.add("crash_points", 1)
        if ck in seen:
            continue
        seen.add(ck)
        os_, name, mg = _locate(res["tlines"], pt)
        part.violation(ck, "%s [%s] maxgeom=%d: process died with %s in %s (%s)" % (mname, name, mg, kind, fn, rest[:300]),
                       dict(model=mname, xml=xml, mode=mode, nstep=nstep, option_set=os_, option_set_name=name, maxgeom=mg))
    if res["skipped"]:
        part["capped"] = True
    return part


def _list(exe, path, mode, nstep):
    r = subprocess.run([exe, path, mode, str(nstep), "list"], capture_output=True, text=True, env=rx.env(False))
    if r.returncode != 0:
        raise RuntimeError("c50_scene list failed rc=%d: %s" % (r.returncode, r.stderr[-1500:]))
    out = []
    for line in r.stdout.splitlines():
        if line.startswith("O "):
            f = line.split(" ", 6)
            out.append((int(f[1]), max(int(f[2]), int(f[3])), f[6]))
        elif line.startswith("E "):
            raise RuntimeError("c50_scene list: " + line)
    return out


def _compile(xml, path):
    """XML -> .mjb with the production-layout build of the tree (the sanitizer build loads the binary model)."""
    from .. import mj
    lib = mj.load("rel")
    m = lib.load_xml(xml)
    lib.mj_saveModel(m, path.encode(), None, 0)
    m.free()


def _all_models(thorough):
    return models.models() + (models.thorough_models() if thorough else [])


def _plan(ctx, tmp):
    """[(model name, path, mode, nstep)]"""
    plan = []
    for i, (name, xml) in enumerate(_all_models(ctx.thorough)):
        p = os.path.join(tmp, "m%02d.mjb" % i)
        _compile(xml, p)
        mode = "masks" if name == "groups" else ("fullT" if ctx.thorough else "full")
        if name == "kitchen-sink":
            plan.append((name, p, mode, 60))
            if ctx.thorough:
                plan.append((name + "@t=0", p, mode, 1))
        elif name == "kitchen-sink-notouch":
            plan.append((name + "@t=0.5", p, mode, 250))      # flexes have reached the floor: flex contacts
        else:
            plan.append((name, p, mode, 0))
    return plan


def run(ctx):
    variant = "asan"
    exe = build.ensure_exe("c50_scene", ["drivers/c50_scene.cc"], variant=variant)
    exe_rel = build.ensure_exe("c50_scene", ["drivers/c50_scene.cc"], variant="rel")
    tmp = tempfile.mkdtemp(prefix="verif_c50_")
    plan = _plan(ctx, tmp)
    nproc = max(1, core.NCPU)
    jobs = []
    total_sets = 0
    for name, path, mode, nstep in plan:
        sets = _list(exe_rel, path, mode, nstep)        # production-layout build: only used to balance the shards
        total_sets += len(sets)
        cost = sum(g * g for _, g, _ in sets)
        nshard = max(1, min(nproc, int(cost / 4.0e5) + 1))
        # heaviest first, round-robin: every shard gets a similar amount of work
        order = sorted(sets, key=lambda s: -s[1])
        shards = [[] for _ in range(nshard)]
        for k, s in enumerate(order):
            shards[k % nshard].append(s[0])
        for sh in shards:
            if sh:
                jobs.append((exe, name, path, mode, nstep, sorted(sh), variant))
    r = ctx.seed % len(jobs)
    jobs = jobs[r:] + jobs[:r]
    with cf.ThreadPoolExecutor(max_workers=nproc) as ex:      # one driver process (which forks per batch) per job
        for part in ex.map(_job, jobs):
            ctx.merge(part)
    ctx.extra["models"] = len(plan)
    ctx.extra["option_sets_total"] = total_sets
    ctx.extra["driver_processes"] = len(jobs)
    ctx.rule = (
        "%d scenarios (kitchen-sink after 60 steps%s; geom-group/material/alpha model; kinematic trees from the shared alphabet) x "
        "option sets {only geoms: flags none / Static / +Texture / +Transparent / +ConvexHull, all groups, category masks, "
        "selected body; each of the %d mjVIS flags alone and with Static; default; all flags; all flags with all / no groups; "
        "selected + perturbed (translate|rotate) body; 7 frame modes x {default, all flags}; 16 label modes x {default, all "
        "flags}; category masks 0..6; bvh_depth 0,2,3,4 / flex_layer; groups model: all 64 geom-group masks} x EVERY "
        "maxgeom in 0..G+2 x two consecutive mjv_updateScene calls on a fresh exact-size scene.  A point is one (model, "
        "option set, maxgeom); non-trivial = the ample scene needs more than maxgeom (the scene is full at some call site)."
        % (len(plan), " (+ after 1 step; + without the touch_grid sensor after 250 steps, with flex contacts; all frame / label "
                      "modes also with all flags)" if ctx.thorough else "", 31))
    ctx.assumptions = [
        "status is sticky ('0: ok, 1: geoms exhausted, warning issued'): after call k it is compared with 'call 1..k needed "
        "more than maxgeom'; exactly one warning is expected at the transition",
        "call k on the swept scene is compared with call k on the ample scene (infinite planes follow the camera of the "
        "previous call)",
        "all 40 acquireGeom call sites are reached and return NULL at some capacity (measured once with an instrumented "
        "scratch build, see the final report); touch_grid's visualiser is reached, the SDF visualisers are not",
        "mju_error is turned into a C++ exception by the harness handler; mju_user_malloc is an exact-size allocator that "
        "returns a valid block for size 0",
    ]
    try:
        for f in os.listdir(tmp):
            os.unlink(os.path.join(tmp, f))
        os.rmdir(tmp)
    except OSError:
        pass


def replay(ctx, path):
    with open(path) as fh:
        r = json.load(fh)["replay"]
    tmp = tempfile.mkdtemp(prefix="verif_c50_")
    p = os.path.join(tmp, "m.mjb")
    _compile(r["xml"], p)
    exe = build.ensure_exe("c50_scene", ["drivers/c50_scene.cc"], variant="asan")
    res = subprocess.run([exe, p, r["mode"], str(r["nstep"]), "point", str(r["option_set"]), str(r["maxgeom"])],
                         capture_output=True, text=True, env=rx.env(True))
    print(res.stdout)
    print(res.stderr[-3000:])
    return 1 if (res.returncode != 0 or "\nV " in "\n" + res.stdout) else 0
