"""C20 Exhausted arena memory is handled gracefully.

Fault dimension: the arena size in bytes.  For every scenario model (contact-rich, constraint-rich, island-rich; cone x
island x solver x jacobian lattice) the fault-free memory need N = maxuse_arena is measured, then EVERY arena size from 0
up to beyond N (until the run is fault-free again) is executed: 2 x mj_step (+1 further step), in the sanitizer build
(ASan + UBSan + MuJoCo's own arena poisoning) and in the production-layout build (signals caught in-process, canary
behind the arena).  Oracle per size: no sanitizer report / signal; an incomplete contact / constraint set is announced by
CONTACTFULL / CNSTRFULL or by a caught mju_error of the out-of-memory family; afterwards the sizes describe arrays that
exist (native/drivers/c20_arena.cc: check_arena) and the contacts are a sub-list of the ample-memory contacts; without a
warning the state is bit-identical to the ample-memory run.
"""
from __future__ import annotations

import json
import os
import re
import tempfile

from .. import build, core
from . import _c20_models as models
from . import _c2x_run as rx

LEVEL = "fault_enumeration"
META = dict(
    category=LEVEL,
    technique="exhaustive enumeration of the arena size (every multiple of 4 bytes; every byte on the small models in "
              "thorough) x scenario lattice, ASan/UBSan build + production build, differential against an ample-memory run",
    text="Each allocation site (pair buffer, contacts, efc arrays, island arrays, Y/AR, every mj_stackAlloc) fails only for "
         "a particular window of memory sizes, so every size from 0 to the fault-free need is executed; the oracle is the "
         "sanitizer plus structural invariants of mjData plus a bit-exact comparison with the same step under ample "
         "memory.  Fault enumeration is the right level: the fault space (arena size) is finite and is covered completely.",
    note="No thread pool (the exception-throwing error handler cannot cross threads); libccd path inert; models are the "
         "stated scenario lattice; in-place shrinking of d->narena is cross-checked against freshly allocated mjData every "
         "251 bytes; inside a crash window caused by one defect the ASan run probes every k-th size (reported, "
         "exhaustive=false then) while the production-layout run still executes every size.",
    design_ref="DESIGN.md §3 C20")

# canonical keys, one per root cause
K_PAIR = "pushPairArena dereferences the NULL result of mj_arenaAllocByte"
K_STALE = "ne/nf/nl stay non-zero after mj_clearEfc/clearIsland reset nefc=0 (efc arrays NULL or stale are then indexed)"
K_ISLAND_ADDR = "clearIsland (island arrays do not fit) leaves contact.efc_address >= 0 while nefc = 0"


def _canon_violation(key: str, what: str, objs: dict):
    """driver key -> canonical root-cause key."""
    if key.startswith("ne+nf+nl > nefc"):
        return K_STALE
    if key.startswith("contact.efc_address out of range") and "nefc=0" in what:
        return K_ISLAND_ADDR
    m = re.match(r"signal inside mj_step: signal (\d+) at (\S+)\+(0x[0-9a-f]+)", key)
    if m:
        fn = rx.symbolize(objs.get(m.group(2), m.group(2)), m.group(3))
        if "pushPairArena" in fn:
            return K_PAIR
        if "[ne+nf+nl>nefc]" in key:
            return K_STALE
        return "crash: signal %s in %s" % (m.group(1), fn)
    return key


def _canon_crash(rest: str, objs: dict):
    kind, fn, state = rx.crash_key(rest, objs)
    if "pushPairArena" in fn:
        return K_PAIR, kind, fn
    if state and state.get("ne", 0) + state.get("nf", 0) + state.get("nl", 0) > state.get("nefc", 0):
        return K_STALE, kind, fn
    return "crash: %s in %s" % (kind, fn), kind, fn


class _DedupPart(core.Part):
    """Part.violation keeps at most 50 records: record each canonical key once per job so that no key is dropped."""

    def violation(self, key, what, replay=None):
        seen = self.__dict__.setdefault("_seen", set())
        if key in seen:
            return
        seen.add(key)
        core.Part.violation(self, key, what, replay)


def _job(job):
    """one driver process: shard `shard` of `nshards` of the automatically determined range [0, top) of one scenario."""
    variant, exe, xmlpath, name, shard, nshards, stride, cstride, nstep = job
    part = _DedupPart()
    objs = rx.objs_for(variant, exe)
    res = rx.run([exe, xmlpath, "auto", shard, nshards, stride, nstep, 251, cstride])
    if res.rc != 0:
        raise RuntimeError("driver failed rc=%d: %s" % (res.rc, res.stderr))
    if shard == 0 and res.tline and variant == "asan":
        part.add("bytes_swept[%s]" % variant, int(res.tline[1]))
        part["extra"]["need %s/%s" % (variant, name)] = "maxuse_arena=%s sweep 0..%s" % (res.tline[0], res.tline[1])
    npts = 0
    for cls, n in res.hist.items():
        if cls.startswith("(fresh"):
            part.add("fresh_mjdata_crosschecks", n)
            continue
        npts += n
        part.add("outcome[%s] %s" % (variant, cls), n)
    part["evaluations"] += npts + len(res.crashes)
    part["nontrivial_count"] += res.nontrivial + len(res.crashes)
    part.add("points[%s]" % variant, npts + len(res.crashes))
    if res.skipped:
        part.add("skipped_inside_crash_window[%s]" % variant, res.skipped)
        part["capped"] = True
    for cls in sorted(res.first, key=lambda c: res.first[c]):
        if not cls.startswith("(") and (cls.startswith("W[") or shard == 0) and len(part["samples"]) < 2:
            part["samples"].append({"scenario": name, "variant": variant, "narena": res.first[cls], "outcome": cls})
    rep = dict(scenario=name, variant=variant, nstep=nstep, xml=open(xmlpath).read())
    for f, n, l, key, what in res.viol:
        ck = _canon_violation(key, what, objs)
        part.violation(ck, "%s [%s] %s: %s (%d sizes in %d..%d of this shard)" % (name, variant, key, what, n, f, l),
                       dict(rep, narena=f))
        part.add("violating_points", n)
    seen = set()
    for pt, rest in res.crashes:
        ck, kind, fn = _canon_crash(rest, objs)
        part.add("crash_points[%s]" % variant, 1)
        if ck in seen:
            continue
        seen.add(ck)
        part.violation(ck, "%s [%s] narena=%d: process died with %s in %s (%s)" % (name, variant, pt, kind, fn, rest[:300]),
                       dict(rep, narena=pt))
    return part


def _chunk(chunk):
    total = core.Part()
    ctx = core.Ctx("C20", "quick", 0, LEVEL)
    ctx.max_samples = 4
    for job in chunk:
        ctx.merge(_job(job))
    total["evaluations"] = ctx.evaluations
    total["nontrivial_count"] = ctx.nontrivial_extra
    total["samples"] = ctx.samples[:2]
    total["violations"] = [{"key": k, "what": w, "replay": r} for k, w, r in ctx.violations]
    total["extra"] = ctx.extra
    total["capped"] = not ctx.exhaustive
    return total


def _measure(args):
    exe, xmlpath, nstep = args
    res = rx.subprocess.run([exe, xmlpath, "measure", "0", "0", "0", str(nstep)], capture_output=True, text=True,
                            env=rx.env())
    if res.returncode != 0 or not res.stdout.startswith("M "):
        raise RuntimeError("measure failed: %s %s" % (res.stdout, res.stderr[-500:]))
    f = res.stdout.split()
    return dict(N=int(f[1]), ncon=int(f[2]), nefc=int(f[3]), nisland=int(f[4]))


def run(ctx):
    nstep = 2
    tmp = tempfile.mkdtemp(prefix="verif_c20_")
    scn = models.scenarios(ctx.thorough)
    exes = {v: build.ensure_exe("c20_arena", ["drivers/c20_arena.cc"], variant=v) for v in ("asan", "rel")}
    paths = {}
    for i, (name, xml) in enumerate(scn):
        p = os.path.join(tmp, "s%03d.xml" % i)
        with open(p, "w") as fh:
            fh.write(xml)
        paths[name] = p

    # 1. rough size of each scenario (fast production build) to decide the number of shards
    from concurrent.futures import ThreadPoolExecutor
    with ThreadPoolExecutor(max_workers=core.NCPU) as ex:
        meas = list(ex.map(lambda nx: _measure((exes["rel"], paths[nx[0]], nstep)), scn))

    # 2. the sweep.  Step: every arena allocation has size and alignment a multiple of 4 (int, mjtNum, mjContact, mjcPair)
    # and every non-empty stack begins with an 8-aligned mjStackFrame, so the allocation trace is a function of
    # floor(narena/4); thorough verifies this on the small scenarios by running every byte.
    jobs = []
    small = 16000
    for v in exes:
        for (name, _), m in zip(scn, meas):
            stride = 1 if (ctx.thorough and m["N"] <= small) else 4
            cstride = 1 if v == "rel" else ctx.q(16, 4)
            nshards = max(1, (m["N"] // stride) // ctx.q(3000, 6000))
            for sh in range(nshards):
                jobs.append((v, exes[v], paths[name], name, sh, nshards, stride, cstride, nstep))
    core.pmap(ctx, _chunk, jobs, nchunks=len(jobs))
    ctx.extra["scenarios"] = len(scn)
    ctx.rule = (
        "%d scenario models (mixed / spheres / chain with limits+frictionloss+equalities+tendon+sensors / islands / clump of "
        "multi-geom bodies) x cone{pyramidal,elliptic} x island{on,off} x (solver,jacobian) lattice; for each model and each "
        "build (asan, rel) every arena size 0..N+pad in steps of 4 bytes (1 byte for models needing <= %d bytes in thorough), "
        "N = measured maxuse_arena, pad grown (by the driver) until the last 64 sizes are fault-free; %d mj_step + 1 further step per size. "
        "non-trivial = a size at which the fault manifested (CONTACTFULL/CNSTRFULL warning, caught mju_error, or crash)"
        % (len(scn), small, nstep))
    ctx.assumptions = [
        "allocation trace depends on narena only through floor(narena/4): sizes and alignments of all arena allocations are "
        "multiples of 4 and every non-empty stack starts with an 8-aligned frame (checked byte-by-byte on small models in thorough)",
        "shrinking d->narena in place inside a larger allocation (tail poisoned / canary-filled) is equivalent to a fresh "
        "mjData with m->narena = narena; cross-checked on every 251st size and at narena = 0",
        "mju_error is turned into a C++ exception by the harness log handler; after a caught error the mjData is reset",
        "no thread pool; libccd inert (DESIGN §1)",
    ]
    try:
        for f in os.listdir(tmp):
            os.unlink(os.path.join(tmp, f))
        os.rmdir(tmp)
    except OSError:
        pass


def replay(ctx, path):
    with open(path) as fh:
        r = json.load(fh)["replay"]
    tmp = tempfile.mkdtemp(prefix="verif_c20_")
    p = os.path.join(tmp, "m.xml")
    with open(p, "w") as fh:
        fh.write(r["xml"])
    exe = build.ensure_exe("c20_arena", ["drivers/c20_arena.cc"], variant=r["variant"])
    res = rx.subprocess.run([exe, p, str(r["narena"]), str(r["narena"] + 1), "1", "1", str(r.get("nstep", 2)), "0", "1"],
                            capture_output=True, text=True, env=rx.env(True))
    print(res.stdout)
    print(res.stderr[-3000:])
    return 1 if ("CRASH" in res.stdout or "\nV " in "\n" + res.stdout) else 0
