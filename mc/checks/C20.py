"""C20 Exhausted arena memory is handled gracefully.

Two fault dimensions.  (1) The arena size in bytes.  For every scenario model (contact-rich, constraint-rich,
island-rich; cone x island x solver x jacobian lattice) the fault-free memory need N = maxuse_arena is measured, then
EVERY arena size from 0 up to beyond N (until the run is fault-free again) is executed: 2 x mj_step (+1 further step),
in the sanitizer build (ASan + UBSan + MuJoCo's own arena poisoning) and in the production-layout build (signals
caught in-process, canary behind the arena).  (2) The stage boundary at which the memory runs out.  With one fixed
size, an allocation can only be seen to fail at sizes at which the step gets that far: the transient stack peak of an
earlier stage (collision scratch, Jacobian scratch of the instantiate functions, ...) hides the failure window of
every later allocation that needs less than that peak (on small models: the dual arrays Y / AR of mj_projectConstraint,
the island arrays).  MuJoCo calls the user timer callback mjcb_time at its stage boundaries; at each such call k of the
first step that happens with an empty stack (the arena then holds finished arrays only), the end of the arena is moved
to s for EVERY s from parena_k (what is allocated at the call) to min(q_k, M_k) + 64, where q_k is the measured peak of
stack + arena use from call k to the next such call and M_k the measured peak of everything before call k: the step
runs with ample memory up to call k and with narena = s from there on, as in a run with narena = s whose earlier
stages fitted.  Sizes s >= M_k are not repeated: there the earlier stages do fit and (k, s) is the plain run with
narena = s.
Oracle per fault point: no sanitizer report / signal; an incomplete contact / constraint set is announced by
CONTACTFULL / CNSTRFULL or by a caught mju_error of the out-of-memory family; afterwards the sizes describe arrays that
exist (native/drivers/c20_arena.cc: check_arena) and the contacts are a sub-list of the ample-memory contacts; without a
warning the state is bit-identical to the ample-memory run.
"""
from __future__ import annotations

import json
import os
import re
import tempfile

from .. import build, core
from . import _c20_models as models
from . import _c2x_run as rx

LEVEL = "fault_enumeration"
META = dict(
    category=LEVEL,
    technique="exhaustive enumeration of the arena size (every multiple of 4 bytes; every byte on the small models in "
              "thorough), from the start of the step and from every stage boundary (timer callback with an empty stack) of "
              "the first step, x scenario lattice, ASan/UBSan build + production build, differential against an "
              "ample-memory run",
    text="Each allocation site (pair buffer, contacts, efc arrays, island arrays, Y/AR, every mj_stackAlloc) fails only for "
         "a particular window of memory sizes, so every size from 0 to the fault-free need is executed; a window that is "
         "hidden behind the larger transient need of an earlier stage is reached by letting the memory run out at the "
         "stage boundary instead (every boundary x every size between what is allocated there and the peak of the "
         "following segment); the oracle is the "
         "sanitizer plus structural invariants of mjData plus a bit-exact comparison with the same step under ample "
         "memory.  Fault enumeration is the right level: the fault space (arena size) is finite and is covered completely.",
    note="No thread pool (the exception-throwing error handler cannot cross threads); libccd path inert; models are the "
         "stated scenario lattice; in-place shrinking of d->narena is cross-checked against freshly allocated mjData every "
         "251 bytes; a staged fault point (memory ample up to a stage boundary) is a state of a run with that narena on a "
         "model whose earlier stages need less scratch memory, not necessarily of this model: a violation found only there "
         "is reported with the boundary in its replay record; boundaries are the timer-callback calls only (mj_makeConstraint "
         "and mj_island share a segment); inside a crash window caused by one defect the ASan run probes every k-th size (reported, "
         "exhaustive=false then) while the production-layout run still executes every size.",
    design_ref="DESIGN.md §3 C20")

# canonical keys, one per root cause
K_PAIR = "pushPairArena dereferences the NULL result of mj_arenaAllocByte"
K_STALE = "ne/nf/nl stay non-zero after mj_clearEfc/clearIsland reset nefc=0 (efc arrays NULL or stale are then indexed)"
K_ISLAND_ADDR = "clearIsland (island arrays do not fit) leaves contact.efc_address >= 0 while nefc = 0"


def _canon_violation(key: str, what: str, objs: dict):
    """driver key -> canonical root-cause key."""
    if key.startswith("ne+nf+nl > nefc"):
        return K_STALE
    if key.startswith("contact.efc_address out of range") and "nefc=0" in what:
        return K_ISLAND_ADDR
    m = re.match(r"signal inside mj_step: signal (\d+) at (\S+)\+(0x[0-9a-f]+)", key)
    if m:
        fn = rx.symbolize(objs.get(m.group(2), m.group(2)), m.group(3))
        if "pushPairArena" in fn:
            return K_PAIR
        if "[ne+nf+nl>nefc]" in key:
            return K_STALE
        return "crash: signal %s in %s" % (m.group(1), fn)
    return key


def _canon_crash(rest: str, objs: dict):
    kind, fn, state = rx.crash_key(rest, objs)
    if "pushPairArena" in fn:
        return K_PAIR, kind, fn
    if state and state.get("ne", 0) + state.get("nf", 0) + state.get("nl", 0) > state.get("nefc", 0):
        return K_STALE, kind, fn
    return "crash: %s in %s" % (kind, fn), kind, fn


class _DedupPart(core.Part):
    """Part.violation keeps at most 50 records: record each canonical key once per job so that no key is dropped."""

    def violation(self, key, what, replay=None):
        seen = self.__dict__.setdefault("_seen", set())
        if key in seen:
            return
        seen.add(key)
        core.Part.violation(self, key, what, replay)


STAGED_BASE = 1 << 40   # driver: point ids of staged fault points start here, their outcome classes start with '@'


def _stage_table(info):
    """driver lines 'G <call> <first point> <first size> <count> <parena> <peak> <peak before>' -> list of dicts;
    'S <total> <lo> <hi> <timer calls per step>' -> summary."""
    tab, summ = [], None
    for line in info:
        f = line.split()
        if f and f[0] == "G":
            tab.append(dict(tick=int(f[1]), off=int(f[2]), base=int(f[3]), n=int(f[4]), parena=int(f[5]), peak=int(f[6]),
                            before=int(f[7])))
        elif f and f[0] == "S":
            summ = dict(total=int(f[1]), lo=int(f[2]), hi=int(f[3]), ncalls=int(f[4]))
    return tab, summ


def _job(job):
    """one driver process: shard `shard` of `nshards` of one scenario: the automatically determined range [0, top) of
    arena sizes (memory short from the start), then the same shard of the staged fault points (stage boundary, size)."""
    variant, exe, xmlpath, name, shard, nshards, stride, cstride, nstep = job
    part = _DedupPart()
    objs = rx.objs_for(variant, exe)
    res = rx.run([exe, xmlpath, "both", shard, nshards, stride, nstep, 251, cstride])
    if res.rc != 0:
        raise RuntimeError("driver failed rc=%d: %s" % (res.rc, res.stderr))
    tab, summ = _stage_table(res.info)

    def where(pt):
        """point id -> (replay fields, text)."""
        if pt < STAGED_BASE:
            return dict(narena=pt), "narena=%d" % pt
        idx = pt - STAGED_BASE
        for st in tab:
            if st["off"] <= idx < st["off"] + st["n"]:
                na = st["base"] + (idx - st["off"]) * stride
                return dict(narena=na, tick=st["tick"]), "narena=%d from timer call %d of step 1 on" % (na, st["tick"])
        raise RuntimeError("staged point %d outside the table" % idx)

    if shard == 0 and res.tline and variant == "asan":
        part.add("bytes_swept[%s]" % variant, int(res.tline[1]))
        part["extra"]["need %s/%s" % (variant, name)] = "maxuse_arena=%s sweep 0..%s" % (res.tline[0], res.tline[1])
    if shard == 0 and summ:
        part.add("stage_boundaries[%s]" % variant, len(tab))
        if variant == "asan":
            part["extra"]["stages %s/%s" % (variant, name)] = (
                "%d timer calls per step; call: sizes swept (parena at the call .. min(peak of the segment, peak before the "
                "call) + 64): " % summ["ncalls"]
                + ", ".join("%d: %d..%d" % (st["tick"], st["base"], st["base"] + (st["n"] - 1) * stride) for st in tab if st["n"]))
    npts = nstaged = 0
    for cls, n in res.hist.items():
        if cls.startswith("(fresh"):
            part.add("fresh_mjdata_crosschecks", n)
        elif cls.startswith("@"):
            nstaged += n
            part.add("outcome[%s staged] %s" % (variant, cls[1:]), n)
        else:
            npts += n
            part.add("outcome[%s] %s" % (variant, cls), n)
    ncrash_staged = sum(1 for pt, _ in res.crashes if pt >= STAGED_BASE)
    part["evaluations"] += npts + nstaged + len(res.crashes)
    part["nontrivial_count"] += res.nontrivial + len(res.crashes)
    part.add("points[%s]" % variant, npts + len(res.crashes) - ncrash_staged)
    part.add("points[%s staged]" % variant, nstaged + ncrash_staged)
    if res.skipped:
        part.add("skipped_inside_crash_window[%s]" % variant, res.skipped)
        part["capped"] = True
    for cls in sorted(res.first, key=lambda c: res.first[c]):
        if not cls.startswith("(") and (cls.startswith(("W[", "@W[")) or shard == 0) and len(part["samples"]) < 2:
            part["samples"].append(dict(where(res.first[cls])[0], scenario=name, variant=variant, outcome=cls.lstrip("@")))
    rep = dict(scenario=name, variant=variant, nstep=nstep, xml=open(xmlpath).read())
    for f, n, l, key, what in res.viol:
        ck = _canon_violation(key, what, objs)
        part.violation(ck, "%s [%s] %s: %s (%d fault points, %s .. %s, in this shard)" % (
            name, variant, key, what, n, where(f)[1], where(l)[1]), dict(rep, **where(f)[0]))
        part.add("violating_points", n)
    seen = set()
    for pt, rest in res.crashes:
        ck, kind, fn = _canon_crash(rest, objs)
        part.add("crash_points[%s%s]" % (variant, " staged" if pt >= STAGED_BASE else ""), 1)
        if ck in seen:
            continue
        seen.add(ck)
        part.violation(ck, "%s [%s] %s: process died with %s in %s (%s)" % (name, variant, where(pt)[1], kind, fn, rest[:300]),
                       dict(rep, **where(pt)[0]))
    return part


def _chunk(chunk):
    total = core.Part()
    ctx = core.Ctx("C20", "quick", 0, LEVEL)
    ctx.max_samples = 4
    for job in chunk:
        ctx.merge(_job(job))
    total["evaluations"] = ctx.evaluations
    total["nontrivial_count"] = ctx.nontrivial_extra
    total["samples"] = ctx.samples[:2]
    total["violations"] = [{"key": k, "what": w, "replay": r} for k, w, r in ctx.violations]
    total["extra"] = ctx.extra
    total["capped"] = not ctx.exhaustive
    return total


def _measure(args):
    exe, xmlpath, nstep = args
    res = rx.subprocess.run([exe, xmlpath, "measure", "0", "0", "0", str(nstep)], capture_output=True, text=True,
                            env=rx.env())
    if res.returncode != 0 or not res.stdout.startswith("M "):
        raise RuntimeError("measure failed: %s %s" % (res.stdout, res.stderr[-500:]))
    f = res.stdout.split()
    return dict(N=int(f[1]), ncon=int(f[2]), nefc=int(f[3]), nisland=int(f[4]), staged_bytes=int(f[8]))


def run(ctx):
    nstep = 2
    tmp = tempfile.mkdtemp(prefix="verif_c20_")
    scn = models.scenarios(ctx.thorough)
    exes = {v: build.ensure_exe("c20_arena", ["drivers/c20_arena.cc"], variant=v) for v in ("asan", "rel")}
    paths = {}
    for i, (name, xml) in enumerate(scn):
        p = os.path.join(tmp, "s%03d.xml" % i)
        with open(p, "w") as fh:
            fh.write(xml)
        paths[name] = p

    # 1. rough size of each scenario (fast production build) to decide the number of shards
    from concurrent.futures import ThreadPoolExecutor
    with ThreadPoolExecutor(max_workers=core.NCPU) as ex:
        meas = list(ex.map(lambda nx: _measure((exes["rel"], paths[nx[0]], nstep)), scn))

    # 2. the sweep.  Step: every arena allocation has size and alignment a multiple of 4 (int, mjtNum, mjContact, mjcPair)
    # and every non-empty stack begins with an 8-aligned mjStackFrame, so the allocation trace is a function of
    # floor(narena/4); thorough verifies this on the small scenarios by running every byte.
    jobs = []
    small = 16000
    for v in exes:
        for (name, _), m in zip(scn, meas):
            stride = 1 if (ctx.thorough and m["N"] <= small) else 4
            cstride = 1 if v == "rel" else ctx.q(16, 4)
            # each job: shard sh of the plain sweep, then shard sh of the staged fault points (second fault dimension)
            nshards = max(1, ((m["N"] + m["staged_bytes"]) // stride) // ctx.q(3000, 6000))
            for sh in range(nshards):
                jobs.append((v, exes[v], paths[name], name, sh, nshards, stride, cstride, nstep))
    core.pmap(ctx, _chunk, jobs, nchunks=len(jobs))
    ctx.extra["scenarios"] = len(scn)
    ctx.rule = (
        "%d scenario models (mixed / spheres / chain with limits+frictionloss+equalities+tendon+sensors / islands / clump of "
        "multi-geom bodies) x cone{pyramidal,elliptic} x island{on,off} x (solver,jacobian) lattice; for each model and each "
        "build (asan, rel) every arena size 0..N+pad in steps of 4 bytes (1 byte for models needing <= %d bytes in thorough), "
        "N = measured maxuse_arena, pad grown (by the driver) until the last 64 sizes are fault-free; %d mj_step + 1 further step per size. "
        "Staged fault points (counted as points[... staged]): for every timer-callback call k of the first step that happens "
        "with an empty stack (stage_boundaries, listed per scenario under 'stages ...'), memory is ample up to call k and "
        "narena = s from there on, for every s (same byte steps) from parena at the call up to min(measured peak of stack + "
        "arena until the next such call, measured peak of everything before the call) + 64; sizes at or above the earlier "
        "peak are the plain sweep again (the earlier stages fit) and are not repeated. "
        "non-trivial = a fault point at which the fault manifested (CONTACTFULL/CNSTRFULL warning, caught mju_error, or crash)"
        % (len(scn), small, nstep))
    ctx.assumptions = [
        "allocation trace depends on narena only through floor(narena/4): sizes and alignments of all arena allocations are "
        "multiples of 4 and every non-empty stack starts with an 8-aligned frame (checked byte-by-byte on small models in thorough)",
        "shrinking d->narena in place inside a larger allocation (tail poisoned / canary-filled) is equivalent to a fresh "
        "mjData with m->narena = narena; cross-checked on every 251st size and at narena = 0",
        "mju_error is turned into a C++ exception by the harness log handler; after a caught error the mjData is reset",
        "staged fault points: at a timer-callback call with pstack = pbase = 0 nothing above parena is in use, so moving the end "
        "of the arena to s >= parena there gives the state of a run with narena = s whose earlier stages fitted; the calls "
        "and the per-segment peaks are those of the recorded ample-memory first step (deterministic: same state, same model)",
        "no thread pool; libccd inert (DESIGN §1)",
    ]
    try:
        for f in os.listdir(tmp):
            os.unlink(os.path.join(tmp, f))
        os.rmdir(tmp)
    except OSError:
        pass


def replay(ctx, path):
    with open(path) as fh:
        r = json.load(fh)["replay"]
    tmp = tempfile.mkdtemp(prefix="verif_c20_")
    p = os.path.join(tmp, "m.xml")
    with open(p, "w") as fh:
        fh.write(r["xml"])
    exe = build.ensure_exe("c20_arena", ["drivers/c20_arena.cc"], variant=r["variant"])
    if r.get("tick") is not None:
        cmd = [exe, p, "stagept", str(r["tick"]), str(r["narena"]), "1", str(r.get("nstep", 2)), "0", "1"]
    else:
        cmd = [exe, p, str(r["narena"]), str(r["narena"] + 1), "1", "1", str(r.get("nstep", 2)), "0", "1"]
    res = rx.subprocess.run(cmd, capture_output=True, text=True, env=rx.env(True))
    print(res.stdout)
    print(res.stderr[-3000:])
    return 1 if ("CRASH" in res.stdout or "\nV " in "\n" + res.stdout) else 0
