"""C11 Constraint forces are admissible.

Exhaustive over the shared constraint-mix lattice (mc/checks/_c09_models.py): every non-empty subset of
{equality(connect|weld|joint), friction loss, joint limit, tendon limit, contact condim 1/3/4/6} (511 mixes) on a small
host model x cone/impratio x state lattice (contacts penetrating / touching / within margin, limits violated / inside
margin / inactive, configuration, velocity pattern) x solver {Newton, CG, PGS} x noslip {off, on} x iterations
{2 (unconverged iterate), full} x jacobian {dense, sparse} x islands {on, off}.

Oracles after mj_forward (admissibility is an invariant of every iterate, so no convergence gate is needed):
  * per row type (efc_type): |f| <= frictionloss; limit / frictionless contact / pyramid edge >= 0; elliptic contact
    f_N >= 0 and f_N >= sqrt(sum (f_j/mu_j)^2) with the per-direction coefficients mjContact.friction
    (doc/computation "Friction cones"); equality rows are free;
  * qfrc_constraint == J' efc_force with an own product from the efc_J arrays (dense and CSR layouts);
  * mj_contactForce == decoding of efc_force: elliptic = identity on the first dim entries, pyramidal decoded with an
    independent implementation of the documented edge basis (edge pair k = N +- mu_k T_k), and - independent of any
    decoding convention - the virtual-work identity  sum_rows J_row' f_row == S' w  where S is the contact-frame spatial
    Jacobian built from mj_jac on the two bodies and w the wrench returned by mj_contactForce.
"""
import numpy as np

from .. import core, mj
from . import _c09_models as C

LEVEL = "exploration"
META = dict(
    category=LEVEL,
    technique="exhaustive enumeration of a constraint-mix x cone x state x solver-option lattice; invariants + independent "
              "numpy re-implementation of cone membership, J'f and pyramid decoding",
    text="All 511 non-empty constraint mixes on small host models are driven through every solver / noslip / iteration-cap "
         "/ jacobian-layout / island option at a lattice of contact and limit states; after each mj_forward every row of "
         "efc_force is tested against its admissible set, qfrc_constraint against an own J'f and mj_contactForce against an "
         "independent decoding and a virtual-work identity. Exhaustive over the lattice: a projection or scatter error that "
         "needs one particular row mix / solver path cannot hide.",
    note="Contacts are sphere-sphere / sphere-plane with explicit <pair> (anisotropic friction); no adhesion (with adhesion "
         "mj_contactForce reports efc_force minus the adhesive pull, which is outside the statement). Tolerance 1e-9 x "
         "force scale (observed noise <= 1e-13). Trusted: mj_jac (C07) for the virtual-work identity.",
    design_ref="DESIGN.md §3 C11")

TOL = 1e-9
ENBL_DIAGEXACT = 1 << 5
SOLVER_NAME = {C.SOL_PGS: "PGS", C.SOL_CG: "CG", C.SOL_NEWTON: "Newton"}
CONE_NAME = {C.CONE_PYRAMIDAL: "pyramidal", C.CONE_ELLIPTIC: "elliptic"}


def decode_pyramid(p, mu, dim):
    """Documented pyramid basis: edges 2k, 2k+1 are N + mu_k T_k and N - mu_k T_k."""
    w = np.zeros(6)
    if dim == 1:
        w[0] = p[0]
        return w
    for k in range(dim - 1):
        w[0] += p[2 * k] + p[2 * k + 1]
        w[1 + k] = mu[k] * (p[2 * k] - p[2 * k + 1])
    return w


QCQP_KEY = ("noslip elliptic: QCQP reports an infeasible unconstrained friction solution as inactive, so it is not projected "
            "onto the friction ellipsoid")
QCQP_NOTE = ("mju_QCQP* leave the Newton iteration with la == 0 when the first multiplier update is < 1e-10 (tiny A after R is "
             "subtracted in noslip) although val = |x|^2 - r^2 > 0; solveQCQP then skips projectEllipsoid")


def noslip_unconstrained_outside(lib, m, d, f, i, dim, mu):
    """Diagnosis of one root cause (one canonical key).  At the returned forces, rebuild the noslip friction sub-problem of
    the elliptic contact starting at row i (normal fixed, R removed): A_TT = (J M^-1 J')_TT, bc = b_T + (A f)_T - A_TT f_T.
    If the returned f_T is the *unconstrained* minimiser -A_TT^-1 bc, the QCQP was treated as inactive."""
    P = C.Problem(lib, m, d)
    A = P.J @ np.linalg.solve(P.M, P.J.T)
    b = P.J @ P.a0 - P.aref
    T = slice(i + 1, i + dim)
    ATT = np.array(A[T, T])
    for k in range(dim - 1):
        ATT[k, k] = max(1e-10, ATT[k, k])
    bc = b[T] + A[T, :] @ f - ATT @ f[T]
    try:
        x = -np.linalg.solve(ATT, bc)
    except np.linalg.LinAlgError:
        return None
    rel = float(np.abs(x - f[T]).max() / max(1e-300, np.abs(f[T]).max()))
    if rel <= 1e-6:
        return {"cone_first_row": int(i), "dim": int(dim), "rel_diff_to_unconstrained": rel,
                "efc_force_block": f[i:i + dim].tolist()}
    return None


def check_forces(lib, host, part, desc, replay):
    """All C11 oracles on the current mjData.  desc: (cone, solver, noslip) names for the violation key."""
    m, d = host.m, host.d
    nefc, nv = int(d.nefc), m.nv
    if nefc == 0:
        return False
    f = np.array(d.efc_force[:nefc])
    typ = np.array(d.efc_type[:nefc])
    ids = np.array(d.efc_id[:nefc])
    floss = np.array(d.efc_frictionloss[:nefc])
    cone, solver, noslip = desc
    tag = "cone=%s solver=%s noslip=%s" % (cone, solver, noslip)

    def bad(what, detail):
        C.report(part, "%s | %s" % (what, tag), "%s: %s (%s; mix=%s eq=%s skel=%s)" % (
            what, detail, tag, "+".join(host.atoms), host.eqkind, host.skel), replay)
    if not np.all(np.isfinite(f)):
        bad("efc_force not finite", "nan/inf in efc_force")
        return True
    scale = max(1.0, float(np.abs(f).max()))
    tol = TOL * scale
    # ---- row-type admissibility
    fr = (typ == C.CNSTR_FRICTION_DOF) | (typ == C.CNSTR_FRICTION_TENDON)
    if fr.any():
        ex = np.abs(f[fr]) - floss[fr]
        if ex.max() > tol:
            bad("friction-loss force exceeds frictionloss", "|f|-eta = %.3g" % ex.max())
    nn = ((typ == C.CNSTR_LIMIT_JOINT) | (typ == C.CNSTR_LIMIT_TENDON) | (typ == C.CNSTR_CONTACT_FRICTIONLESS)
          | (typ == C.CNSTR_CONTACT_PYRAMIDAL))
    if nn.any() and f[nn].min() < -tol:
        worst = int(np.where(nn)[0][np.argmin(f[nn])])
        bad("negative %s force" % {3: "joint-limit", 4: "tendon-limit", 5: "frictionless-contact", 6: "pyramid-edge"}[int(typ[worst])],
            "f = %.3g" % f[worst])
    con = d.contact
    i = 0
    while i < nefc:
        if typ[i] == C.CNSTR_CONTACT_ELLIPTIC:
            c = con[int(ids[i])]
            dim = int(c["dim"])
            mu = np.array(c["friction"][:dim - 1])
            fn = f[i]
            ft = float(np.sqrt(np.sum((f[i + 1:i + dim] / mu) ** 2)))
            if fn < -tol:
                bad("elliptic normal force negative", "f_N = %.3g (dim %d)" % (fn, dim))
            elif ft > fn + tol:
                diag = noslip_unconstrained_outside(lib, m, d, f, i, dim, mu) if noslip == "on" else None
                if diag is not None:
                    rp = dict(replay)
                    rp.update(diag)
                    rp["minimal_note"] = QCQP_NOTE
                    C.report(part, QCQP_KEY, "noslip, elliptic condim %d: returned friction = unconstrained minimiser of the noslip "
                             "sub-problem (rel diff %.2g), which lies outside the ellipsoid: sqrt(sum (f_j/mu_j)^2) - f_N = %.3g "
                             "(f_N = %.6g, rel %.2g; %s; mix=%s eq=%s skel=%s)" % (
                                 dim, diag["rel_diff_to_unconstrained"], ft - fn, fn, (ft - fn) / max(fn, 1e-300), tag,
                                 "+".join(host.atoms), host.eqkind, host.skel), rp)
                    part.add("noslip_qcqp_inactive_outside")
                else:
                    bad("elliptic friction outside cone", "sqrt(sum (f_j/mu_j)^2) - f_N = %.3g (dim %d)" % (ft - fn, dim))
            i += dim
        else:
            i += 1
    # ---- qfrc_constraint == J' f
    J = C.dense_J(m, d)
    qf = J.T @ f
    qscale = max(1.0, float((np.abs(J).T @ np.abs(f)).max()))
    e = float(np.abs(qf - np.array(d.qfrc_constraint)).max()) / qscale
    if not e <= TOL:
        bad("qfrc_constraint != J' efc_force", "rel err %.3g (jacobian=%s islands=%d)" % (e, "sparse" if m.opt.jacobian else "dense", int(d.nisland)))
    # ---- mj_contactForce
    pyramidal = m.opt.cone == C.CONE_PYRAMIDAL
    jp1, jr1, jp2, jr2 = (np.zeros((3, nv)) for _ in range(4))
    res = np.zeros(6)
    for ci in range(len(con)):
        c = con[ci]
        adr = int(c["efc_address"])
        lib.mj_contactForce(m, d, ci, res)
        if adr < 0:
            if np.any(res):
                bad("mj_contactForce nonzero for excluded contact", "contact %d" % ci)
            continue
        dim = int(c["dim"])
        mu = np.array(c["friction"])
        nrow = dim if (not pyramidal or dim == 1) else 2 * (dim - 1)
        fc = f[adr:adr + nrow]
        if pyramidal:
            want = decode_pyramid(fc, mu, dim)
        else:
            want = np.zeros(6)
            want[:dim] = fc
        cs = max(1.0, float(np.abs(fc).max()))
        if float(np.abs(res - want).max()) > TOL * cs:
            bad("mj_contactForce != decoded efc_force", "condim %d: got %s want %s" % (dim, res.tolist(), want.tolist()))
        # virtual work: J_rows' f_rows == S' w
        b1 = int(m.geom_bodyid[int(c["geom"][0])])
        b2 = int(m.geom_bodyid[int(c["geom"][1])])
        pos = np.ascontiguousarray(c["pos"])
        lib.mj_jac(m, d, jp1, jr1, pos, b1)
        lib.mj_jac(m, d, jp2, jr2, pos, b2)
        F = np.array(c["frame"]).reshape(3, 3)
        St = F @ (jp2 - jp1)
        Sr = F @ (jr2 - jr1)
        lhs = J[adr:adr + nrow].T @ fc
        rhs = St.T @ res[:3] + Sr.T @ res[3:]
        vs = max(1.0, float((np.abs(J[adr:adr + nrow]).T @ np.abs(fc)).max()))
        if float(np.abs(lhs - rhs).max()) > TOL * vs:
            bad("mj_contactForce wrench inconsistent with the contact rows (virtual work)",
                "condim %d: max |J'f - S'w| = %.3g" % (dim, float(np.abs(lhs - rhs).max())))
    return bool(np.any(f != 0))


def _chunk(chunk):
    lib = mj.load()
    part = core.Part()
    for skel, mi, atoms, eqkind, tier in chunk:
        thorough = tier == "thorough"
        try:
            host = C.Host(lib, skel, atoms, eqkind)
        except mj.MjError as e:
            C.report(part, "host model does not compile", "skel=%s mix=%s eq=%s: %s" % (skel, atoms, eqkind, e),
                           {"skel": skel, "atoms": atoms, "eq": eqkind})
            continue
        cones = ([(C.CONE_PYRAMIDAL, 1.0), (C.CONE_PYRAMIDAL, 4.0), (C.CONE_ELLIPTIC, 1.0), (C.CONE_ELLIPTIC, 4.0)]
                 if thorough else [(C.CONE_PYRAMIDAL, 1.0), (C.CONE_ELLIPTIC, 4.0)])
        states = host.state_space(nq=2, nvel=3) if thorough else [s for s in host.state_space(nq=2, nvel=3) if s[0] == 1 and s[1] != 0]
        sub = tier == "noslipsub"
        if sub:
            # quick-tier sub-lattice for the noslip post-processing of elliptic cones (QCQP per contact): all skeletons, ALL states,
            # both impratio values, every solver, but only noslip on / 2 main iterations / dense / islands on
            cones = [(C.CONE_ELLIPTIC, 1.0), (C.CONE_ELLIPTIC, 4.0)]
            states = host.state_space(nq=2, nvel=3)
        for st in states:
            info = host.apply_state(st)          # state lives in (m, d); options below do not touch it
            first = True
            for cone, impratio in cones:
                for solver in (C.SOL_NEWTON, C.SOL_CG, C.SOL_PGS):
                    for noslip in ((3,) if sub else (0, 3)):
                        for iters in ((2,) if sub else (2, 100)):
                            for jac in ((C.JAC_DENSE,) if sub else (C.JAC_DENSE, C.JAC_SPARSE)):
                                # (island, diagexact): the exact-diagonal option re-derives R/D after island discovery, so it is
                                # crossed with islands on (full iterations only; the 2-iteration iterate adds nothing new there)
                                for island, diag in (((True, 0),) if sub else ((True, 0), (False, 0)) + (((True, 1),) if iters == 100 else ())):
                                    host.set_options(cone=cone, impratio=impratio, solver=solver, noslip=noslip,
                                                     iterations=iters, jacobian=jac, island=island, tolerance=1e-10,
                                                     enable=ENBL_DIAGEXACT if diag else 0)
                                    replay = {"skel": skel, "atoms": atoms, "eq": eqkind, "state": st, "cone": cone,
                                              "impratio": impratio, "solver": solver, "noslip": noslip, "diagexact": diag,
                                              "iterations": iters, "jacobian": jac, "island": island, "xml": host.xml}
                                    try:
                                        lib.mj_forward(host.m, host.d)
                                    except mj.MjError as e:
                                        C.report(part, "engine error | solver=%s" % SOLVER_NAME[solver],
                                                       "mju_error in mj_forward: %s" % e, replay)
                                        host.d.free()
                                        host.d = lib.make_data(host.m)
                                        info = host.apply_state(st)
                                        continue
                                    if first:
                                        err = host.selfcheck_state(info)
                                        if err:
                                            raise RuntimeError("lattice self-check failed: %s %s %s %s" % (skel, atoms, st, err))
                                        first = False
                                    active = check_forces(lib, host, part,
                                                          (CONE_NAME[cone], SOLVER_NAME[solver], "on" if noslip else "off"), replay)
                                    key = (skel, mi, cone, impratio, st) if active else None
                                    part.count(1, key=key, sample=({"skel": skel, "atoms": atoms, "eq": eqkind, "state": st,
                                                                    "cone": CONE_NAME[cone], "nefc": int(host.d.nefc)}
                                                                   if active and solver == C.SOL_PGS and noslip and mi % 97 == 0 else None))
                                    if int(host.d.nisland) > 1:
                                        part.add("runs_with_2plus_islands")
                                    if diag:
                                        part.add("runs_with_diagexact")
                                    if noslip:
                                        part.add("runs_with_noslip")
                                    if sub:
                                        part.add("runs_in_noslip_sublattice")
        host.free()
    return part


def run(ctx):
    mj.load()
    skels = ["S0", "S1", "S2"] if ctx.thorough else ["S0"]
    mixes = C.mixes()
    items = [(s, i, a, e, ctx.tier) for s in skels for i, (a, e) in enumerate(mixes)]
    if not ctx.thorough:
        items += [(s, i, a, e, "noslipsub") for s in ("S0", "S1", "S2") for i, (a, e) in enumerate(mixes)
                  if any(x in ("C4", "C6") for x in a)]
    core.pmap(ctx, _chunk, items, nchunks=min(len(items), core.NCPU * 6))
    ctx.extra["models"] = len(items)
    ctx.extra["mixes"] = len(mixes)
    ctx.rule = ("skeleton %s x all 511 non-empty subsets of {E(connect|weld|joint),F,L,T,C1,C3,C4,C6} x cone/impratio %s x "
                "state lattice (contact k at dist %s rotated by cs, limit k at %s rotated by ls, %s) x solver{Newton,CG,PGS} x "
                "noslip{0,3} x iterations{2,100} x jacobian{dense,sparse} x {island on, island off, island on + diagexact (full "
                "iterations)}; quick adds the noslip sub-lattice (skeletons S0-S2 x mixes with a condim 4/6 contact x ALL states x elliptic "
                "impratio {1,4} x solvers x noslip on, 2 iterations, dense, islands); evaluation = one mj_forward with all "
                "oracles; non-trivial = distinct (skeleton, mix, cone, impratio, state) with a non-zero constraint force"
                % (skels, "{pyr,ell}x{1,4}" if ctx.thorough else "{pyr/1, ell/4}", C.CONTACT_DIST, C.LIMIT_STATE_NAME,
                   "2 configurations x 3 velocity patterns" if ctx.thorough else "bent configuration x 2 non-zero velocity patterns"))
    ctx.assumptions = ["cone membership, J'f and pyramid decoding re-implemented in numpy from doc/computation",
                       "mj_jac trusted for the virtual-work identity (C07)", "no adhesive contacts in the lattice",
                       "tolerance 1e-9 x max(1, |f|max)"]


def replay(ctx, path):
    """./check C11 --replay <file>: re-run the recorded (model, state, options)."""
    import json
    r = json.load(open(path))["replay"]
    lib = mj.load()
    host = C.Host(lib, r["skel"], tuple(r["atoms"]), r["eq"])
    part = core.Part()
    host.apply_state(tuple(r["state"]))
    host.set_options(cone=int(r["cone"]), impratio=float(r["impratio"]), solver=int(r["solver"]), noslip=int(r["noslip"]),
                     iterations=int(r["iterations"]), jacobian=int(r["jacobian"]), island=bool(r["island"]), tolerance=1e-10,
                     enable=ENBL_DIAGEXACT if r.get("diagexact") else 0)
    lib.mj_forward(host.m, host.d)
    check_forces(lib, host, part, (CONE_NAME[int(r["cone"])], SOLVER_NAME[int(r["solver"])], "on" if r["noslip"] else "off"), r)
    for v in part["violations"]:
        print("VIOLATION-REPLAY %s\n  %s" % (v["key"], v["what"]))
    print("replay: %d violations" % len(part["violations"]))
    return 1 if part["violations"] else 0
