"""C48 System-identification signal transforms are pure.

Exhaustive: every time-series shape of a small menu (T in {1,2,5}, D in {1,3},
uniform / non-uniform decimal times, contiguous / interleaved signal mapping) x
every chain of <= 3 modifier calls from a finite alphabet (bias, gain, delay,
time window, delayed window, resample-and-delay, TimeSeries.resample linear /
zero-order-hold, SignalTransform.apply; each with a menu of sensors, values,
delays {0, half a sample, one sample, beyond range, negative}, windows and
target times) through the tree's sysid/_src/{signal_modifier, timeseries,
signal_transform}.py.  Chains are explored as a tree, each call feeds on the
result of the previous one.

Oracle after *every* call
  * every series created so far on the chain (the original and all
    intermediate results) and every array argument is bit-identical to the
    snapshot taken when it was created (a result may be a view -- slicing is
    allowed -- what is caught is a later write through it);
  * bias / gain / window results equal the definition exactly; delay and
    resampling equal a plain reference interpolation to a few ulp;
  * grouped per-sensor-delay resampling == column-by-column resampling exactly;
  * resampling at the original timestamps returns the data (few ulp);
  * linear interpolation stays within [min, max] of the neighbouring samples;
    zero-order hold returns an existing sample (exactly).
"""
from __future__ import annotations

import warnings

import numpy as np

from .. import core
from .C47 import tree_sysid

LEVEL = "exploration"
META = dict(
    category=LEVEL,
    technique="exhaustive enumeration of (series shape x all modifier chains of length <= 3 over a finite alphabet), explored "
              "as a call tree; snapshot comparison of every live series after every call; reference interpolation",
    text="12 series shapes x every chain of up to 3 calls over an alphabet of 21 / 31 (D=1 / D=3; thorough 37 / 51) "
         "modifier instances (~10k / ~31k calls per shape, thorough ~52k / ~135k). Purity is decided by bit-comparison of all series and array arguments alive on "
         "the chain after each call, so a write through an uncopied array or through a view returned by an earlier call "
         "is caught at the call that performs it. Functional oracles (definition of bias/gain/window, reference linear "
         "interpolation, column-by-column resampling, hold) run on every call. Exhaustive within the alphabet; aliasing "
         "bugs need a specific caller pattern (reuse of the input after the call, or a chain through a view) which the "
         "chain enumeration provides by construction.",
    note="Trusted base: numpy, scipy.interpolate.interp1d (called by the tree code; compared against a plain reference "
         "to a few ulp). Tree modules imported by file path assertion; mujoco.sysid package stubbed (jinja2 report package "
         "absent), colorama/tabulate/yaml stubbed. SignalTransform.apply is driven with model=None (no sensor weights / "
         "enabled-sensor slicing). Cubic/quadratic/quintic interpolation kinds are not enumerated.",
    design_ref="DESIGN.md §3 C48")

ULP = 16 * np.finfo(np.float64).eps     # "a few ulp": relative slack for interpolation comparisons (of the column scale)

DEC = (0.1, -0.3, 0.7, 1.1, -2.3, 0.2, 5.0, -0.7, 0.0, 1000.0, 0.001, -0.1, 0.3)
NONUNIFORM = (0.0, 0.1, 0.25, 0.7, 1.3)

KEY_NAN1 = "TimeSeries.interpolate: NaN for a single-sample series (linear)"
KEY_GROUP = "apply_resample_and_delay: grouped result differs from column-by-column resampling"
KEY_RANGE = "TimeSeries.interpolate: linear result outside the range of the neighbouring samples"
KEY_ZOH = "TimeSeries.interpolate: zero-order hold does not return the held sample"
KEY_ORIG = "TimeSeries.resample: resampling at the original timestamps does not return the data"

_M = {}


def mods():
    if not _M:
        _M["ts"] = tree_sysid("timeseries")
        _M["sm"] = tree_sysid("signal_modifier")
        _M["st"] = tree_sysid("signal_transform")
        _M["pm"] = tree_sysid("parameter")
    return _M


# ------------------------------------------------------------------ shapes
def shapes():
    out, seen = [], set()
    for T in (1, 2, 5):
        for kind in ("uniform", "nonuniform"):
            times = tuple(0.1 * k for k in range(T)) if kind == "uniform" else NONUNIFORM[:T]
            for D, mk in ((1, "single"), (3, "contig"), (3, "split"), (4, "inter")):
                if mk == "inter" and T == 1:
                    continue
                if (times, D, mk) in seen:
                    continue
                seen.add((times, D, mk))
                out.append((T, kind, D, mk))
    return out


def make_series(shape):
    T, kind, D, mk = shape
    M = mods()
    times = np.array([0.1 * k for k in range(T)] if kind == "uniform" else NONUNIFORM[:T], dtype=np.float64)
    data = np.array([[DEC[(3 * t + 5 * j + (7 if kind != "uniform" else 0)) % len(DEC)] for j in range(D)] for t in range(T)],
                    dtype=np.float64)
    ty = M["ts"].SignalType.CustomObs
    if mk == "single":
        mp = {"a": (ty, np.array([0]))}
    elif mk == "contig":
        mp = {"a": (ty, np.array([0])), "b": (ty, np.array([1, 2]))}
    elif mk == "split":
        mp = {"a": (ty, np.array([0, 2])), "b": (ty, np.array([1]))}
    else:
        # interleaved sensors (pos, torque, pos, torque): two delay groups whose column ranges overlap
        mp = {"a": (ty, np.array([0, 2])), "b": (ty, np.array([1, 3]))}
    return M["ts"].TimeSeries(times, data, mp)


# ------------------------------------------------------------------ alphabet
def alphabet(shape, thorough):
    T, kind, D, mk = shape
    names = ["a"] if D == 1 else ["a", "b"]
    ops = []
    for n in names:
        ops.append(("bias", n, 0.25))
        ops.append(("gain", n, -2.0))
        if thorough:
            ops.append(("bias", n, -1.5))
            ops.append(("gain", n, 0.5))
        for dl in (0.0, 0.05, 0.1, 10.0) + ((-0.05, 0.03) if thorough else ()):
            ops.append(("delay", n, dl))
    ops += [("window", "first_last"), ("window", "inner"), ("window", "all")]
    if thorough:
        ops += [("window", "empty"), ("window", "single")]
    ops += [("dwindow", 0.0, 0.0), ("dwindow", -0.05, 0.05)]
    for tk in ("orig", "mid"):
        for dd in (0.0, 0.05):
            for sd in (None, "a") + (("last",) if D > 1 else ()):
                if not thorough and tk == "mid" and dd == 0.05 and sd is None:
                    continue
                ops.append(("rad", tk, dd, sd, True))
    if thorough:
        ops += [("rad", "orig", 0.05, "a", False), ("rad", "mid", 0.0, "a", False), ("rad", "knots_mid", 0.05, "a", True)]
    # hold must be queried AT the sample times too (side="right" matters only there)
    ops += [("resample", "orig", "linear"), ("resample", "knots_mid", "zoh")]
    if thorough:
        ops += [("resample", "mid", "linear"), ("resample", "orig", "zoh"), ("resample", "mid", "zoh"),
                ("resample", "knots_mid", "linear"), ("resample", "dt", "linear")]
    ops += [("transform", "delay_gain_bias")]
    if thorough:
        ops += [("transform", "gain_only")]
    return ops


# ------------------------------------------------------------------ reference interpolation
def target_times(times, kind):
    if kind == "orig":
        return times.copy()
    mids = 0.5 * times[:-1] + 0.5 * times[1:]
    ext = np.concatenate([[times[0] - 0.05], mids, [times[-1] + 0.05]])
    if kind == "mid":
        return ext
    if kind == "knots_mid":
        return np.unique(np.concatenate([ext, times]))
    raise ValueError(kind)


def ref_linear(times, col, q):
    """-> (value, lo, hi): plain linear interpolation with constant extension, and the neighbouring-sample range."""
    T = len(times)
    if T == 1 or q <= times[0]:
        return col[0], col[0], col[0]
    if q >= times[-1]:
        return col[-1], col[-1], col[-1]
    k = int(np.searchsorted(times, q, side="right")) - 1
    k = min(max(k, 0), T - 2)
    t0, t1, y0, y1 = times[k], times[k + 1], col[k], col[k + 1]
    return y0 + (y1 - y0) * ((q - t0) / (t1 - t0)), min(y0, y1), max(y0, y1)


def check_linear(what, part, rep, times, data, cols, queries_per_col, got, opname):
    """got[:, c] must be the linear interpolation of data[:, cols[c]] at queries_per_col[c]."""
    for c, j in enumerate(cols):
        col = data[:, j]
        scale = float(np.max(np.abs(col)))
        slack = ULP * max(scale, np.finfo(float).tiny)
        for r, q in enumerate(queries_per_col[c]):
            v, q = float(got[r, c]), float(q)
            ref, lo, hi = (float(x) for x in ref_linear(times, col, q))
            part.add("interpolated_values_checked")
            if not np.isfinite(v):
                if len(times) == 1:
                    part.violation(KEY_NAN1, "%s: value %r at t=%r for the single-sample series times=%s data=%s (expected %r)"
                                   % (what, v, q, times.tolist(), col.tolist(), ref), rep)
                else:
                    part.violation("%s: non-finite interpolated value" % opname, "%s: value %r at t=%r" % (what, v, q), rep)
                return False
            if not (lo - slack <= v <= hi + slack):
                part.violation(KEY_RANGE, "%s: value %r at t=%r is outside [%r, %r] of the neighbouring samples (times=%s column=%s)"
                               % (what, v, q, lo, hi, times.tolist(), col.tolist()), rep)
                return False
            if not abs(v - ref) <= slack:
                part.violation("%s: differs from reference linear interpolation" % opname,
                               "%s: value %r at t=%r, reference %r (|diff| %.3g > %.3g; times=%s column=%s)"
                               % (what, v, q, ref, abs(v - ref), slack, times.tolist(), col.tolist()), rep)
                return False
    return True


# ------------------------------------------------------------------ pool of live series
class Entry:
    __slots__ = ("ts", "times", "data", "map", "label")

    def __init__(self, ts, label):
        self.ts = ts
        self.label = label
        self.times = np.array(ts.times, copy=True)
        self.data = np.array(ts.data, copy=True)
        self.map = None if ts.signal_mapping is None else {k: np.array(v[1], copy=True) for k, v in ts.signal_mapping.items()}

    def changed(self):
        ts = self.ts
        if ts.times.shape != self.times.shape or not np.array_equal(ts.times, self.times, equal_nan=True):
            return "times"
        if ts.data.shape != self.data.shape or not np.array_equal(ts.data, self.data, equal_nan=True):
            return "data"
        if self.map is not None:
            if ts.signal_mapping is None or set(ts.signal_mapping) != set(self.map):
                return "signal_mapping"
            for k, v in self.map.items():
                if not np.array_equal(np.asarray(ts.signal_mapping[k][1]), v):
                    return "signal_mapping"
        return None

    def restore(self):
        """undo an impure write so that sibling chains are explored from the recorded state"""
        if self.ts.times.shape == self.times.shape and self.ts.times.flags.writeable:
            self.ts.times[...] = self.times
        if self.ts.data.shape == self.data.shape and self.ts.data.flags.writeable:
            self.ts.data[...] = self.data
        if self.map is not None and self.ts.signal_mapping is not None:
            for k, v in self.map.items():
                if k in self.ts.signal_mapping and np.asarray(self.ts.signal_mapping[k][1]).shape == v.shape:
                    np.asarray(self.ts.signal_mapping[k][1])[...] = v


OPNAME = {"bias": "apply_bias", "gain": "apply_gain", "delay": "apply_delay", "window": "apply_time_window",
          "dwindow": "apply_delayed_ts_window", "rad": "apply_resample_and_delay", "resample": "TimeSeries.resample",
          "transform": "SignalTransform.apply"}


def call_op(op, cur, pool, part, rep):
    """Run one modifier on series `cur` (an Entry).  Returns (list of new TimeSeries [main first], args dict of arrays that
    must stay unchanged, functional-check closure or None).  Raises whatever the tree code raises."""
    M = mods()
    sm, pm, st, TS = M["sm"], M["pm"], M["st"], M["ts"].TimeSeries
    kind = op[0]
    ts = cur.ts
    times0, data0 = cur.times, cur.data          # trusted pre-call snapshots
    T, D = data0.shape
    if kind in ("bias", "gain"):
        p = pm.Parameter(kind, [op[2]], [-10.0], [10.0])
        out = (sm.apply_bias if kind == "bias" else sm.apply_gain)(ts, op[1], p)
        idx = cur.map[op[1]]

        def fn():
            exp = data0.copy()
            if kind == "bias":
                exp[:, idx] = data0[:, idx] + op[2]
            else:
                exp[:, idx] = data0[:, idx] * op[2]
            if not (np.array_equal(out.data, exp, equal_nan=True) and np.array_equal(out.times, times0)):
                part.violation("%s: wrong result" % OPNAME[kind], "%s(%s, %r) gave %s, expected %s" % (OPNAME[kind], op[1], op[2],
                                                                                                       out.data.tolist(), exp.tolist()), rep)
        return [out], {"param.value": (p.value, np.array([op[2]])), "param.nominal": (p.nominal, np.array([op[2]]))}, fn
    if kind == "delay":
        p = pm.Parameter("delay", [op[2]], [-1.0], [20.0])
        out = sm.apply_delay(ts, op[1], p)
        idx = cur.map[op[1]]

        def fn():
            others = [j for j in range(D) if j not in set(idx.tolist())]
            if not (np.array_equal(out.data[:, others], data0[:, others], equal_nan=True) and np.array_equal(out.times, times0)):
                part.violation("apply_delay: wrong result", "columns other than %s changed or times changed" % idx.tolist(), rep)
                return
            q = times0 - op[2]
            check_linear("apply_delay(%s, %r)" % (op[1], op[2]), part, rep, times0, data0, idx.tolist(), [q] * len(idx),
                         out.data[:, idx], "apply_delay")
        return [out], {"param.value": (p.value, np.array([op[2]]))}, fn
    if kind == "window":
        if op[1] == "first_last":
            lo, hi = float(times0[0]), float(times0[-1])
        elif op[1] == "inner":
            lo, hi = float(times0[0]) + 0.03, float(times0[-1]) - 0.03
        elif op[1] == "all":
            lo, hi = -1.0, 100.0
        elif op[1] == "empty":
            lo, hi = 100.0, 200.0
        else:
            lo = hi = float(times0[min(1, T - 1)])
        out = sm.apply_time_window(ts, lo, hi)

        def fn():
            keep = (times0 >= lo) & (times0 <= hi)
            if not (np.array_equal(out.times, times0[keep]) and np.array_equal(out.data, data0[keep], equal_nan=True)):
                part.violation("apply_time_window: wrong result", "window [%r, %r] of times %s gave times %s" % (lo, hi, times0.tolist(),
                                                                                                               out.times.tolist()), rep)
        return [out], {}, fn
    if kind == "dwindow":
        other = pool[0]
        out = sm.apply_delayed_ts_window(ts, other.ts, op[1], op[2])

        def fn():
            lo, hi = other.times[0] - op[1], other.times[-1] - op[2]
            keep = (times0 >= lo) & (times0 <= hi)
            if not (np.array_equal(out.times, times0[keep]) and np.array_equal(out.data, data0[keep], equal_nan=True)):
                part.violation("apply_delayed_ts_window: wrong result", "delays (%r, %r): times %s -> %s" % (op[1], op[2], times0.tolist(),
                                                                                                          out.times.tolist()), rep)
        return [out], {}, fn
    if kind == "rad":
        _, tk, dd, sd, predicted = op
        tt = target_times(times0, tk)
        names = list(cur.map)
        sdict = None if sd is None else {(names[-1] if sd == "last" else sd): 0.1}
        if sdict is not None and sd == "last" and len(names) > 1:
            sdict = {names[0]: dd, names[-1]: 0.1}     # first sensor explicitly at the default: must group with the default
        sdict_in = None if sdict is None else dict(sdict)
        tt_in = tt.copy()
        out = sm.apply_resample_and_delay(ts, tt, dd, sensor_delays=sdict, predicted_data=predicted)

        def fn():
            if sdict != sdict_in:
                part.violation("apply_resample_and_delay mutates its arguments", "sensor_delays changed to %r" % (sdict,), rep)
            delays = [dd] * D
            for n, v in (sdict_in or {}).items():
                for j in cur.map[n]:
                    delays[int(j)] = v
            if predicted:
                delays = [-v for v in delays]
            if out.data.shape != (len(tt_in), D) or not np.array_equal(out.times, tt_in):
                part.violation("apply_resample_and_delay: wrong result", "shape %s / times %s" % (out.data.shape, out.times.tolist()), rep)
                return
            # column by column through the tree's own resample, on private copies of the snapshot
            colwise = np.empty_like(out.data)
            for j in range(D):
                one = TS(times0.copy(), data0[:, j:j + 1].copy(), None)
                colwise[:, j] = one.resample(tt_in + delays[j]).data[:, 0]
            if not np.array_equal(out.data, colwise, equal_nan=True):
                part.violation(KEY_GROUP, "default_delay=%r sensor_delays=%r predicted=%r target times %s: grouped %s != column-wise %s"
                               % (dd, sdict_in, predicted, tt.tolist(), out.data.tolist(), colwise.tolist()), rep)
                return
            part.add("grouped_vs_columnwise_compared")
            check_linear("apply_resample_and_delay(default=%r, %r, predicted=%r)" % (dd, sdict_in, predicted), part, rep, times0, data0,
                         list(range(D)), [tt_in + delays[j] for j in range(D)], out.data, "apply_resample_and_delay")
        return [out], {"times": (tt, tt_in)}, fn
    if kind == "resample":
        _, tk, method = op
        if tk == "dt":
            tt = None
            out = ts.resample(target_dt=0.07, method=method)
            q = out.times
        else:
            tt = target_times(times0, tk)
            tt_in = tt.copy()
            out = ts.resample(tt, method=method)
            q = tt_in

        def fn():
            if out.data.shape != (len(q), D):
                part.violation("TimeSeries.resample: wrong result", "shape %s for %d target times" % (out.data.shape, len(q)), rep)
                return
            if method == "linear":
                ok = check_linear("resample(%s, linear)" % tk, part, rep, times0, data0, list(range(D)), [q] * D, out.data,
                                  "TimeSeries.resample")
                if ok and tk == "orig":
                    scale = np.max(np.abs(data0), axis=0)
                    part.add("resample_at_original_times")
                    if not np.all(np.abs(out.data - data0) <= ULP * np.maximum(scale, np.finfo(float).tiny)):
                        part.violation(KEY_ORIG, "max |resample(times) - data| = %r" % float(np.max(np.abs(out.data - data0))), rep)
            else:
                for r, t in enumerate(q):
                    k = int(np.searchsorted(times0, t, side="right")) - 1
                    k = min(max(k, 0), T - 1)
                    part.add("hold_values_checked")
                    if not np.array_equal(out.data[r], data0[k], equal_nan=True):
                        part.violation(KEY_ZOH, "zoh at t=%r gave %s, expected sample %d = %s (times %s)"
                                       % (float(t), out.data[r].tolist(), k, data0[k].tolist(), times0.tolist()), rep)
                        return
        return [out], ({} if tt is None else {"new_times": (tt, tt_in)}), fn
    if kind == "transform":
        tr = st.SignalTransform(normalize=False)
        pd = pm.ParameterDict()
        names = list(cur.map)
        ps = {}
        if op[1] == "delay_gain_bias":
            ps["dl"] = pm.Parameter("dl", [0.05], [0.0], [0.1])
            tr.delay(names[-1], ps["dl"])
            ps["g"] = pm.Parameter("g", [2.0], [1.0], [3.0])
            tr.gain("a", ps["g"], target="predicted")
            ps["b"] = pm.Parameter("b", [0.25], [-1.0], [1.0])
            tr.bias("*", ps["b"], target="measured")
        else:
            ps["g"] = pm.Parameter("g", [-2.0], [-3.0], [3.0])
            tr.gain("*", ps["g"], target="both")
        for p in ps.values():
            pd.add(p)
        args = {}
        for k, p in ps.items():
            args[k + ".value"] = (p.value, p.value.copy())
            args[k + ".min"] = (p.min_value, p.min_value.copy())
            args[k + ".max"] = (p.max_value, p.max_value.copy())
        measured = pool[0]
        res, pred, meas = tr.apply(pd, ts, measured.ts, None, True)

        def fn():
            if not (pred.data.shape == meas.data.shape == res.shape and np.array_equal(pred.times, meas.times)):
                part.violation("SignalTransform.apply: wrong result", "shapes %s %s %s" % (pred.data.shape, meas.data.shape, res.shape), rep)
            if np.all(np.isfinite(pred.data)) and not np.array_equal(res, meas.data - pred.data):
                part.violation("SignalTransform.apply: wrong result", "residual is not measured - predicted", rep)
        return [pred, meas], args, fn
    raise ValueError(op)


def describe(entry):
    return {"times": entry.times.tolist(), "data": entry.data.tolist(),
            "signal_mapping": None if entry.map is None else {k: v.tolist() for k, v in entry.map.items()}}


def explore(shape, first_ops, ops, depth_max, part, script=None):
    series0 = make_series(shape)
    pool = [Entry(series0, "original")]
    base = describe(pool[0])

    def rec(cur, chain, todo):
        for op in todo:
            chain2 = chain + [op]
            rep = {"shape": list(shape), "series": base, "chain": [list(o) for o in chain2], "failing_call": len(chain2) - 1,
                   "how": "TimeSeries(times, data, {name: (SignalType.CustomObs, indices)}), then apply the chain; every call takes "
                          "the previous call's result; dwindow/transform use the original series as second series"}
            part.count(1)
            part.add("calls_depth_%d" % len(chain2))
            new, args, fn = [], {}, None
            raised = None
            try:
                with np.errstate(all="ignore"):
                    new, args, fn = call_op(op, cur, pool, part, rep)
            except ValueError as e:
                raised = e
                part.add("rejected_ValueError")
                part.add("rejected: " + "".join(ch for ch in str(e)[:48] if not ch.isdigit()))
            except Exception as e:   # noqa: BLE001
                raised = e
                part.violation("%s raises %s" % (OPNAME[op[0]], type(e).__name__), "chain %s on series %s raised %r" % (chain2, base, e), rep)
            # ---- purity: every live series, bit for bit
            dirty = []
            for ent in pool:
                ch = ent.changed()
                if ch is not None:
                    dirty.append(ent)
                    part.add("impure_calls")
                    part.violation("%s mutates input series" % OPNAME[op[0]],
                                   "after call #%d %s of chain %s the %s of the %s series changed: was %s, now %s; original series %s"
                                   % (len(chain2) - 1, list(op), [list(o) for o in chain2], ch, ent.label,
                                      getattr(ent, ch if ch != "signal_mapping" else "map").tolist() if ch != "signal_mapping" else ent.map,
                                      getattr(ent.ts, ch).tolist() if ch != "signal_mapping" else "?", base),
                                   dict(rep, mutated_series=ent.label, mutated_field=ch))
            if raised is not None:
                for ent in dirty:
                    ent.restore()
                continue
            # array arguments (target times, parameter values) must be what was passed in
            for k, (now, was) in args.items():
                if not np.array_equal(np.asarray(now), was):
                    part.violation("%s mutates its arguments" % OPNAME[op[0]], "argument %s changed from %s to %s in chain %s"
                                   % (k, was.tolist(), np.asarray(now).tolist(), chain2), rep)
            finite_in = bool(np.all(np.isfinite(cur.data)))
            if fn is not None and finite_in:
                with np.errstate(all="ignore"):
                    fn()
            if dirty:
                # undo the write so that sibling chains start from the recorded state; the result may alias the restored
                # array, so this chain is not continued
                for ent in dirty:
                    ent.restore()
                part.add("chains_cut_after_impure_call")
                continue
            if new and not all(np.all(np.isfinite(r.data)) for r in new):
                part.add("chains_cut_at_nonfinite_result")   # already reported by the functional oracle of this call
                if finite_in and not part["violations"]:
                    part.violation("%s: non-finite result from finite input" % OPNAME[op[0]], "chain %s on %s" % (chain2, base), rep)
                continue
            # result must be a TimeSeries distinct from its input object, with consistent shapes
            for r in new:
                if r is cur.ts:
                    part.violation("%s returns its input object" % OPNAME[op[0]], "result is the input TimeSeries", rep)
            shares = any(np.shares_memory(new[0].data, e.ts.data) for e in pool) if new else False
            if shares:
                part.add("results_sharing_memory_with_an_earlier_series")
            changed_values = bool(new) and (new[0].data.shape != cur.data.shape or not np.array_equal(new[0].data, cur.data, equal_nan=True))
            if len(chain2) >= 2 and changed_values:
                part["nontrivial_count"] += 1
                if len(part["samples"]) < 1:
                    part["samples"].append(core.jsonable({"series": base, "chain": [list(o) for o in chain2],
                                                          "result_times": new[0].times, "result_data": new[0].data}))
            if new and len(chain2) < depth_max:
                n0 = len(pool)
                for i, r in enumerate(new):
                    pool.append(Entry(r, "result of call #%d %s%s" % (len(chain2) - 1, list(op), "" if i == 0 else " (second output)")))
                rec(pool[n0], chain2, ops if script is None else [script[len(chain2)]])
                del pool[n0:]

    rec(pool[0], [], first_ops)


_STATE = {}
WITNESSES = [((2, "uniform", 1, "single"), ("delay", "a", 0.05)),
             ((1, "uniform", 1, "single"), ("resample", "orig", "linear"))]


def _chunk(chunk):
    warnings.simplefilter("ignore")
    mods()
    part = core.Part()
    thorough = _STATE["thorough"]
    for shape, op in chunk:
        explore(shape, [op], alphabet(shape, thorough), 3, part)
    return part


def run(ctx):
    M = mods()
    _STATE["thorough"] = ctx.thorough
    # canonical minimal witnesses first (members of the enumeration; only their violations are kept) so that the replay
    # stored for a root-cause key does not depend on dispatch order
    wpart = core.Part()
    warnings.simplefilter("ignore")
    for sh, op in WITNESSES:
        explore(sh, [op], [], 1, wpart)
    for v in wpart["violations"]:
        ctx.violation(v["key"], v["what"], v.get("replay"))
    items = []
    nalpha = {}
    for sh in shapes():
        al = alphabet(sh, ctx.thorough)
        nalpha[sh] = len(al)
        items += [(sh, op) for op in al]
    core.pmap(ctx, _chunk, items, nchunks=min(len(items), core.NCPU * 8))
    ctx.extra["shapes"] = len(nalpha)
    ctx.extra["alphabet_sizes"] = sorted(set(nalpha.values()))
    ctx.extra["tree_modules"] = [M[k].__file__ for k in ("sm", "ts", "st")]
    ctx.extra.setdefault("boundary_excluded", 0)
    ctx.rule = ("series shapes (T, time grid, D, mapping) = %s with decimal data; for each, every chain of <= 3 calls over the "
                "alphabet (sizes %s): bias/gain per sensor and value, delay per sensor x {0, 0.05 (half sample), 0.1 (one sample), "
                "10 (beyond range)%s}, time windows {first..last, inner, all%s}, delayed window vs the original x 2 delay ranges, "
                "apply_resample_and_delay x target times {original, midpoints+outside} x default delay {0, 0.05} x per-sensor "
                "delays {none, first sensor, first+last}, TimeSeries.resample {linear at original times, zoh at knots+midpoints%s}, "
                "SignalTransform.apply (delay+gain+bias%s). One evaluation = one call (a node of the call tree) with all "
                "oracles. non-trivial = a call at depth >= 2 (its input is the result of an earlier call) whose result values "
                "differ from its input's. rejected_ValueError = calls the tree code rejects with ValueError (empty window, "
                "...), purity is still checked after them."
                % ([list(s) for s in nalpha], sorted(set(nalpha.values())), ", -0.05, 0.03" if ctx.thorough else "",
                   ", empty, single sample" if ctx.thorough else "", ", linear at midpoints / knots+midpoints / target_dt, zoh at original / "
                   "midpoints" if ctx.thorough else "", "; gain only" if ctx.thorough else ""))
    ctx.assumptions = [
        "signal_modifier.py, timeseries.py, signal_transform.py, parameter.py are the tree's files (asserted by __file__)",
        "interpolation comparisons allow %.3g x the column's largest magnitude (scipy's interp1d arithmetic is not specified "
        "bit-for-bit); purity, bias/gain/window/hold results and grouped-vs-column-wise are compared exactly" % ULP,
        "a result that shares memory with its input (apply_time_window slices, apply_bias shares `times`) is not a violation; "
        "a later call writing through it is",
    ]


def replay(ctx, path):
    """./check C48 --replay <file>: re-run the single recorded chain on the recorded series shape; no evidence is written."""
    import json
    rep = json.load(open(path))["replay"]
    warnings.simplefilter("ignore")
    M = mods()
    shape = tuple(rep["shape"])
    chain = [tuple(None if x is None else x for x in o) for o in rep["chain"]]
    part = core.Part()
    explore(shape, [chain[0]], [], len(chain), part, script=chain)
    for v in part["violations"]:
        print("VIOLATION property=C48 replay=%s\n  [%s] %s" % (path, v["key"], v["what"][:600]))
    print("replayed chain %s against %s: %d violation(s)" % (chain, M["sm"].__file__, len(part["violations"])))
    return 1 if part["violations"] else 0
