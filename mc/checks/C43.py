"""C43 MJX reproduces the MuJoCo C engine.

Differential check: for every model of a finite MJX-supported alphabet (kinematic forests x joint menu x feature
bundles x option lattice) and every element of a state/ctrl lattice, the TREE's MJX (jax, float64, one jit(vmap) call
per model) is compared stage by stage with the TREE-built C library on the same MJCF text.
"""
from __future__ import annotations

import numpy as np

from .. import core, mj
from . import _c43_gen as G
from . import _c43_mjx as H

LEVEL = "exploration"
META = dict(
    category=LEVEL,
    technique="bounded exhaustive enumeration of an MJX-supported model alphabet x option lattice x state/ctrl lattice; "
              "differential oracle: the tree-built C engine (ctypes) on the same MJCF",
    text="Every model of the alphabet (all joint types as root/child/sibling, smooth bundle = armature/damping/springs/"
         "gravcomp/fixed+spatial tendons/actuator menu/sensor menu, constraint bundle = frictionloss/limits/equalities, "
         "contact scenes for every primitive pair of MJX's collision table) is put through the tree's MJX and through "
         "the tree-built C library; kinematics, inertia, bias/passive/actuator forces, contacts (matched by geom pair), "
         "constraint rows (matched as multisets per type), sensors, accelerations and the next state of step() are "
         "compared for every lattice state.  put_model raising NotImplementedError is an accepted, counted outcome.",
    note="MJX runs on the PyPI binding (3.13.0) because the tree's bindings cannot be built here: the MJCF is compiled by "
         "both compilers and a case is judged only if every model array MJX consumes equals the tree-compiled one "
         "(skew_excluded otherwise). Iterative collision functions (SDF/convex) are compared with a loose, fixed tolerance. "
         "Solver-dependent quantities are skipped (counted) when the C solver hit its iteration cap.",
    design_ref="DESIGN.md §3 C43")

# fixed tolerances: |a-b| <= ATOL + RTOL*scale  (observed noise on the unchanged tree: see ctx.extra["max_err_*"])
RTOL, ATOL = 1e-8, 1e-10
RTOL_SOLVE, ATOL_SOLVE = 1e-5, 1e-6        # quantities downstream of the iterative constraint solver
RTOL_ITER, ATOL_ITER = 2e-2, 2e-3          # contact geometry of iterative (SDF / convex) collision functions

STAGES = [
    ("pos", ["xpos", "xquat", "xmat", "xipos", "ximat", "xanchor", "xaxis", "geom_xpos", "geom_xmat", "site_xpos",
             "site_xmat", "subtree_com", "cdof"]),
    ("cam", ["cam_xpos", "cam_xmat"]),
    ("pos2", ["ten_length", "ten_J", "M", "actuator_length", "actuator_moment"]),
    ("contact", ["contact"]),
    ("vel", ["cvel", "cdof_dot", "ten_velocity", "actuator_velocity", "qfrc_passive", "qfrc_gravcomp", "qfrc_bias"]),
    ("efc", ["efc"]),
    ("act", ["actuator_force", "qfrc_actuator", "act_dot"]),
    ("acc", ["qfrc_smooth", "qacc_smooth"]),
    ("solve", ["efc_force", "qfrc_constraint", "qacc"]),
    ("next", ["next_qpos", "next_qvel", "next_act", "next_time"]),
]
SENSOR_AFTER = {1: "contact", 2: "efc", 3: "solve"}   # a sensor of stage s is judged if nothing diverged up to there
ANALYTIC_PAIRS = {("plane", "sphere"), ("plane", "capsule"), ("plane", "box"), ("sphere", "sphere"),
                  ("sphere", "capsule"), ("capsule", "capsule")}
GEOMTYPE = {0: "plane", 1: "hfield", 2: "sphere", 3: "capsule", 4: "ellipsoid", 5: "cylinder", 6: "box", 7: "mesh"}


def nerr(a, b, rtol, atol):
    """normalised error: <= 1 means within tolerance."""
    a = np.asarray(a, float).reshape(-1)
    b = np.asarray(b, float).reshape(-1)
    if a.size != b.size:
        return float("inf")
    if a.size == 0:
        return 0.0
    if not (np.all(np.isfinite(a)) and np.all(np.isfinite(b))):
        return float("inf")
    scale = max(np.max(np.abs(a)), np.max(np.abs(b)))
    return float(np.max(np.abs(a - b)) / (atol + rtol * scale))


def match_rows(ctype, crow, xtype, xrow, tol_fn):
    """Greedy multiset matching of C rows to MJX rows of the same constraint type.
    crow/xrow: list of 1-D feature vectors. Returns (pairs, unmatched_c, unmatched_x, worst)."""
    nc, nx = len(crow), len(xrow)
    cand = []
    for i in range(nc):
        for j in range(nx):
            if ctype[i] == xtype[j]:
                cand.append((tol_fn(crow[i], xrow[j]), i, j))
    cand.sort()
    usedc, usedx, pairs, worst = set(), set(), [], 0.0
    for e, i, j in cand:
        if i in usedc or j in usedx or e > 1.0:
            continue
        usedc.add(i)
        usedx.add(j)
        pairs.append((i, j))
        worst = max(worst, e)
    return pairs, [i for i in range(nc) if i not in usedc], [j for j in range(nx) if j not in usedx], worst


def compare_contacts(mt, C, X, i, iterative_ok):
    """-> (list of (what, err), boundary:int, mapping active C contact -> MJX contact)."""
    con = C["contact"]
    xd = X["contact_dist"][i]
    if xd.size == 0 and con.size == 0:
        return [], 0
    xg = X["contact_geom"][i]
    xm = X["contact_includemargin"][i]
    problems, boundary = [], 0
    used = set()
    gt = np.array(mt.geom_type)
    for c in con:
        if int(c["exclude"]) != 0:
            continue
        g = (int(c["geom"][0]), int(c["geom"][1]))
        pair = tuple(sorted((GEOMTYPE.get(int(gt[g[0]]), "?"), GEOMTYPE.get(int(gt[g[1]]), "?")),
                            key=lambda t: list(GEOMTYPE.values()).index(t)))
        it = pair not in ANALYTIC_PAIRS
        rt, at = (RTOL_ITER, ATOL_ITER) if it else (RTOL, ATOL)
        if abs(float(c["dist"]) - float(c["includemargin"])) < (1e-3 if it else 1e-9):
            boundary += 1
            continue
        best, bj = None, -1
        for j in range(xd.shape[0]):
            if j in used or (int(xg[j][0]), int(xg[j][1])) != g:
                continue
            e = np.linalg.norm(X["contact_pos"][i][j] - c["pos"]) + abs(xd[j] - c["dist"])
            if best is None or e < best:
                best, bj = e, j
        if bj < 0:
            problems.append(("contact missing in MJX geoms=%s types=%s dist=%.3g" % (g, pair, c["dist"]), float("inf"), pair))
            continue
        used.add(bj)
        for fld, cv in (("dist", c["dist"]), ("pos", c["pos"]), ("frame", c["frame"]), ("includemargin", c["includemargin"]),
                        ("friction", c["friction"]), ("solref", c["solref"]), ("solreffriction", c["solreffriction"]),
                        ("solimp", c["solimp"])):
            xv = X["contact_" + fld][i][bj]
            if fld == "frame" and it:
                xv, cv = np.asarray(xv).reshape(3, 3)[0], np.asarray(cv).reshape(3, 3)[0]   # normal only
            geo = fld in ("dist", "pos", "frame")
            e = nerr(xv, cv, rt if geo else RTOL, (at if geo else ATOL))
            if e > 1:
                problems.append(("contact.%s types=%s" % (fld, "-".join(pair)), e, pair))
    # MJX contacts that are active but have no C counterpart
    for j in range(xd.shape[0]):
        if j in used:
            continue
        pen = xd[j] - xm[j]
        if pen < 0:
            g = (int(xg[j][0]), int(xg[j][1]))
            pair = (GEOMTYPE.get(int(gt[g[0]]), "?"), GEOMTYPE.get(int(gt[g[1]]), "?"))
            it = tuple(pair) not in ANALYTIC_PAIRS
            if abs(pen) < (1e-3 if it else 1e-9):
                boundary += 1
                continue
            problems.append(("contact extra in MJX types=%s" % "-".join(pair), float("inf"), pair))
    return problems, boundary


def efc_features(J_, pos, margin, fl, D, aref):
    return [np.concatenate([np.asarray(J_[k], float).reshape(-1), [pos[k], margin[k], fl[k], D[k], aref[k]]]) for k in range(len(pos))]


def efc_tol(loose):
    rt, at = (RTOL_ITER, ATOL_ITER) if loose else (RTOL, ATOL)

    def fn(a, b):
        nv = a.size - 5
        e = nerr(a[:nv], b[:nv], rt, at)
        for k in range(nv, nv + 5):
            e = max(e, nerr(a[k], b[k], rt, at))
        return e
    return fn


def compare_state(J, item, mt, mw, xtype_static, C, X, i, part, stats):
    """Compare one lattice state; returns list of (field, err, stage) divergences (root stage only) and sensor diffs."""
    nefc_c = C["nefc"]
    div = {}
    iterative = item.get("iterative", False)

    def chk(field, a, b, rt=RTOL, at=ATOL):
        e = nerr(a, b, rt, at)
        stats[field] = max(stats.get(field, 0.0), e if np.isfinite(e) else 1e300)
        return e

    loose_all = iterative
    # ---- plain fields
    for stage, fields in STAGES:
        for f in fields:
            if f in ("contact", "efc", "efc_force"):
                continue
            rt, at = RTOL, ATOL
            if stage in ("solve", "next") and nefc_c:
                rt, at = RTOL_SOLVE, ATOL_SOLVE
            if loose_all and stage not in ("pos", "cam", "pos2"):
                rt, at = max(rt, RTOL_ITER), max(at, ATOL_ITER)
            if f == "next_time":
                e = chk(f, X[f][i], C[f], rt, at)
            else:
                e = chk(f, X[f][i], C[f], rt, at)
            if e > 1:
                div.setdefault(stage, []).append((f, e))
    # ---- contacts
    cp, boundary = compare_contacts(mt, C, X, i, iterative)
    if boundary:
        part.add("boundary_excluded", boundary)
        return None
    for what, e, pair in cp:
        div.setdefault("contact", []).append((what, e))
    # ---- efc rows (multiset per type); MJX rows with zero Jacobian are inactive
    xJ = X["efc_J"][i]
    if xJ.shape[0] != len(xtype_static):
        div.setdefault("efc", []).append(("efc row count != efc_type", float("inf")))
    else:
        act = np.any(xJ != 0, axis=1) if xJ.size else np.zeros(0, bool)
        xi = np.nonzero(act)[0]
        xf = efc_features(xJ[xi], X["efc_pos"][i][xi], X["efc_margin"][i][xi], X["efc_frictionloss"][i][xi],
                          X["efc_D"][i][xi], X["efc_aref"][i][xi])
        cf = efc_features(C["efc_J"], C["efc_pos"], C["efc_margin"], C["efc_frictionloss"], C["efc_D"], C["efc_aref"])
        # rows whose Jacobian is exactly zero on the C side carry no information either
        cact = [k for k in range(nefc_c) if np.any(C["efc_J"][k] != 0)]
        pairs, uc, ux, worst = match_rows([int(C["efc_type"][k]) for k in cact], [cf[k] for k in cact],
                                          [int(xtype_static[k]) for k in xi], xf, efc_tol(iterative))
        stats["efc_rows"] = max(stats.get("efc_rows", 0.0), worst)
        if uc or ux:
            tc = sorted(set(int(C["efc_type"][cact[k]]) for k in uc))
            tx = sorted(set(int(xtype_static[xi[k]]) for k in ux))
            div.setdefault("efc", []).append(("efc rows unmatched (C types %s: %d rows, MJX types %s: %d rows)" % (tc, len(uc), tx, len(ux)),
                                              float("inf")))
        elif nefc_c and "efc" not in div:
            cfo = np.array([C["efc_force"][cact[a]] for a, b in pairs])
            xfo = np.array([X["efc_force"][i][xi[b]] for a, b in pairs])
            e = chk("efc_force", xfo, cfo, max(RTOL_SOLVE, RTOL_ITER if iterative else 0), max(ATOL_SOLVE, ATOL_ITER if iterative else 0))
            if e > 1:
                div.setdefault("solve", []).append(("efc_force", e))
    return div


def sensor_diffs(J, mt, C, X, i, nefc_c, iterative, stats):
    out = []
    st = np.array(mt.sensor_type)
    for s in range(mt.nsensor):
        a, n = int(mt.sensor_adr[s]), int(mt.sensor_dim[s])
        stage = int(mt.sensor_needstage[s])
        rt, at = RTOL, ATOL
        if stage == 3 and nefc_c:
            rt, at = RTOL_SOLVE, ATOL_SOLVE
        if iterative:
            rt, at = max(rt, RTOL_ITER), max(at, ATOL_ITER)
        e = nerr(X["sensordata"][i][a:a + n], C["sensordata"][a:a + n], rt, at)
        stats["sensordata"] = max(stats.get("sensordata", 0.0), e if np.isfinite(e) else 1e300)
        if e > 1:
            out.append((s, int(st[s]), stage, e))
    return out


ORDER = [s for s, _ in STAGES]


def classify(item, mt, field, nefc_c, J=None, sensor=None):
    """Canonical key per root cause.  Known root causes get a model-independent key; anything else is keyed by
    (field, model family) so that it is reported separately."""
    fam = item["name"].split("#")[0]
    if sensor is not None:
        sname = J.mujoco.mjtSensor(sensor[1]).name
        if sensor[2] == 3 and nefc_c == 0 and mt_static_nefc(item) == 0:
            return "forward() returns before sensor_acc when the model has no constraint rows: acceleration-stage sensors stay 0"
        return "sensor %s differs @ %s" % (sname, fam)
    return "%s differs @ %s" % (field, fam)


def mt_static_nefc(item):
    return item.get("_xnefc", -1)


def check_model(J, lib, part, item, cap):
    mujoco, mjx, jax = J.mujoco, J.mjx, J.jax
    xml = item["xml"]
    mt = lib.load_xml(xml)
    try:
        mw = mujoco.MjModel.from_xml_string(xml)
    except Exception as e:   # the binding's compiler rejects what the tree accepts: skew
        part.add("skew_excluded")
        part["extra"].setdefault("skew_fields", "")
        mt.free()
        return
    sk = H.skew(J, mw, mt)
    if sk:
        part.add("skew_excluded")
        part["extra"]["skew_fields"] = ",".join(sorted(set(sk)))[:300]
        mt.free()
        return
    try:
        mx = mjx.put_model(mw)
        dx0 = mjx.make_data(mw)
    except NotImplementedError as e:
        part.add("rejected_not_implemented")
        part.count(1, key=("rejected", item["name"]))
        if item.get("must_accept"):
            part.violation("put_model rejects a model of the supported alphabet: %s" % item["name"].split("#")[0],
                           "NotImplementedError: %s" % e, {"xml": xml})
        mt.free()
        return
    xtype = np.asarray(dx0._impl.efc_type)
    item["_xnefc"] = int(xtype.size)
    states = H.states_for(mt, item["kind"], cap)
    S = H.batch_states(J, states)
    f = jax.jit(jax.vmap(H.make_eval(J, mx, dx0)))
    try:
        X = H.to_numpy(f(S))
    except Exception as e:   # put_model accepted the model: anything but a result is a violation
        where = H.mjx_frame(e)
        part.count(1, key=("raises", item["name"]))
        part.violation("MJX raises %s in %s on an accepted model" % (type(e).__name__, where),
                       "forward/step raised %s: %s (model %s)" % (type(e).__name__, str(e).splitlines()[0][:200], item["name"]),
                       {"model": item["name"], "xml": xml})
        mt.free()
        return
    d = lib.make_data(mt)
    stats = {}
    iterations = int(mt.opt.iterations)
    for i, st in enumerate(states):
        C = H.c_forward_step(lib, mt, d, st)
        nefc_c = C["nefc"]
        rp = {"model": item["name"], "xml": xml, "state_index": i,
              "state": {k: np.asarray(v).tolist() for k, v in st.items()}}
        unconverged = nefc_c and (C["solver_niter"] >= iterations or C["step_niter"] >= iterations)
        div = compare_state(J, item, mt, mw, xtype, C, X, i, part, stats)
        if div is None:
            continue   # boundary-excluded
        nontrivial = (item["name"], i) if (mt.nv >= 2 or nefc_c) else None
        part.count(1, key=nontrivial, sample={"model": item["name"], "state": i, "nefc": nefc_c, "ncon": int(C["contact"].size)}
                   if i == 1 else None)
        if unconverged:
            part.add("solver_not_converged_skipped")
            for s in ("solve", "next"):
                div.pop(s, None)
        first = None
        for s in ORDER:
            if s in div:
                first = s
                break
        if first is not None:
            for fld, e in div[first]:
                key = classify(item, mt, fld, nefc_c)
                part.violation(key, "MJX %s != C engine (normalised err %.3g, tolerance 1) in model %s state %d [stage %s]"
                               % (fld, e, item["name"], i, first), dict(rp, field=fld))
        lim = ORDER.index(first) if first is not None else len(ORDER)
        for s, stype, stage, e in sensor_diffs(J, mt, C, X, i, nefc_c, item.get("iterative", False), stats):
            if unconverged and stage == 3:
                continue
            if ORDER.index(SENSOR_AFTER[stage]) >= lim:
                continue
            key = classify(item, mt, "sensordata", nefc_c, J=J, sensor=(s, stype, stage))
            part.violation(key, "MJX sensor %d (%s) != C engine (normalised err %.3g) in model %s state %d: mjx=%s c=%s"
                           % (s, J.mujoco.mjtSensor(stype).name, e, item["name"], i,
                              X["sensordata"][i][int(mt.sensor_adr[s]):int(mt.sensor_adr[s]) + int(mt.sensor_dim[s])],
                              C["sensordata"][int(mt.sensor_adr[s]):int(mt.sensor_adr[s]) + int(mt.sensor_dim[s])]),
                           dict(rp, sensor=s))
    ps = part.setdefault("stats", {})
    for k, v in stats.items():
        ps[k] = max(ps.get(k, 0.0), v)
    d.free()
    mt.free()


def _chunk(chunk):
    part = core.Part()
    lib = mj.load()
    J = H.setup()
    for item, cap in chunk:
        try:
            check_model(J, lib, part, item, cap)
        except mj.MjError as e:
            part.violation("engine error @ %s" % item["name"].split("#")[0], "tree compiler/engine raised: %s" % e, {"xml": item["xml"]})
    return part


# ------------------------------------------------------------------------------------------------ alphabet

def alphabet(thorough):
    items = []
    k = [0]

    def opt(**kw):
        o, desc = G.option_cover(k[0], **kw)
        k[0] += 1
        return o, desc

    def add(it, desc):
        it["name"] = "%s#%s" % (it["name"], "/".join(desc))
        it["options"] = desc
        items.append(it)

    trees = list(G.all_trees(2)) if thorough else G.QUICK_TREES
    if thorough:
        trees += [((-1, 0, 1), ("free", "hinge", "ball")), ((-1, 0, 0), ("hinge", "slide", "hinge")),
                  ((-1, -1, 1), ("ball", "slidehinge", "hinge")), ((-1, 0, -1), ("slide", "ball", "free")),
                  ((-1, -1, -1), ("hinge", "free", "slide"))]
    for ti, (par, js) in enumerate(trees):
        tn = "%s:%s" % (",".join(map(str, par)), ",".join(js))
        # smooth family (no constraints): qacc and the next state are compared tightly
        o, desc = opt()
        add(G.tree_model("smooth[%s]" % tn, par, js, o, tendon=True, spatial=(ti % 3 == 0) and "plain", gravcomp=(ti % 2 == 0),
                         actuators=2 if (thorough or ti % 4 == 0) else 1, sensors=2 if (thorough or ti % 4 == 1) else 1,
                         camera=(ti % 5 == 2), mocap=(ti % 6 == 3), tendon_armature=(ti % 4 == 2)), desc)
        if thorough or ti % 2 == 0:
            o, desc = opt()
            eq = [["connect", "joint"], ["weld", "inactive"], ["connect2", "weld_site", "tendon"], ["connect_site", "weld2"]][ti % 4]
            add(G.tree_model("constr[%s]" % tn, par, js, o, limits=True, friction=True, equality=eq, tendon="full",
                             actuators=1, sensors=1), desc)
    # flags
    flagsets = [dict(gravity="disable"), dict(spring="disable"), dict(damper="disable"), dict(eulerdamp="disable"),
                dict(clampctrl="disable"), dict(actuation="disable"), dict(sensor="disable"), dict(refsafe="disable"),
                dict(limit="disable", frictionloss="disable"), dict(equality="disable"), dict(constraint="disable"),
                dict(spring="disable", damper="disable"), dict(warmstart="disable")]
    for fi, fl in enumerate(flagsets if thorough else flagsets[:6]):
        par, js = [((-1, 0), ("hinge", "slide")), ((-1,), ("ball",)), ((-1, 0), ("free", "hinge"))][fi % 3]
        o, desc = G.option_cover(fi * 3, flags=fl)   # Euler first: eulerdamp / damper interplay
        it = G.tree_model("flags[%s]" % ",".join("%s" % a for a in fl), par, js, o, tendon=True, gravcomp=True,
                          limits=(fi >= 8), friction=(fi >= 8), equality=["connect"] if fi >= 8 else None,
                          actuators=1, sensors=1)
        add(it, desc + tuple("%s=%s" % kv for kv in fl.items()))
    # contact scenes: every primitive pair of MJX's table
    plane_pairs = [("plane", g) for g in ("sphere", "capsule", "box", "ellipsoid", "cylinder")]
    body_pairs_exact = [("sphere", "sphere"), ("sphere", "capsule"), ("capsule", "capsule")]
    body_pairs_iter = [("sphere", "box"), ("capsule", "box"), ("box", "box"), ("sphere", "ellipsoid"), ("sphere", "cylinder"),
                       ("capsule", "ellipsoid"), ("capsule", "cylinder"), ("ellipsoid", "ellipsoid"), ("ellipsoid", "cylinder"),
                       ("cylinder", "cylinder")]
    ci = 0
    for condim in ((1, 3, 4, 6) if thorough else (3, 6)):
        for pairs, nm in ((plane_pairs[:3], "plane-analytic"), (body_pairs_exact, "body-analytic")):
            o, desc = G.option_cover(ci)
            ci += 1
            add(G.contact_model("contact[%s,condim%d]" % (nm, condim), o, pairs, condim=condim,
                                margin=0.01 if condim in (3, 4) else 0.0, gap=0.002 if condim == 4 else 0.0,
                                priority=(condim == 6), explicit_pair=(condim >= 4 and nm == "body-analytic")), desc)
    o, desc = G.option_cover(ci)
    ci += 1
    it = G.contact_model("contact[plane-iter]", o, plane_pairs[3:], condim=3)
    it["iterative"] = True
    add(it, desc)
    for bp in (body_pairs_iter if thorough else body_pairs_iter[:3]):
        o, desc = G.option_cover(ci)
        ci += 1
        it = G.contact_model("contact[%s-%s]" % bp, o, [bp], condim=3)
        it["iterative"] = True
        add(it, desc)
    return items


class _Merger:
    """pmap front-end: keeps the per-field maximum of the observed error/tolerance ratios (core.merge would add them)."""

    def __init__(self, ctx):
        self.ctx, self.seed, self.stats = ctx, ctx.seed, {}

    def merge(self, part):
        for k, v in part.pop("stats", {}).items():
            self.stats[k] = max(self.stats.get(k, 0.0), v)
        self.ctx.merge(part)

    def violation(self, *a, **kw):
        self.ctx.violation(*a, **kw)


def run(ctx):
    mj.load()
    items = alphabet(ctx.thorough)
    cap = ctx.q(12, 16)
    mg = _Merger(ctx)
    core.pmap(mg, _chunk, [(it, cap) for it in items], nchunks=len(items))
    ctx.extra["max_err_over_tol"] = {k: float("%.3g" % v) for k, v in sorted(mg.stats.items())}
    ctx.extra["models"] = len(items)
    ctx.rule = ("models: %d = {smooth, constrained} bundles over %s kinematic forests x joint menu, flag lattice, contact scenes "
                "for every primitive pair; options rotate over integrator{Euler,RK4,implicitfast} x solver{Newton,CG} x "
                "cone{pyramidal,elliptic} x jacobian{dense,sparse}; per model <=%d lattice states (qpos lattice x {0,mixed} qvel "
                "x ctrl{-1,0,.6,2} x act x applied forces x eq_active/mocap toggles), all evaluated by one jit(vmap). "
                "non-trivial = (model,state) with nv>=2 or active constraint rows. rejected (NotImplementedError) and "
                "skew_excluded are counted, not judged." % (len(items), "all <=2-body (+5 three-body)" if ctx.thorough else "14", cap))
    ctx.assumptions = ["wheel-compiled model == tree-compiled model on every array MJX consumes (guarded per case)",
                       "tolerances: stage quantities |d| <= 1e-10 + 1e-8*scale; solver-dependent 1e-6 + 1e-5*scale; iterative "
                       "collision functions 2e-3 + 2e-2*scale",
                       "ctx.extra['max_err_*'] = largest observed error / tolerance per field"]
