"""C43 MJX reproduces the MuJoCo C engine.

Differential check: for every model of a finite MJX-supported alphabet (kinematic forests x joint menu x feature
bundles incl. a medium lattice {density, viscosity, wind} for the fluid forces x option lattice) and every element of a state/ctrl lattice, the TREE's MJX (jax, float64, one jit(vmap) call
per model) is compared stage by stage with the TREE-built C library on the same MJCF text.
"""
from __future__ import annotations

import os

import numpy as np

from .. import core, mj
from ..mjutil import dense
from . import _c43_gen as G
from . import _c43_mjx as H

LEVEL = "exploration"
META = dict(
    category=LEVEL,
    technique="bounded exhaustive enumeration of an MJX-supported model alphabet x option lattice x state/ctrl lattice; "
              "differential oracle: the tree-built C engine (ctypes) on the same MJCF",
    text="Every model of the alphabet (all joint types as root/child/sibling, smooth bundle = armature/damping/springs/"
         "gravcomp/fixed+spatial tendons/actuator menu/sensor menu, medium bundle = {density, viscosity, wind} lattice of the "
         "inertia-box fluid model over forests with rotated inertial frames, constraint bundle = frictionloss/limits/equalities, "
         "contact scenes for every primitive pair of MJX's collision table) is put through the tree's MJX and through "
         "the tree-built C library; kinematics, inertia, bias/passive/actuator forces, contacts (matched by geom pair), "
         "constraint rows (matched as multisets per type), sensors, accelerations and the next state of step() are "
         "compared for every lattice state.  put_model raising NotImplementedError is an accepted, counted outcome.",
    note="MJX runs on the PyPI binding (3.13.0) because the tree's bindings cannot be built here: the MJCF is compiled by "
         "both compilers and a case is judged only if every model array MJX consumes equals the tree-compiled one "
         "(skew_excluded otherwise). Iterative collision functions (SDF/convex) are compared with a loose, fixed tolerance. "
         "The constraint solve is judged by optimality certificates, not by trusting either iterative solver: MJX's qacc must "
         "be a stationary point of ITS OWN cost (else counted mjx_solver_not_converged_skipped) and then must minimise the C "
         "engine's constraint problem, evaluated with mj_constraintUpdate at MJX's qacc (|M^-1 grad| bound); C's qacc / next "
         "state are compared only when the C solver passes the same certificate (else c_solver_not_converged_skipped). "
         "Known root causes get model-independent canonical keys (K_* constants); anything else is keyed (field, model family). "
         "Only the first diverging pipeline stage of a state is reported (later stages are contaminated).",
    design_ref="DESIGN.md §3 C43")

# fixed tolerances: |a-b| <= ATOL + RTOL*scale  (observed noise on the unchanged tree: ctx.extra["max_err_over_tol"],
# ~1e-7 of the tolerance for every field that is not part of a reported finding)
RTOL, ATOL = 1e-8, 1e-10
RTOL_SOLVE, ATOL_SOLVE = 1e-5, 1e-6        # quantities downstream of the iterative constraint solver
RTOL_ITER, ATOL_ITER = 2e-2, 2e-3          # contact geometry of iterative (SDF / convex) collision functions

STAGES = [
    ("pos", ["xpos", "xquat", "xmat", "xipos", "ximat", "xanchor", "xaxis", "geom_xpos", "geom_xmat", "site_xpos",
             "site_xmat", "subtree_com", "cdof"]),
    ("cam", ["cam_xpos", "cam_xmat"]),
    ("pos2", ["ten_length", "ten_J", "M", "actuator_length", "actuator_moment"]),
    ("contact", ["contact"]),
    ("vel", ["cvel", "cdof_dot", "ten_velocity", "actuator_velocity", "qfrc_passive", "qfrc_gravcomp", "qfrc_bias"]),
    ("efc", ["efc"]),
    ("act", ["actuator_force", "qfrc_actuator", "act_dot"]),
    ("acc", ["qfrc_smooth", "qacc_smooth"]),
    ("solve", ["efc_force", "qfrc_constraint", "qacc"]),
    ("next", ["next_qpos", "next_qvel", "next_act", "next_time"]),
]
SENSOR_AFTER = {1: "contact", 2: "efc", 3: "solve"}   # a sensor of stage s is judged if nothing diverged up to there
EXACT_PAIRS = {("plane", "sphere"), ("plane", "capsule"), ("sphere", "sphere")}
SEGMENT_PAIRS = {("sphere", "capsule"), ("capsule", "capsule")}
GEOMTYPE = {0: "plane", 1: "hfield", 2: "sphere", 3: "capsule", 4: "ellipsoid", 5: "cylinder", 6: "box", 7: "mesh"}


def nerr(a, b, rtol, atol):
    """normalised error: <= 1 means within tolerance."""
    a = np.asarray(a, float).reshape(-1)
    b = np.asarray(b, float).reshape(-1)
    if a.size != b.size:
        return float("inf")
    if a.size == 0:
        return 0.0
    if not (np.all(np.isfinite(a)) and np.all(np.isfinite(b))):
        return float("inf")
    scale = max(np.max(np.abs(a)), np.max(np.abs(b)))
    return float(np.max(np.abs(a - b)) / (atol + rtol * scale))


def match_rows(ctype, crow, xtype, xrow, tol_fn):
    """Greedy multiset matching of C rows to MJX rows of the same constraint type.
    crow/xrow: list of 1-D feature vectors. Returns (pairs, unmatched_c, unmatched_x, worst)."""
    nc, nx = len(crow), len(xrow)
    cand = []
    for i in range(nc):
        for j in range(nx):
            if ctype[i] == xtype[j]:
                cand.append((tol_fn(crow[i], xrow[j]), i, j))
    cand.sort()
    usedc, usedx, pairs, worst = set(), set(), [], 0.0
    for e, i, j in cand:
        if i in usedc or j in usedx or e > 1.0:
            continue
        usedc.add(i)
        usedx.add(j)
        pairs.append((i, j))
        worst = max(worst, e)
    return pairs, [i for i in range(nc) if i not in usedc], [j for j in range(nx) if j not in usedx], worst


K_SEGEPS = ("closest_segment_point divides by |ab|^2 + 1e-6: sphere-capsule / capsule-capsule contact points and normals are "
            "biased by ~1e-6/|ab|^2 relative to the C engine")
K_MANIFOLD = "plane-box: plane_convex keeps only support vertices near the deepest one; the C engine returns every vertex below margin"


def pair_name(gt, g):
    names = [GEOMTYPE.get(int(gt[g[0]]), "?"), GEOMTYPE.get(int(gt[g[1]]), "?")]
    order = list(GEOMTYPE.values())
    return tuple(sorted(names, key=order.index))


def compare_contacts(mt, C, X, i):
    """-> (list of (what, err, key or None), number of boundary cases)."""
    con = C["contact"]
    xd = X["contact_dist"][i]
    if xd.size == 0 and con.size == 0:
        return [], 0
    xg = X["contact_geom"][i]
    xm = X["contact_includemargin"][i]
    problems, boundary = [], 0
    used = set()
    gt = np.array(mt.geom_type)
    for c in con:
        if int(c["exclude"]) != 0:
            continue
        g = (int(c["geom"][0]), int(c["geom"][1]))
        pair = pair_name(gt, g)
        exact = pair in EXACT_PAIRS or pair in SEGMENT_PAIRS
        rt, at = (RTOL, ATOL) if exact else (RTOL_ITER, ATOL_ITER)
        if abs(float(c["dist"]) - float(c["includemargin"])) < (1e-9 if exact else 1e-3):
            boundary += 1
            continue
        best, bj = None, -1
        for j in range(xd.shape[0]):
            if j in used or (int(xg[j][0]), int(xg[j][1])) != g:
                continue
            e = np.linalg.norm(X["contact_pos"][i][j] - c["pos"]) + abs(xd[j] - c["dist"])
            if best is None or e < best:
                best, bj = e, j
        if bj < 0 or (not exact and best > 0.02 and pair == ("plane", "box")):
            key = K_MANIFOLD if pair == ("plane", "box") else None
            problems.append(("contact of the C engine missing in MJX: types=%s dist=%.3g" % ("-".join(pair), c["dist"]), float("inf"), key))
            continue
        used.add(bj)
        for fld in ("dist", "pos", "frame", "includemargin", "friction", "solref", "solreffriction", "solimp"):
            xv, cv = X["contact_" + fld][i][bj], c[fld]
            if fld == "frame" and not exact:
                xv, cv = np.asarray(xv).reshape(3, 3)[0], np.asarray(cv).reshape(3, 3)[0]   # normal only
            geo = fld in ("dist", "pos", "frame")
            e = nerr(xv, cv, rt if geo else RTOL, at if geo else ATOL)
            if e > 1:
                key = None
                if geo and pair in SEGMENT_PAIRS and nerr(xv, cv, 1e-3, 1e-4) <= 1:
                    key = K_SEGEPS
                problems.append(("contact.%s types=%s" % (fld, "-".join(pair)), e, key))
    # MJX contacts that are active but have no C counterpart
    for j in range(xd.shape[0]):
        if j in used:
            continue
        pen = xd[j] - xm[j]
        if pen < 0:
            g = (int(xg[j][0]), int(xg[j][1]))
            pair = pair_name(gt, g)
            exact = pair in EXACT_PAIRS or pair in SEGMENT_PAIRS
            if abs(pen) < (1e-9 if exact else 1e-3):
                boundary += 1
                continue
            problems.append(("contact extra in MJX types=%s" % "-".join(pair), float("inf"), None))
    return problems, boundary


def efc_features(J_, pos, margin, fl, D):
    """row features used for matching: Jacobian, pos-margin (what enters aref), frictionloss, D"""
    return [np.concatenate([np.asarray(J_[k], float).reshape(-1), [pos[k] - margin[k], fl[k], D[k]]]) for k in range(len(pos))]


def efc_tol(loose):
    rt, at = (RTOL_ITER, ATOL_ITER) if loose else (RTOL, ATOL)

    def fn(a, b):
        nv = a.size - 3
        e = nerr(a[:nv], b[:nv], rt, at)
        for k in range(nv, nv + 3):
            e = max(e, nerr(a[k], b[k], rt, at))
        return e
    return fn


K_SENSOR_ACC = "forward() returns before sensor_acc when the model has no constraint rows: acceleration-stage sensors stay 0"
K_JDOTV = "connect/weld rows: efc_aref lacks the Jdot*v correction that the C engine's mj_referenceConstraint subtracts"
K_FORCERANGE = "implicitfast: deriv_smooth_vel keeps the velocity derivative of an actuator whose force is clamped by forcerange (C skips it)"
K_TENARM = "tendon armature over dofs that are not ancestor-related: C drops the cross terms of M (C06 finding), MJX keeps them"
K_ELLMARGIN = "elliptic cone: efc_pos / efc_margin of the friction rows carry the contact margin (C engine: 0 on friction rows)"
K_ACTEARLY = "actuator actearly is ignored by fwd_actuation (accepted by put_model, C uses the next activation)"
K_NOSLIP = "option noslip_iterations is ignored (accepted by put_model, C runs the noslip post-solver)"
K_PASSIVE = "passive(): spring OR damper disabled zeroes every passive force (the C engine only skips them when both are disabled)"
K_XTREE = ("implicitfast: velocity derivatives of tendon dampers/actuators that couple dofs which are not ancestor-related are dropped "
           "by the C engine's sparse qDeriv but kept by MJX")
K_FREEGYRO = ("implicitfast: the C engine adds the gyroscopic (bias) velocity derivative for standalone free bodies "
              "(mjd_freeMhat local solve); MJX's implicit() has no such term")
K_ACTVEL = "actuation disabled: the C engine zeroes actuator_velocity, MJX still computes moment @ qvel"
K_JACDOT = ("support.jac_dot: `jnt_type == JointType.FREE & (...)` parses as `jnt_type == (FREE & ...)`, so the translational dofs of "
            "free joints get a quaternion-style cdof_dot: tendon_bias (spatial tendon armature) is wrong for free bodies with angular velocity")
K_EULERDAMP = ("euler(): implicit damping is applied although the DAMPER disable flag is set (the C engine requires eulerdamp AND damper "
               "enabled); masked by the passive() finding until that is repaired")
K_REFSITE_LEN = ("transmission(): refsite actuator length composes orientations as site_quat*xquat; the C engine (fix 94125624a) "
                 "uses xquat*site_quat")
K_REFSITE_MOM = ("transmission(): refsite actuator moment subtracts the Jacobian of the reference site instead of the Jacobian of the "
                 "site point carried by the reference body (C engine fix 5b2a1c9b9)")
K_STATIC_ACC = ("acceleration-stage sensors on a body welded to the world: the C engine (tree and 3.13 wheel) returns 0 because cacc is "
                "not computed for static bodies; MJX returns the gravity-consistent value (C-side root cause, cf. C28)")
K_MUSCLEVEL = "implicitfast: deriv_smooth_vel has no velocity derivative for muscle gains (the C engine uses mjd_muscleGain_vel)"
K_NOTOPT = "qacc is not the minimiser of the C engine's constraint problem although MJX's own solver reports a stationary point"


def solve_dev(C, q, qfc):
    """|M^-1 (M q - qfrc_smooth - qfc)|_inf: bound on the distance of q from the minimiser (cost Hessian >= M)."""
    M = C["M"]
    g = M @ q - C["qfrc_smooth"] - qfc
    try:
        return float(np.max(np.abs(np.linalg.solve(M, g)))) if q.size else 0.0
    except np.linalg.LinAlgError:
        return float("inf")


def compare_state(J, item, mt, C, X, i, st, xtype_static, part, stats):
    """-> dict stage -> list of (field, err, canonical key or None), or None when boundary-excluded."""
    nefc_c = C["nefc"]
    div = {}
    iterative = item.get("iterative", False)
    info = {"skip_solve": False, "skip_next": False}

    def chk(field, a, b, rt=RTOL, at=ATOL):
        e = nerr(a, b, rt, at)
        stats[field] = max(stats.get(field, 0.0), e if np.isfinite(e) else 1e300)
        return e

    def put(stage, field, e, key=None):
        div.setdefault(stage, []).append((field, e, key))

    # ---- plain fields of the smooth stages
    for stage, fields in STAGES:
        if stage in ("solve", "next"):
            continue
        for f in fields:
            if f in ("contact", "efc"):
                continue
            rt, at = RTOL, ATOL
            if iterative and stage not in ("pos", "cam", "pos2"):
                rt, at = RTOL_ITER, ATOL_ITER
            e = chk(f, X[f][i], C[f], rt, at)
            if e > 1:
                key = None
                if f in ("qfrc_passive", "qfrc_gravcomp") and bin(int(mt.opt.disableflags) & (32 | 64)).count("1") == 1:
                    key = K_PASSIVE     # exactly one of mjDSBL_SPRING (1<<5) / mjDSBL_DAMPER (1<<6)
                if f == "qfrc_bias" and mt.ntendon and np.any(np.array(mt.tendon_armature) > 0) and np.any(np.array(mt.jnt_type) == 0) \
                        and np.any(np.array(mt.wrap_type) == 3):
                    key = K_JACDOT
                if f in ("actuator_length", "actuator_moment") and mt.nu and np.any(np.array(mt.actuator_trnid)[:, 1] >= 0):
                    key = K_REFSITE_LEN if f == "actuator_length" else K_REFSITE_MOM
                if f == "M" and mt.ntendon and np.any(np.array(mt.tendon_armature) > 0):
                    pat = dense(mt.M_rownnz, mt.M_rowadr, mt.M_colind, np.ones(mt.nC), mt.nv, mt.nv) > 0
                    pat = pat | pat.T
                    if nerr(np.asarray(X[f][i])[pat], C[f][pat], rt, at) <= 1:
                        key = K_TENARM
                put(stage, f, e, key)
    # ---- contacts
    cp, boundary = compare_contacts(mt, C, X, i)
    if boundary:
        part.add("boundary_excluded", boundary)
        return None, info
    for what, e, key in cp:
        put("contact", what, e, key)
    # ---- efc rows (multiset per type); MJX rows with zero Jacobian are inactive
    xJ = X["efc_J"][i]
    pairs, cact, xi = [], [], []
    if xJ.shape[0] != len(xtype_static):
        put("efc", "efc row count != efc_type", float("inf"))
    else:
        # rows whose Jacobian vanishes (inactive MJX slots; weld/connect directions without any dof) carry no force into
        # the dynamics; "vanishes" = below 1e-13 so that an exact 0 on one side and a rounding residue on the other agree
        act = np.any(np.abs(xJ) > 1e-13, axis=1) if xJ.size else np.zeros(0, bool)
        xi = np.nonzero(act)[0]
        xf = efc_features(xJ[xi], X["efc_pos"][i][xi], X["efc_margin"][i][xi], X["efc_frictionloss"][i][xi], X["efc_D"][i][xi])
        cf = efc_features(C["efc_J"], C["efc_pos"], C["efc_margin"], C["efc_frictionloss"], C["efc_D"])
        cact = [k for k in range(nefc_c) if np.any(np.abs(C["efc_J"][k]) > 1e-13)]
        pairs, uc, ux, worst = match_rows([int(C["efc_type"][k]) for k in cact], [cf[k] for k in cact],
                                          [int(xtype_static[k]) for k in xi], xf, efc_tol(iterative))
        stats["efc_rows"] = max(stats.get("efc_rows", 0.0), worst)
        if uc or ux:
            tc = sorted(set(int(C["efc_type"][cact[k]]) for k in uc))
            tx = sorted(set(int(xtype_static[xi[k]]) for k in ux))
            put("efc", "efc rows (J,pos-margin,frictionloss,D) unmatched: C types %s, MJX types %s" % (tc, tx), float("inf"))
        else:
            # reference acceleration of matched rows
            rt, at = (RTOL_ITER, ATOL_ITER) if iterative else (RTOL, ATOL)
            moving = bool(np.any(np.asarray(st["qvel"]) != 0))
            for a_, b_ in pairs:
                k = cact[a_]
                for f in ("efc_pos", "efc_margin"):
                    e = chk(f, X[f][i][xi[b_]], C[f][k], rt, at)
                    if e > 1:
                        if int(C["efc_type"][k]) == 7 and C["efc_margin"][k] == 0 and C["efc_pos"][k] == 0:
                            info.setdefault("soft", []).append((f, e, K_ELLMARGIN))   # reported, does not mask later stages
                        else:
                            put("efc", "%s (type %d)" % (f, int(C["efc_type"][k])), e)
                e = chk("efc_aref", X["efc_aref"][i][xi[b_]], C["efc_aref"][k], rt, at)
                if e > 1:
                    key = None
                    if int(C["efc_type"][k]) == 0 and int(mt.eq_type[int(C["efc_id"][k])]) in (0, 1) and moving:
                        key = K_JDOTV
                    put("efc", "efc_aref (type %d)" % int(C["efc_type"][k]), e, key)
    # ---- constraint solve: optimality certificates instead of trusting either iterative solver
    qx, qc = np.asarray(X["qacc"][i], float), C["qacc"]
    scale = max(np.max(np.abs(qx)) if qx.size else 0.0, np.max(np.abs(qc)) if qc.size else 0.0)
    if nefc_c == 0:
        for f in ("qfrc_constraint", "qacc"):
            e = chk(f, X[f][i], C[f])
            if e > 1:
                put("solve", f, e)
    elif "efc" not in div and "qfc_at_x" in C:
        rt, at = max(RTOL_SOLVE, RTOL_ITER if iterative else 0), max(ATOL_SOLVE, ATOL_ITER if iterative else 0)
        thr = 0.1 * (at + rt * scale)
        own_x = solve_dev(C, qx, np.asarray(X["qfrc_constraint"][i], float))
        own_c = solve_dev(C, qc, C["qfrc_constraint"])
        if not own_x <= thr:
            part.add("mjx_solver_not_converged_skipped")
            info["skip_solve"] = info["skip_next"] = True
        else:
            cert = solve_dev(C, qx, C["qfc_at_x"])
            stats["solve_certificate"] = max(stats.get("solve_certificate", 0.0), cert / (10 * thr))
            if not cert <= 10 * thr:
                put("solve", "qacc optimality on the C problem (|M^-1 grad| = %.3g)" % cert, cert / (10 * thr), K_NOTOPT + " @ " + item["name"].split("#")[0])
            if not own_c <= thr:
                part.add("c_solver_not_converged_skipped")
                info["skip_next"] = info["skip_solve"] = True
            else:
                for f in ("qfrc_constraint", "qacc"):
                    e = chk(f, X[f][i], C[f], rt, at)
                    if e > 1:
                        put("solve", f, e)
                cfo = np.array([C["efc_force"][cact[a_]] for a_, b_ in pairs])
                xfo = np.array([X["efc_force"][i][xi[b_]] for a_, b_ in pairs])
                e = chk("efc_force", xfo, cfo, rt, at)
                if e > 1:
                    put("solve", "efc_force", e)
    else:
        info["skip_solve"] = info["skip_next"] = True
    # ---- next state
    if not info["skip_next"]:
        rt, at = (RTOL_SOLVE, ATOL_SOLVE) if nefc_c else (RTOL, ATOL)
        if iterative:
            rt, at = max(rt, RTOL_ITER), max(at, ATOL_ITER)
        sat = False
        if int(mt.opt.integrator) == 3 and mt.nu:   # mjINT_IMPLICITFAST
            fr, lim, f_ = np.array(mt.actuator_forcerange), np.array(mt.actuator_forcelimited), C["actuator_force"]
            veldep = (np.array(mt.actuator_gainprm)[:, 2] != 0) | (np.array(mt.actuator_biasprm)[:, 2] != 0)
            sat = bool(np.any((lim != 0) & veldep & ((f_ <= fr[:, 0]) | (f_ >= fr[:, 1]))))
        cross = False
        if int(mt.opt.integrator) == 3 and mt.ntendon:
            pat = dense(mt.M_rownnz, mt.M_rowadr, mt.M_colind, np.ones(mt.nC), mt.nv, mt.nv) > 0
            pat = pat | pat.T
            for row in C["ten_J"]:
                nz = np.nonzero(row)[0]
                cross = cross or any(not pat[a_, b_] for a_ in nz for b_ in nz)
        gyro = False
        if int(mt.opt.integrator) == 3:
            for j in range(mt.njnt):
                b_ = int(mt.jnt_bodyid[j])
                if int(mt.jnt_type[j]) == 0 and int(mt.body_jntnum[b_]) == 1 and mt.body_subtreemass[b_] == mt.body_mass[b_]:
                    a_ = int(mt.jnt_dofadr[j])
                    gyro = gyro or bool(np.any(np.asarray(st["qvel"])[a_ + 3:a_ + 6] != 0))
        for f in ("next_qpos", "next_qvel", "next_act", "next_time"):
            e = chk(f, X[f][i], C[f], rt, at)
            if e > 1:
                key = None
                if f in ("next_qpos", "next_qvel"):
                    key = K_FORCERANGE if sat else (K_XTREE if cross else (K_FREEGYRO if gyro else None))
                    if key is None and int(mt.opt.integrator) == 3 and mt.nu and np.any(np.array(mt.actuator_gaintype) == 2):
                        key = K_MUSCLEVEL
                    dfl = int(mt.opt.disableflags)
                    if key is None and int(mt.opt.integrator) == 1 and mt.neq and np.any(np.isin(np.array(mt.eq_type), (0, 1))) \
                            and not (dfl & ((1 << 0) | (1 << 1))):
                        key = K_JDOTV       # RK4: the later stages are evaluated at non-zero velocity
                    if key is None and int(mt.opt.integrator) == 1 and mt.ntendon and np.any(np.array(mt.tendon_armature) > 0) \
                            and np.any(np.array(mt.jnt_type) == 0) and np.any(np.array(mt.wrap_type) == 3):
                        key = K_JACDOT      # RK4: the later stages are evaluated at non-zero velocity
                    if key is None and int(mt.opt.integrator) == 0 and (dfl & 64) and not (dfl & (1 << 15)) and np.any(np.array(mt.dof_damping) > 0):
                        key = K_EULERDAMP
                put("next", f, e, key)
    return div, info


def sensor_diffs(J, mt, C, X, i, nefc_c, iterative, stats):
    out = []
    st = np.array(mt.sensor_type)
    for s in range(mt.nsensor):
        a, n = int(mt.sensor_adr[s]), int(mt.sensor_dim[s])
        stage = int(mt.sensor_needstage[s])
        rt, at = RTOL, ATOL
        if stage == 3 and nefc_c:
            # residuals of the iterative solve enter through cancellations: scale by the constraint force level
            fs = 1.0 + (float(np.max(np.abs(C["efc_force"]))) if C["efc_force"].size else 0.0)
            rt, at = RTOL_SOLVE, ATOL_SOLVE * fs
        if iterative:
            rt, at = max(rt, RTOL_ITER), max(at, ATOL_ITER)
        e = nerr(X["sensordata"][i][a:a + n], C["sensordata"][a:a + n], rt, at)
        stats["sensordata"] = max(stats.get("sensordata", 0.0), e if np.isfinite(e) else 1e300)
        if e > 1:
            out.append((s, int(st[s]), stage, e))
    return out


ORDER = [s for s, _ in STAGES]


def check_model(J, lib, part, item, cap):
    mujoco, mjx, jax = J.mujoco, J.mjx, J.jax
    xml = item["xml"]
    fam = item["name"].split("#")[0]
    mt = lib.load_xml(xml)
    try:
        mw = mujoco.MjModel.from_xml_string(xml)
    except Exception:   # the binding's compiler rejects what the tree accepts: version skew
        part.add("skew_excluded")
        mt.free()
        return
    sk = H.skew(J, mw, mt)
    if sk:
        part.add("skew_excluded")
        part["extra"]["skew_fields"] = ",".join(sorted(set(sk)))[:300]
        mt.free()
        return
    try:
        mx = mjx.put_model(mw)
        dx0 = mjx.make_data(mw)
    except NotImplementedError as e:
        part.add("rejected_not_implemented")
        part.count(1, key=("rejected", item["name"]))
        if item.get("must_accept"):
            part.violation("put_model rejects a model of the supported alphabet: %s" % fam, "NotImplementedError: %s" % e, {"xml": xml})
        mt.free()
        return
    xtype = np.asarray(dx0._impl.efc_type)
    states = H.states_for(mt, item["kind"], cap)
    S = H.batch_states(J, states)
    f = jax.jit(jax.vmap(H.make_eval(J, mx, dx0)))
    try:
        X = H.to_numpy(f(S))
    except Exception as e:   # put_model accepted the model: anything but a result is a violation
        where = H.mjx_frame(e)
        part.count(1, key=("raises", item["name"]))
        part.violation("MJX raises %s in %s on an accepted model" % (type(e).__name__, where.split(":")[0]),
                       "forward/step raised %s at %s: %s (model %s)" % (type(e).__name__, where, str(e).splitlines()[0][:200], item["name"]),
                       {"model": item["name"], "xml": xml})
        mt.free()
        return
    d = lib.make_data(mt)
    stats = part.setdefault("stats", {})
    for i, st in enumerate(states):
        C = H.c_forward_step(lib, mt, d, st, qacc_x=X["qacc"][i])
        nefc_c = C["nefc"]
        rp = {"model": item["name"], "xml": xml, "state_index": i,
              "state": {k: np.asarray(v).tolist() for k, v in st.items()}}
        div, info = compare_state(J, item, mt, C, X, i, st, xtype, part, stats)
        if div is None:
            continue   # boundary-excluded
        nontrivial = (item["name"], i) if (mt.nv >= 2 or nefc_c) else None
        part.count(1, key=nontrivial, sample={"model": item["name"], "state": i, "nefc": nefc_c, "ncon": int(C["contact"].size)}
                   if i == 1 else None)
        first = None
        for s_ in ORDER:
            if s_ in div:
                first = s_
                break
        for fld, e, key in info.get("soft", []):
            part.violation(key, "MJX %s != C engine (normalised err %.3g) in model %s state %d" % (fld, e, item["name"], i), dict(rp, field=fld))
        if first is not None:
            for fld, e, key in div[first]:
                if key is None and first == "act" and np.any(np.array(mt.actuator_actearly)):
                    key = K_ACTEARLY
                if key is None and fld == "actuator_velocity" and int(mt.opt.disableflags) & (1 << 11):
                    key = K_ACTVEL
                if item.get("iterative") and first not in ("pos", "cam", "pos2"):
                    # SDF / convex collision functions are approximations: one key per geom-pair scene
                    key = "approximate collision function: contacts of %s deviate from the C engine beyond 2e-3+2e-2*scale" % fam
                if key is None and fam.startswith("gate["):
                    key = "feature accepted by put_model but not reproduced: %s" % fam
                if key is None and first in ("solve", "next") and int(mt.opt.noslip_iterations) > 0:
                    key = K_NOSLIP
                part.violation(key or "%s differs @ %s" % (fld, fam),
                               "MJX %s != C engine (normalised err %.3g, tolerance 1) in model %s state %d [stage %s]"
                               % (fld, e, item["name"], i, first), dict(rp, field=fld))
        lim = ORDER.index(first) if first is not None else len(ORDER)
        for s_, stype, stage, e in sensor_diffs(J, mt, C, X, i, nefc_c, item.get("iterative", False), stats):
            if stage == 3 and nefc_c and (info["skip_solve"] or info["skip_next"]):
                continue
            if ORDER.index(SENSOR_AFTER[stage]) >= lim:
                continue
            sname = mujoco.mjtSensor(stype).name
            ot, oi = int(mt.sensor_objtype[s_]), int(mt.sensor_objid[s_])
            sb = {1: lambda: oi, 2: lambda: oi, 5: lambda: int(mt.geom_bodyid[oi]), 6: lambda: int(mt.site_bodyid[oi])}.get(ot, lambda: -1)()
            if stage == 3 and xtype.size == 0:
                key = K_SENSOR_ACC
            elif stage == 3 and sb > 0 and int(mt.body_weldid[sb]) == 0:
                key = K_STATIC_ACC
            else:
                key = "sensor %s differs @ %s" % (sname, fam)
            a_, n_ = int(mt.sensor_adr[s_]), int(mt.sensor_dim[s_])
            part.violation(key, "MJX sensor %d (%s) != C engine (normalised err %.3g) in model %s state %d: mjx=%s c=%s"
                           % (s_, sname, e, item["name"], i, X["sensordata"][i][a_:a_ + n_], C["sensordata"][a_:a_ + n_]),
                           dict(rp, sensor=s_))
    d.free()
    mt.free()


def _chunk(chunk):
    part = core.Part()
    lib = mj.load()
    J = H.setup()
    for item, cap in chunk:
        try:
            check_model(J, lib, part, item, cap)
        except mj.MjError as e:
            part.violation("engine error @ %s" % item["name"].split("#")[0], "tree compiler/engine raised: %s" % e, {"xml": item["xml"]})
    return part


# ------------------------------------------------------------------------------------------------ alphabet

def alphabet(thorough):
    items = []
    fam_count = {}

    def opt(fam, **kw):
        """family-wise walk through the 24-element option product with stride 5 (coprime), distinct offsets"""
        n = fam_count.get(fam, 0)
        fam_count[fam] = n + 1
        off = {"smooth": 0, "constr": 7, "flags": 0, "contact": 3, "iter": 10}[fam]
        return G.option_cover(5 * n + off, **kw)

    def add(it, desc):
        it["name"] = "%s#%s" % (it["name"], "/".join(desc))
        it["options"] = desc
        items.append(it)

    trees = list(G.all_trees(2)) if thorough else G.QUICK_TREES
    if thorough:
        trees += [((-1, 0, 1), ("free", "hinge", "ball")), ((-1, 0, 0), ("hinge", "slide", "hinge")),
                  ((-1, -1, 1), ("ball", "slidehinge", "hinge")), ((-1, 0, -1), ("slide", "ball", "free")),
                  ((-1, -1, -1), ("hinge", "free", "slide"))]
    eqsets = [["connect", "joint"], ["connect2", "joint", "inactive"], ["weld", "tendon"], ["joint", "tendon", "inactive"],
              ["connect_site", "weld2"], ["weld_site", "connect2", "tendon"]]
    for ti, (par, js) in enumerate(trees):
        tn = "%s:%s" % (",".join(map(str, par)), ",".join(js))
        # smooth family (no constraints): qacc and the next state are compared tightly
        o, desc = opt("smooth")
        free_sp = js[0] == "free" and ti % 2 == 1     # spatial tendon with armature on a free body: reaches support.jac_dot
        add(G.tree_model("smooth[%s]" % tn, par, js, o, tendon=True, spatial=(ti % 3 == 0 or free_sp) and "plain", gravcomp=(ti % 2 == 0),
                         actuators=3 if ti % 4 == 0 else (2 if thorough else 1), sensors=2 if (thorough or ti % 4 == 1) else 1,
                         camera=(ti % 5 == 2), mocap=(ti % 6 == 3), tendon_armature=(ti % 4 == 2 or free_sp)), desc)
        if thorough or ti % 2 == 0:
            o, desc = opt("constr")
            if desc[2] == "elliptic" and fam_count["constr"] > 2:
                # MJX raises on elliptic cones without frictional contacts (reported once, by the first two elliptic
                # models of this family); the remaining models stay informative with the pyramidal cone
                o, desc = o.replace('cone="elliptic"', 'cone="pyramidal"'), desc[:2] + ("pyramidal",) + desc[3:]
            add(G.tree_model("constr[%s]" % tn, par, js, o, limits=True, friction=True, equality=eqsets[(ti // (1 if thorough else 2)) % 6],
                             tendon="full", actuators=1, sensors=1), desc)
    # flags
    flagsets = [dict(spring="disable"), dict(damper="disable"), dict(eulerdamp="disable"), dict(clampctrl="disable"),
                dict(gravity="disable"), dict(actuation="disable"), dict(sensor="disable"), dict(refsafe="disable"),
                dict(limit="disable", frictionloss="disable"), dict(equality="disable"), dict(constraint="disable"),
                dict(spring="disable", damper="disable"), dict(warmstart="disable"), dict(contact="disable")]
    for fi, fl in enumerate(flagsets if thorough else flagsets[:4]):
        par, js = [((-1, 0), ("hinge", "slide")), ((-1,), ("ball",)), ((-1, 0), ("free", "hinge"))][fi % 3]
        o, desc = G.option_cover(fi * 3, flags=fl)   # always Euler: eulerdamp / damper interplay
        constrained = fi >= 7
        it = G.tree_model("flags[%s]" % ",".join("%s" % a for a in fl), par, js, o, tendon=True, gravcomp=True,
                          limits=constrained, friction=constrained, equality=["joint", "connect"] if constrained else None,
                          actuators=1, sensors=1)
        add(it, desc + tuple("%s=%s" % kv for kv in fl.items()))
    # contact scenes: every primitive pair of MJX's table
    plane_pairs = [("plane", g) for g in ("sphere", "capsule", "box", "ellipsoid", "cylinder")]
    plane_exact = plane_pairs[:2]
    body_pairs_exact = [("sphere", "sphere"), ("sphere", "sphere")]
    body_pairs_seg = [("sphere", "capsule"), ("capsule", "capsule")]
    body_pairs_iter = [("sphere", "box"), ("capsule", "box"), ("box", "box"), ("sphere", "ellipsoid"), ("sphere", "cylinder"),
                       ("capsule", "ellipsoid"), ("capsule", "cylinder"), ("ellipsoid", "ellipsoid"), ("ellipsoid", "cylinder"),
                       ("cylinder", "cylinder")]
    scenes = [(3, plane_exact, "plane-analytic"), (3, body_pairs_exact, "body-analytic"),
              (6, plane_exact + body_pairs_exact[:1], "mixed-analytic"), (4, body_pairs_exact, "body-analytic"),
              (3, body_pairs_seg, "segment"), (3, plane_pairs[2:3], "plane-box")]
    if thorough:
        scenes += [(1, plane_exact, "plane-analytic"), (1, body_pairs_exact, "body-analytic"),
                   (4, plane_exact, "plane-analytic"), (6, body_pairs_exact, "body-analytic"),
                   (3, plane_exact + body_pairs_exact, "mixed"), (6, body_pairs_seg, "segment"), (4, plane_pairs[2:3], "plane-box")]
    for condim, pairs, nm in scenes:
        o, desc = opt("contact")
        add(G.contact_model("contact[%s,condim%d]" % (nm, condim), o, pairs, condim=condim,
                            margin=0.01 if condim in (3, 4) else 0.0, gap=0.002 if condim == 4 else 0.0,
                            priority=(condim == 6), explicit_pair=(condim >= 4 and nm == "body-analytic")), desc)
    # richer contact parameter mixing / impratio (analytic pairs)
    if thorough:
        o, desc = opt("contact", impratio="2.5")
        add(G.contact_model("contact[mix,impratio]", o, plane_exact + body_pairs_exact[:1], condim=3, margin=0.004,
                            floor_attr='solmix="2.5" solref="0.015 0.8" solimp="0.8 0.9 0.002 0.3 3"'), desc + ("impratio2.5",))
        o, desc = opt("contact", impratio="0.6")
        add(G.contact_model("contact[direct-solref,impratio]", o, plane_exact, condim=4, solref="-900 -40",
                            floor_attr='solimp="0.85 0.9 0.002 0.5 2"'), desc + ("impratio0.6",))
        o, desc = opt("contact")
        add(G.contact_model("contact[mu0]", o, plane_pairs[:2], condim=3, friction="0 0 0", floor_attr=""), desc)
        o, desc = opt("contact")
        add(G.contact_model("contact[exclude]", o, body_pairs_exact[:2] + plane_exact[:1], condim=3, exclude=True), desc)
    # feature gate: MJCF features newer than / outside MJX-JAX; put_model must either reject them or reproduce C
    gate = [("actearly", dict(post=[('dyntype="filter" dynprm="0.1"', 'dyntype="filter" dynprm="0.1" actearly="true"')])),
            ("noslip", dict(extra_opt='noslip_iterations="3"', contact=True)),
            ("actfrcrange+actgravcomp", dict(actfrc=True, gravcomp=True)),
            ("fluid-inertiabox", dict(extra_opt='density="1.2" viscosity="0.0002" wind="0.5 -0.3 0.1"')),
            ("fluid-ellipsoid", dict(extra_opt='density="1.2" viscosity="0.0002"',
                                     post=[('name="g0"', 'name="g0" fluidshape="ellipsoid"')])),
            ("pulley", dict(spatial="pulley")),
            ("surfacevel", dict(contact=True, geom_attr='surfacevel="0.3 0 0 0 0 0"')),
            ("act-delay", dict(post=[('name="a_motor"', 'name="a_motor" nsample="3" delay="0.012"')]))]
    for gi, (gname, kw) in enumerate(gate if thorough else gate[:2]):
        eo = kw.pop("extra_opt", "")
        integ = ["Euler", "implicitfast", "RK4"][gi % 3] if "fluid" not in gname else "Euler"
        o = G.option(integrator=integ, solver="Newton", cone=["pyramidal", "elliptic"][gi % 2], extra=eo)
        desc = (integ, "Newton", ["pyramidal", "elliptic"][gi % 2], "auto")
        if kw.pop("contact", False):
            it = G.contact_model("gate[%s]" % gname, o, plane_exact + body_pairs_exact[:1], condim=3, **kw)
        else:
            it = G.tree_model("gate[%s]" % gname, (-1, 0), ("hinge", "slide") if gi % 2 else ("free", "hinge"), o, tendon=True,
                              actuators=1, sensors=1, **kw)
        add(it, desc)
    # medium: passive fluid forces (inertia-box model, the one fluid model MJX implements) as a lattice
    # {density, viscosity, wind} over forests whose inertial frames are rotated against the world (geom quat + body quat +
    # joint rotation), with roots that spin (free / ball) and children offset from the tree's centre of mass.
    # Euler / RK4 must be accepted and reproduced; implicitfast + medium is a documented NotImplementedError (counted).
    media = [("density+viscosity+wind", 'density="1.2" viscosity="0.03" wind="3 -2 1"'),
             ("density+viscosity", 'density="1.2" viscosity="0.03"'),
             ("density+wind", 'density="1.3" wind="-1.5 2.5 0.5"'),
             ("viscosity+wind", 'viscosity="0.05" wind="0.5 1 -2"'),
             ("wind-only", 'wind="2 1 -1"')]
    mtrees = [((-1, 0), ("free", "hinge")), ((-1, -1), ("ball", "slidehinge")), ((-1, 0), ("hinge", "ball"))]
    if thorough:
        mcases = [(mi, ti, (mi + ti) % 2) for mi in range(len(media)) for ti in range(len(mtrees))] + [(0, 0, 2)]
    else:
        mcases = [(0, 0, 0), (1, 1, 1)]     # covering subset: {wind, still} x {Euler, RK4} x {free root, ball root + sibling}
    for mi, ti, ii in mcases:
        integ = ["Euler", "RK4", "implicitfast"][ii]
        par, js = mtrees[ti]
        o = G.option(integrator=integ, solver="Newton", cone="pyramidal", jacobian=["dense", "sparse"][(mi + ti) % 2], extra=media[mi][1])
        it = G.tree_model("medium[%s;%s]" % (media[mi][0], ",".join(js)), par, js, o, tendon=True, gravcomp=bool(ti % 2),
                          actuators=1, sensors=1)
        it["must_accept"] = integ != "implicitfast"
        add(it, (integ, "Newton", "pyramidal", ["dense", "sparse"][(mi + ti) % 2], media[mi][0]))
    o, desc = opt("iter")
    it = G.contact_model("contact[plane-iter]", o, plane_pairs[3:], condim=3)
    it["iterative"] = True
    add(it, desc)
    for bp in (body_pairs_iter if thorough else body_pairs_iter[:1]):
        o, desc = opt("iter")
        it = G.contact_model("contact[%s-%s]" % bp, o, [bp], condim=3)
        it["iterative"] = True
        add(it, desc)
    return items


class _Merger:
    """pmap front-end: keeps the per-field maximum of the observed error/tolerance ratios (core.merge would add them)."""

    def __init__(self, ctx):
        self.ctx, self.seed, self.stats = ctx, ctx.seed, {}

    def merge(self, part):
        for k, v in part.pop("stats", {}).items():
            self.stats[k] = max(self.stats.get(k, 0.0), v)
        self.ctx.merge(part)

    def violation(self, *a, **kw):
        self.ctx.violation(*a, **kw)


def run(ctx):
    mj.load()
    items = alphabet(ctx.thorough)
    only = os.environ.get("VERIF_ONLY")      # debugging aid (mutation demos): restrict to items whose name/task contains a token
    if only:
        items = [it for it in items if any(t in (it["name"] + " " + it.get("task", "") + " " + it.get("fn", "")) for t in only.split(";"))]
        ctx.exhaustive = False
    cap = ctx.q(12, 16)
    mg = _Merger(ctx)
    core.pmap(mg, _chunk, [(it, cap) for it in items], nchunks=len(items))
    ctx.extra["max_err_over_tol"] = {k: float("%.3g" % v) for k, v in sorted(mg.stats.items())}
    ctx.extra["violation_keys"] = sorted(k for k, _, _ in ctx.violations)
    ctx.extra["known_finding_keys"] = sorted(k for k, _ in ctx.known_hits)
    ctx.extra["models"] = len(items)
    ctx.extra["medium_models"] = sum(1 for it in items if it["name"].startswith("medium["))
    ctx.rule = ("models: %d = {smooth, constrained} bundles over %s kinematic forests x joint menu, flag lattice, medium lattice "
                "(inertia-box fluid forces: {density+viscosity+wind, density+viscosity, density+wind, viscosity+wind, wind-only} x "
                "{free-hinge chain, ball|slide-hinge forest, hinge-ball chain} x {Euler, RK4}, + one implicitfast model (documented NotImplementedError: counted as rejected); "
                "quick: the covering pair {wind, still} x {Euler, RK4} x {free root, ball root}), contact scenes "
                "for every primitive pair; options rotate over integrator{Euler,RK4,implicitfast} x solver{Newton,CG} x "
                "cone{pyramidal,elliptic} x jacobian{dense,sparse}; per model <=%d lattice states (qpos lattice x {0,mixed} qvel "
                "x ctrl{-1,0,.6,2} x act x applied forces x eq_active/mocap toggles), all evaluated by one jit(vmap). "
                "non-trivial = (model,state) with nv>=2 or active constraint rows. rejected (NotImplementedError) and "
                "skew_excluded are counted, not judged." % (len(items), "all <=2-body (+5 three-body)" if ctx.thorough else "14", cap))
    ctx.assumptions = ["wheel-compiled model == tree-compiled model on every array MJX consumes (guarded per case)",
                       "tolerances: stage quantities |d| <= 1e-10 + 1e-8*scale; solver-dependent 1e-6 + 1e-5*scale; iterative "
                       "collision functions 2e-3 + 2e-2*scale",
                       "ctx.extra['max_err_*'] = largest observed error / tolerance per field"]
