"""Round-trip primitives shared by C32 / C36: save a spec to MJCF text at a chosen precision,
compare two compiled models field by field, canonical (sibling-order-free) text comparison."""
from __future__ import annotations

import ctypes
import os
import re

import numpy as np

from .. import mj

_BUF = None
_ERR = ctypes.create_string_buffer(4000)


def set_precision(lib, n):
    lib.c._mjPRIVATE__set_xml_precision(int(n))


def save_string(lib, spec):
    """mj_saveXMLString with a growing buffer."""
    global _BUF
    if _BUF is None:
        _BUF = ctypes.create_string_buffer(1 << 22)
    while True:
        r = lib.mj_saveXMLString(spec, _BUF, len(_BUF), _ERR, len(_ERR))
        if r == 0:
            return _BUF.value.decode(errors="replace")
        if r > 0:
            _BUF = ctypes.create_string_buffer(r + 1024)
            continue
        raise mj.MjError("save: " + _ERR.value.decode(errors="replace"))


def save_last(lib, model, path):
    """mj_saveLastXML(path, m) -> text."""
    r = lib.mj_saveLastXML(path.encode(), model, _ERR, len(_ERR))
    if not r:
        raise mj.MjError("saveLast: " + _ERR.value.decode(errors="replace"))
    with open(path) as fh:
        return fh.read()


def load_file(lib, filename, vfs=None):
    """mj_loadXML(filename, vfs) -> Model (sets the global 'last XML' spec)."""
    p = lib.mj_loadXML(filename.encode(), vfs, _ERR, len(_ERR))
    if not p:
        raise mj.MjError("loadXML: " + _ERR.value.decode(errors="replace"))
    return mj.Model(lib, p)


def parse_file(lib, filename, vfs=None):
    p = lib.mj_parseXML(filename.encode(), vfs, _ERR, len(_ERR))
    if not p:
        raise mj.MjError("parse: " + _ERR.value.decode(errors="replace"))
    return mj.Handle(p)


# fields that are not functions of the model description
SKIP_FIELDS = {"signature"}
ATOL64 = 1e-14     # absolute floor for float64 arrays (values that are exactly 0 on one side, ~1e-17 on the other)

_VIS = {}


def vis_bytes(lib, m):
    """Raw bytes of mjModel.vis (not covered by the reflection tables), via a tiny native probe of
    offsetof/sizeof compiled against the tree headers."""
    off = _offsets(lib)
    return ctypes.string_at(m.ptr + off["mjModel.vis"], off["sizeof.mjVisual"])


_OFF = None


def _offsets(lib):
    global _OFF
    if _OFF is None:
        import json
        import subprocess
        from .. import build
        exe = build.ensure_exe("c32_offsets", ["drivers/c32_offsets.c"], variant="rel", link_lib=False)
        _OFF = json.loads(subprocess.run([exe], capture_output=True, text=True, check=True).stdout)
    return _OFF


def compare(lib, a, b, tol64=1e-10, tol32=0.0, int_exact=True):
    """Compare two models.  Returns (violations, noise) where each is a list of (field, relerr):
    `violations` exceed the tolerance (or differ in shape / integer content), `noise` are
    float64 differences below tol64 (ulp-level re-normalisation effects) or signed zeros."""
    bad, noise = [], []
    for f in a.fields():
        if f in SKIP_FIELDS:
            continue
        x = a.field(f)
        y = b.field(f)
        if x.shape != y.shape:
            bad.append((f, "shape %s vs %s" % (x.shape, y.shape)))
            continue
        if x.size == 0 or x.tobytes() == y.tobytes():
            continue
        if x.dtype.kind == "f":
            xf = x.astype(np.float64)
            yf = y.astype(np.float64)
            nan = np.isnan(xf) & np.isnan(yf)
            if np.array_equal(np.where(nan, 0, xf), np.where(nan, 0, yf)):
                noise.append((f, 0.0))      # signed zero
                continue
            if not (np.all(np.isfinite(xf[~nan])) and np.all(np.isfinite(yf[~nan]))):
                bad.append((f, "nonfinite"))
                continue
            scale = max(np.max(np.abs(xf[~nan])), np.max(np.abs(yf[~nan])), 1e-300)
            dmax = float(np.max(np.abs(xf - yf)[~nan]))
            if x.dtype == np.float64 and dmax <= ATOL64:
                noise.append((f, 0.0))
                continue
            e = dmax / scale
            tol = tol64 if x.dtype == np.float64 else tol32
            (noise if e <= tol else bad).append((f, e))
        else:
            if int_exact:
                d = np.flatnonzero(x.reshape(-1) != y.reshape(-1))
                bad.append((f, "int differs at %d of %d" % (len(d), x.size)))
    if vis_bytes(lib, a) != vis_bytes(lib, b):
        bad.append(("vis", "bytes differ"))
    return bad, noise


def permuted(a, b):
    """True if b's geoms/sites/cameras/lights are a non-trivial permutation of a's (same multiset of
    (type, size / pose) rows in a different order): the signature of elements re-ordered by the writer."""
    for typ, cols, n in (("geom", ("geom_type", "geom_size", "geom_rgba"), "ngeom"), ("site", ("site_type", "site_size", "site_rgba"), "nsite"),
                         ("cam", ("cam_fovy", "cam_pos"), "ncam"), ("light", ("light_pos", "light_dir"), "nlight")):
        na, nb = int(a.field(n)[0]), int(b.field(n)[0])
        if na != nb or na < 2:
            continue
        ra = np.column_stack([a.field(c).reshape(na, -1).astype(np.float64) for c in cols]).round(9)
        rb = np.column_stack([b.field(c).reshape(nb, -1).astype(np.float64) for c in cols]).round(9)
        if not np.array_equal(ra, rb):
            sa = ra[np.lexsort(ra.T[::-1])]
            sb = rb[np.lexsort(rb.T[::-1])]
            if np.array_equal(sa, sb):
                return typ
    return None


# ------------------------------------------------------------------ canonical text

_TAG = re.compile(r"<(/?)([A-Za-z_][\w]*)((?:\s+[\w:]+=\"[^\"]*\")*)\s*(/?)>")


def _num9(v):
    out = []
    for tok in v.split():
        try:
            f = float(tok)
            f = round(f, 10)
            out.append("0" if f == 0 else "%.9g" % f)
        except ValueError:
            out.append(tok)
    return " ".join(out)


def text_cmp(t1, t2):
    """'equal' | 'numeric-noise' (same tree, numbers equal to 9 significant digits) |
    'reordered' (same up to sibling order and numeric noise) | 'different'."""
    if t1 == t2:
        return "equal"
    import xml.etree.ElementTree as ET
    try:
        r1, r2 = ET.fromstring(t1), ET.fromstring(t2)
    except ET.ParseError:
        return "different"

    def rec(e, sort):
        kids = [rec(c, sort) for c in e]
        if sort:
            kids.sort()
        return (e.tag, tuple(sorted((k, _num9(v)) for k, v in e.attrib.items())), tuple(kids))
    if rec(r1, False) == rec(r2, False):
        return "numeric-noise"
    if rec(r1, True) == rec(r2, True):
        return "reordered"
    return "different"


def tmpdir():
    """Scratch directory of this check run (created by the first caller -- the main process -- and removed at its exit;
    forked workers inherit it through the environment)."""
    import atexit
    import shutil
    import tempfile
    p = os.environ.get("VERIF_C32_TMP")
    if p and os.path.isdir(p):
        return p
    d = "/dev/shm" if os.path.isdir("/dev/shm") else "/tmp"
    p = tempfile.mkdtemp(prefix="verif_c3x_", dir=d)
    os.environ["VERIF_C32_TMP"] = p
    owner = os.getpid()

    def _rm():
        if os.getpid() == owner:
            shutil.rmtree(p, ignore_errors=True)
    atexit.register(_rm)
    return p


# ------------------------------------------------------------------ crash-tolerant sharding


class _DedupPart(__import__("mc.core", fromlist=["Part"]).Part):
    """Part whose violation list keeps one entry per key (core.Part stops at 50 entries, which repeated reports of the
    same root cause would exhaust before a different key shows up)."""

    def violation(self, key, what, replay=None):
        from .. import core
        if any(v["key"] == key for v in self["violations"]):
            return
        if len(self["violations"]) < 500:
            self["violations"].append({"key": key, "what": what, "replay": core.jsonable(replay)})


def rpmap(ctx, fn, items, nproc=None, init=None, on_death=None, label=None):
    """Like core.pmap, but a worker that dies (signal / exit) does not take the pool down: the item it
    was evaluating is reported through on_death(ctx, item, status) (default: a 'crash' violation keyed
    by label(item)) and the worker's remaining items are re-run in a fresh process without it.
    fn(state, part, item) evaluates one item; state = init() once per process.  The seed only rotates
    which worker gets which stride."""
    import pickle
    import select
    import struct

    from .. import core
    items = list(items)
    if not items:
        return
    nproc = min(nproc or core.NCPU, len(items))
    rot = ctx.seed % nproc
    queues = [list(range((w + rot) % nproc, len(items), nproc)) for w in range(nproc)]
    live = {}

    def spawn(idxs):
        pr, pw = os.pipe()
        rr, rw = os.pipe()
        pid = os.fork()
        if pid == 0:
          try:
            os.close(pr)
            os.close(rr)
            try:
                part = _DedupPart()
                state = init() if init else None
                for i in idxs:
                    os.write(pw, struct.pack("i", i))
                    fn(state, part, items[i])
                part["nontrivial"] = list(part["nontrivial"])
                part["outcomes"] = list(part["outcomes"])
                data = pickle.dumps(dict(part))
            except BaseException:
                import traceback
                data = pickle.dumps({"_exc": traceback.format_exc()})
            with os.fdopen(rw, "wb") as fh:
                fh.write(data)
          finally:
            os._exit(0)
        os.close(pw)
        os.close(rw)
        live[pid] = dict(pr=pr, rr=rr, idxs=idxs, last=None, buf=b"")

    for q in queues:
        if q:
            spawn(q)
    while live:
        fds = {}
        for pid, st in live.items():
            fds[st["pr"]] = (pid, "p")
            fds[st["rr"]] = (pid, "r")
        ready, _, _ = select.select(list(fds), [], [], 5.0)
        for fd in ready:
            pid, kind = fds[fd]
            st = live.get(pid)
            if st is None:
                continue
            if kind == "p":
                d = os.read(fd, 4096)
                if d:
                    st["last"] = struct.unpack("i", d[-4:])[0] if len(d) >= 4 else st["last"]
            else:
                d = os.read(fd, 1 << 20)
                if d:
                    st["buf"] += d
                else:
                    # result pipe closed: child finished or died
                    _, status = os.waitpid(pid, 0)
                    # drain progress pipe
                    while True:
                        r2, _, _ = select.select([st["pr"]], [], [], 0)
                        if not r2:
                            break
                        d2 = os.read(st["pr"], 4096)
                        if not d2:
                            break
                        if len(d2) >= 4:
                            st["last"] = struct.unpack("i", d2[-4:])[0]
                    os.close(st["pr"])
                    os.close(st["rr"])
                    del live[pid]
                    if st["buf"]:
                        res = pickle.loads(st["buf"])
                        if "_exc" in res:
                            raise RuntimeError("worker failed:\n" + res["_exc"])
                        res["nontrivial"] = set(res["nontrivial"])
                        res["outcomes"] = set(res["outcomes"])
                        ex = res.get("extra", {})
                        for k in list(ex):
                            if isinstance(ex[k], list):
                                ctx.extra.setdefault(k, [])
                                ctx.extra[k] = list(ctx.extra[k]) + ex.pop(k)
                            elif k.startswith("max_"):
                                ctx.extra[k] = max(ctx.extra.get(k, 0.0), ex.pop(k))
                        ctx.merge(res)
                    else:
                        culprit = st["last"]
                        if culprit is None:
                            raise RuntimeError("worker died before its first item (status %d)" % status)
                        item = items[culprit]
                        if on_death:
                            on_death(ctx, item, status)
                        else:
                            name = label(item) if label else repr(core.jsonable(item))[:200]
                            ctx.violation("crash: " + name, "worker process died (wait status %d) while evaluating %s" % (status, name),
                                          {"item": core.jsonable(item), "status": status})
                        rest = [i for i in st["idxs"] if i != culprit]
                        ctx.extra["worker_restarts"] = ctx.extra.get("worker_restarts", 0) + 1
                        if rest:
                            spawn(rest)
