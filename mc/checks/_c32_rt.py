"""Round-trip primitives shared by C32 / C36: save a spec to MJCF text at a chosen precision,
compare two compiled models field by field, canonical (sibling-order-free) text comparison."""
from __future__ import annotations

import ctypes
import os
import re

import numpy as np

from .. import mj

_BUF = None
_ERR = ctypes.create_string_buffer(4000)


def set_precision(lib, n):
    lib.c._mjPRIVATE__set_xml_precision(int(n))


def save_string(lib, spec):
    """mj_saveXMLString with a growing buffer."""
    global _BUF
    if _BUF is None:
        _BUF = ctypes.create_string_buffer(1 << 22)
    while True:
        r = lib.mj_saveXMLString(spec, _BUF, len(_BUF), _ERR, len(_ERR))
        if r == 0:
            return _BUF.value.decode(errors="replace")
        if r > 0:
            _BUF = ctypes.create_string_buffer(r + 1024)
            continue
        raise mj.MjError("save: " + _ERR.value.decode(errors="replace"))


def save_last(lib, model, path):
    """mj_saveLastXML(path, m) -> text."""
    r = lib.mj_saveLastXML(path.encode(), model, _ERR, len(_ERR))
    if not r:
        raise mj.MjError("saveLast: " + _ERR.value.decode(errors="replace"))
    with open(path) as fh:
        return fh.read()


def load_file(lib, filename, vfs=None):
    """mj_loadXML(filename, vfs) -> Model (sets the global 'last XML' spec)."""
    p = lib.mj_loadXML(filename.encode(), vfs, _ERR, len(_ERR))
    if not p:
        raise mj.MjError("loadXML: " + _ERR.value.decode(errors="replace"))
    return mj.Model(lib, p)


def parse_file(lib, filename, vfs=None):
    p = lib.mj_parseXML(filename.encode(), vfs, _ERR, len(_ERR))
    if not p:
        raise mj.MjError("parse: " + _ERR.value.decode(errors="replace"))
    return mj.Handle(p)


# fields that are not functions of the model description
SKIP_FIELDS = {"signature"}

_VIS = {}


def vis_bytes(lib, m):
    """Raw bytes of mjModel.vis (not covered by the reflection tables), via a tiny native probe of
    offsetof/sizeof compiled against the tree headers."""
    off = _offsets(lib)
    return ctypes.string_at(m.ptr + off["mjModel.vis"], off["sizeof.mjVisual"])


_OFF = None


def _offsets(lib):
    global _OFF
    if _OFF is None:
        import json
        import subprocess
        from .. import build
        exe = build.ensure_exe("c32_offsets", ["drivers/c32_offsets.c"], variant="rel", link_lib=False)
        _OFF = json.loads(subprocess.run([exe], capture_output=True, text=True, check=True).stdout)
    return _OFF


def compare(lib, a, b, tol64=1e-10, tol32=0.0, int_exact=True):
    """Compare two models.  Returns (violations, noise) where each is a list of (field, relerr):
    `violations` exceed the tolerance (or differ in shape / integer content), `noise` are
    float64 differences below tol64 (ulp-level re-normalisation effects) or signed zeros."""
    bad, noise = [], []
    for f in a.fields():
        if f in SKIP_FIELDS:
            continue
        x = a.field(f)
        y = b.field(f)
        if x.shape != y.shape:
            bad.append((f, "shape %s vs %s" % (x.shape, y.shape)))
            continue
        if x.size == 0 or x.tobytes() == y.tobytes():
            continue
        if x.dtype.kind == "f":
            xf = x.astype(np.float64)
            yf = y.astype(np.float64)
            nan = np.isnan(xf) & np.isnan(yf)
            if np.array_equal(np.where(nan, 0, xf), np.where(nan, 0, yf)):
                noise.append((f, 0.0))      # signed zero
                continue
            if not (np.all(np.isfinite(xf[~nan])) and np.all(np.isfinite(yf[~nan]))):
                bad.append((f, "nonfinite"))
                continue
            scale = max(np.max(np.abs(xf[~nan])), np.max(np.abs(yf[~nan])), 1e-300)
            e = float(np.max(np.abs(xf - yf)[~nan]) / scale)
            tol = tol64 if x.dtype == np.float64 else tol32
            (noise if e <= tol else bad).append((f, e))
        else:
            if int_exact:
                d = np.flatnonzero(x.reshape(-1) != y.reshape(-1))
                bad.append((f, "int differs at %d of %d" % (len(d), x.size)))
    if vis_bytes(lib, a) != vis_bytes(lib, b):
        bad.append(("vis", "bytes differ"))
    return bad, noise


# ------------------------------------------------------------------ canonical text

_TAG = re.compile(r"<(/?)([A-Za-z_][\w]*)((?:\s+[\w:]+=\"[^\"]*\")*)\s*(/?)>")


def canon_text(text):
    """Sibling-order-free canonical form of an XML text: nested tuples with sorted children."""
    import xml.etree.ElementTree as ET
    try:
        root = ET.fromstring(text)
    except ET.ParseError:
        return None

    def rec(e):
        return (e.tag, tuple(sorted(e.attrib.items())), tuple(sorted(rec(c) for c in e)))
    return rec(root)


def tmpdir():
    d = "/dev/shm" if os.path.isdir("/dev/shm") else "/tmp"
    p = os.path.join(d, "verif_c32_%d" % os.getpid())
    os.makedirs(p, exist_ok=True)
    return p
