"""Feature models shared by C01 / C04 / C26 (MJCF text, compiled by the tree's reader/compiler).

Every model is a function of an <option> element (so that the option lattice is applied by
the compiler, not by poking mjModel) and is small (<= 6 dofs) so that a step costs ~10 us.
"""
from __future__ import annotations

STATE_BITS = [  # (name, bit, mjData field) in enum order -- cross-checked against the tree's introspect enums at run time
    ("TIME", 1 << 0, "time"), ("QPOS", 1 << 1, "qpos"), ("QVEL", 1 << 2, "qvel"), ("ACT", 1 << 3, "act"),
    ("HISTORY", 1 << 4, "history"), ("WARMSTART", 1 << 5, "qacc_warmstart"), ("CTRL", 1 << 6, "ctrl"),
    ("QFRC_APPLIED", 1 << 7, "qfrc_applied"), ("XFRC_APPLIED", 1 << 8, "xfrc_applied"),
    ("EQ_ACTIVE", 1 << 9, "eq_active"), ("MOCAP_POS", 1 << 10, "mocap_pos"), ("MOCAP_QUAT", 1 << 11, "mocap_quat"),
    ("USERDATA", 1 << 12, "userdata"), ("PLUGIN", 1 << 13, "plugin_state"),
]
STATE_FIELDS = [f for _, _, f in STATE_BITS]

LAZY_SENSORS = """
    <subtreelinvel name="s_slv" body="{body}"/>
    <subtreeangmom name="s_sam" body="{body}"/>
    <subtreecom name="s_com" body="{body}"/>
    <e_potential name="s_ep"/>
    <e_kinetic name="s_ek"/>
    <accelerometer name="s_acc" site="{site}"/>
    <force name="s_force" site="{site}"/>
    <torque name="s_torque" site="{site}"/>
    <framelinacc name="s_fla" objtype="site" objname="{site}"/>
    <framelinvel name="s_flv" objtype="site" objname="{site}"/>
    <framepos name="s_fp" objtype="site" objname="{site}"/>
    <velocimeter name="s_vel" site="{site}"/>
    <clock name="s_clock"/>
"""

PLUGIN_EXT = """
    <plugin plugin="verif.state">
      <instance name="vs1"><config key="nstate" value="2"/><config key="gain" value="0.5"/></instance>
      <instance name="vs2"><config key="nstate" value="1"/><config key="gain" value="-0.25"/></instance>
    </plugin>"""
PID_EXT = """
    <plugin plugin="mujoco.pid">
      <instance name="pid"><config key="kp" value="4.0"/><config key="ki" value="2.0"/><config key="kd" value="0.4"/>
        <config key="imax" value="0.5"/></instance>
    </plugin>"""


ARENA = "96K"


def _wrap(option, body, sections="", extension="", size="", default="", compiler='angle="radian"'):
    s = "<mujoco>\n  <compiler %s/>\n" % compiler
    if option:
        s += option + "\n"
    s += '  <size memory="%s" %s/>\n' % (ARENA, size)      # small arena: it is poisoned before every call
    if extension:
        s += "  <extension>%s\n  </extension>\n" % extension
    if default:
        s += "  <default>\n%s\n  </default>\n" % default
    s += "  <worldbody>\n%s\n  </worldbody>\n%s</mujoco>\n" % (body, sections)
    return s


# ---------------------------------------------------------------------------------------------- C26 models


def m_all(option=""):
    """Every state component non-empty; nq != nv (free + ball); 2 keyframes."""
    body = """
    <geom name="floor" type="plane" size="2 2 .1"/>
    <body name="mc1" mocap="true" pos="0.5 0.1 0.7" quat="0.8 0.2 -0.4 0.4"><geom type="sphere" size=".02" contype="0" conaffinity="0"/></body>
    <body name="mc2" mocap="true" pos="-0.5 0.2 0.6"><geom type="sphere" size=".02" contype="0" conaffinity="0"/></body>
    <body name="a" pos="0 0 0.3">
      <freejoint name="ja"/>
      <geom name="ga" type="box" size=".06 .05 .04"/>
      <site name="sa" pos=".02 .01 0"/>
      <plugin instance="vs1"/>
      <body name="b" pos="0.15 0 0.05">
        <joint name="jb" type="ball" damping="0.05"/>
        <geom name="gb" type="capsule" size=".03 .06" pos="0 0 .08"/>
        <site name="sb" pos="0 0 .1"/>
        <body name="c" pos="0 0 0.2">
          <joint name="jc" type="hinge" axis="0 1 0" damping="0.1" range="-1 1"/>
          <geom name="gc" type="sphere" size=".04" pos=".1 0 0"/>
          <site name="sc" pos=".1 0 0"/>
          <plugin instance="vs2"/>
        </body>
      </body>
    </body>"""
    sections = """
  <equality>
    <weld name="e0" body1="mc1" body2="a" solref="0.05 1"/>
    <connect name="e1" body1="c" body2="mc2" anchor="0.1 0 0" active="false"/>
  </equality>
  <actuator>
    <general name="u0" joint="jc" dyntype="filter" dynprm="0.05" gainprm="2" nsample="3" delay="0.004" ctrlrange="-1 1"/>
    <general name="u1" joint="jc" dyntype="integrator" gainprm="0.5" biasprm="0 -0.5 0" actrange="-1 1"/>
    <motor name="u2" joint="jc" gear="0.3" nsample="2"/>
  </actuator>
  <sensor>
    <jointpos name="h0" joint="jc" nsample="2" delay="0.004"/>
    <framepos name="h1" objtype="site" objname="sc" nsample="3" interval="0.006"/>
    <gyro name="h2" site="sb" nsample="2" delay="0.002" interval="0.004 -0.002"/>
""" + LAZY_SENSORS.format(body="a", site="sb") + """
  </sensor>
  <keyframe>
    <key name="k0" time="0.25" qpos="0.1 -0.2 0.5 0.5 0.5 0.5 0.5 0.7071067811865476 0 0.7071067811865476 0 0.3"
         qvel="0.1 0.2 0.3 0.4 0.5 0.6 0.7 0.8 0.9 1.0" act="0.25 -0.5" ctrl="0.5 -0.25 0.125"
         mpos="0.1 0.2 0.3 0.4 0.5 0.6" mquat="0.5 0.5 -0.5 0.5 0 1 0 0"/>
    <key name="k1" time="1.5" qpos="0 0 1 1 0 0 0 1 0 0 0 -0.5"/>
  </keyframe>
"""
    return _wrap(option, body, sections, extension=PLUGIN_EXT, size='nuserdata="3"')


def m_min(option=""):
    """Only time/qpos/qvel/warmstart/qfrc/xfrc non-empty: every optional component has size 0."""
    body = """
    <body name="a" pos="0 0 0.3">
      <joint name="ja" type="hinge" axis="0 1 0"/>
      <geom name="ga" type="capsule" size=".03 .1" pos="0 0 -.1"/>
      <site name="sa" pos="0 0 -.2"/>
    </body>"""
    sections = "  <keyframe><key name='k0' qpos='0.3' qvel='-1'/></keyframe>\n"
    return _wrap(option, body, sections)


def m_ballmocap(option=""):
    """ball root + 2 mocap + 3 equalities (one inactive), no actuators."""
    body = """
    <body name="mc1" mocap="true" pos="0.2 0 0.5"/>
    <body name="mc2" mocap="true" pos="-0.2 0 0.5" quat="0.5 0.5 0.5 0.5"/>
    <body name="a" pos="0 0 0.5">
      <joint name="ja" type="ball"/>
      <geom name="ga" type="ellipsoid" size=".05 .07 .09" pos=".1 0 0"/>
      <site name="sa" pos=".2 0 0"/>
      <body name="b" pos=".2 0 0">
        <joint name="jb" type="slide" axis="1 0 0"/>
        <geom name="gb" type="sphere" size=".04"/>
      </body>
    </body>"""
    sections = """
  <equality>
    <connect name="e0" body1="a" body2="mc1" anchor="0.2 0 0" solref="0.05 1"/>
    <weld name="e1" body1="b" body2="mc2" active="false"/>
    <joint name="e2" joint1="jb" polycoef="0.05 0 0 0 0"/>
  </equality>
  <keyframe><key name="k0" qpos="0.5 0.5 0.5 0.5 0.1" mpos="0 0 1 1 0 0" mquat="1 0 0 0 0 0 1 0"/></keyframe>
"""
    return _wrap(option, body, sections, size='nuserdata="1"')


def m_pid(option=""):
    """PID plugin (state lives in act) + filter actuator + userdata."""
    body = """
    <body name="a" pos="0 0 0.1">
      <joint name="ja" type="slide" axis="0 0 1" damping="0.2"/>
      <geom name="ga" type="sphere" size=".03" mass="0.5"/>
      <site name="sa"/>
    </body>
    <body name="b" pos="0.2 0 0.1">
      <joint name="jb" type="hinge" axis="0 1 0" damping="0.05"/>
      <geom name="gb" type="capsule" size=".02 .08" pos=".08 0 0" quat="0.7071 0 0.7071 0"/>
      <site name="sb" pos=".16 0 0"/>
    </body>"""
    sections = """
  <actuator>
    <plugin name="p0" joint="ja" plugin="mujoco.pid" instance="pid" actdim="1"/>
    <general name="u1" joint="jb" dyntype="filterexact" dynprm="0.03" gainprm="1.5"/>
  </actuator>
  <sensor>
    <actuatorfrc name="s_af" actuator="p0"/>
""" + LAZY_SENSORS.format(body="b", site="sb") + """
  </sensor>
  <keyframe><key name="k0" time="0.5" qpos="0.05 0.3" act="0.1 0.2" ctrl="0.2 -0.3"/></keyframe>
"""
    return _wrap(option, body, sections, extension=PID_EXT, size='nuserdata="2"')


def m_plugin2(option=""):
    """two verif.state instances (npluginstate = 3) on two trees; nothing else optional."""
    body = """
    <body name="a" pos="0 0 0.3">
      <joint name="ja" type="slide" axis="0 0 1"/>
      <geom name="ga" type="sphere" size=".05"/>
      <plugin instance="vs1"/>
    </body>
    <body name="b" pos="0.3 0 0.3">
      <joint name="jb" type="hinge" axis="1 0 0"/>
      <geom name="gb" type="box" size=".05 .03 .02" pos="0 .1 0"/>
      <plugin instance="vs2"/>
    </body>"""
    return _wrap(option, body, "", extension=PLUGIN_EXT)


def m_history(option=""):
    """history-heavy: ctrl buffers of 3 and 2 samples, sensor buffers with dim 3/4/1, delay and interval modes."""
    body = """
    <body name="a" pos="0 0 0.3">
      <joint name="ja" type="hinge" axis="0 1 0" damping="0.1"/>
      <geom name="ga" type="capsule" size=".03 .1" pos="0 0 -.1"/>
      <site name="sa" pos="0 0 -.2"/>
      <body name="b" pos="0 0 -.2">
        <joint name="jb" type="hinge" axis="1 0 0" damping="0.1"/>
        <geom name="gb" type="capsule" size=".02 .08" pos="0 0 -.08"/>
        <site name="sb" pos="0 0 -.16"/>
      </body>
    </body>"""
    sections = """
  <actuator>
    <motor name="u0" joint="ja" nsample="3" delay="0.006" interp="linear"/>
    <position name="u1" joint="jb" kp="2" nsample="2" delay="0.003" interp="cubic"/>
    <motor name="u2" joint="jb" gear="0.1"/>
  </actuator>
  <sensor>
    <framepos name="h0" objtype="site" objname="sb" nsample="3" delay="0.004"/>
    <framequat name="h1" objtype="site" objname="sb" nsample="2" interval="0.005"/>
    <jointvel name="h2" joint="jb" nsample="4" delay="0.002" interval="0.004 -0.001" interp="linear"/>
    <actuatorfrc name="h3" actuator="u1" nsample="2"/>
    <accelerometer name="h4" site="sa" nsample="2" delay="0.002"/>
  </sensor>
  <keyframe><key name="k0" qpos="0.4 -0.3" qvel="1 -2" ctrl="0.3 0.2 -0.1"/></keyframe>
"""
    return _wrap(option, body, sections)


def m_mixed(option=""):
    """free + ball + slide in three trees (nq=12, nv=10), tendon, 3 equalities incl. tendon-free joint coupling."""
    body = """
    <geom name="floor" type="plane" size="2 2 .1"/>
    <body name="a" pos="0 0 0.2"><freejoint name="ja"/><geom name="ga" type="sphere" size=".06"/><site name="sa"/></body>
    <body name="b" pos="0.4 0 0.4"><joint name="jb" type="ball"/><geom name="gb" type="capsule" size=".03 .1" pos="0 0 -.1"/><site name="sb" pos="0 0 -.2"/></body>
    <body name="c" pos="-0.4 0 0.3"><joint name="jc" type="slide" axis="0 0 1" range="-.2 .2"/><geom name="gc" type="box" size=".05 .05 .05"/><site name="sc"/></body>"""
    sections = """
  <tendon>
    <spatial name="t0" limited="true" range="0 0.45" stiffness="5"><site site="sa"/><site site="sc"/></spatial>
  </tendon>
  <equality>
    <connect name="e0" body1="b" body2="world" anchor="0 0 -0.2" active="false"/>
    <weld name="e1" body1="a" body2="c" active="false" solref="0.05 1"/>
    <joint name="e2" joint1="jc" polycoef="0.02 0 0 0 0" solref="0.05 1"/>
  </equality>
  <actuator><motor name="u0" joint="jc" ctrlrange="-2 2"/><muscle name="u1" tendon="t0" lengthrange="0.1 0.6"/></actuator>
  <keyframe><key name="k0" qpos="0.1 0 0.3 1 0 0 0 0.5 0.5 0.5 0.5 0.1" act="0.3" ctrl="1 0.5"/></keyframe>
"""
    return _wrap(option, body, sections, size='nuserdata="4"')


def m_nodof(option=""):
    """nq = nv = 0: only mocap, userdata and time carry state."""
    body = """
    <body name="mc1" mocap="true" pos="0.2 0 0.5"><geom type="sphere" size=".05"/></body>
    <body name="s" pos="0 0 0.2"><geom type="box" size=".1 .1 .1"/></body>"""
    sections = "  <keyframe><key name='k0' time='2' mpos='1 2 3' mquat='0 0 0 1'/></keyframe>\n"
    return _wrap(option, body, sections, size='nuserdata="2"')


C26_MODELS = [("all", m_all), ("min", m_min), ("ballmocap", m_ballmocap), ("pid", m_pid), ("plugin2", m_plugin2),
              ("history", m_history), ("mixed", m_mixed), ("nodof", m_nodof)]


# ---------------------------------------------------------------------------------------------- C01 / C04 feature models


def m_stack(option=""):
    """contact stack: box on box on plane (free joints, condim 3/4/6), plus a sphere rolling nearby."""
    body = """
    <geom name="floor" type="plane" size="2 2 .1" condim="3"/>
    <body name="a" pos="0 0 0.049">
      <freejoint name="ja"/>
      <geom name="ga" type="box" size=".1 .1 .05" condim="4" friction="0.8 0.01 0.001"/>
      <site name="sa"/>
    </body>
    <body name="b" pos="0.02 0.01 0.147">
      <freejoint name="jb"/>
      <geom name="gb" type="box" size=".06 .06 .05" condim="6" friction="0.6 0.02 0.002"/>
      <site name="sb" pos="0 0 .05"/>
    </body>"""
    sections = """
  <sensor>
    <touch name="s_touch" site="sb"/>
""" + LAZY_SENSORS.format(body="b", site="sb") + """
  </sensor>
"""
    return _wrap(option, body, sections)


def m_islands3(option=""):
    """three constraint islands (two spheres on the plane, a pair coupled by a weld) + one unconstrained pendulum."""
    body = """
    <geom name="floor" type="plane" size="3 3 .1"/>
    <body name="a" pos="-0.6 0 0.049"><freejoint name="ja"/><geom name="ga" type="sphere" size=".05"/><site name="sa"/></body>
    <body name="b" pos="-0.2 0 0.049"><joint name="jb1" type="slide" axis="0 0 1"/><joint name="jb2" type="slide" axis="1 0 0"/>
      <geom name="gb" type="sphere" size=".05"/><site name="sb"/></body>
    <body name="c" pos="0.2 0 0.3"><joint name="jc" type="slide" axis="0 0 1"/><geom name="gc" type="box" size=".04 .04 .04"/><site name="sc"/></body>
    <body name="d" pos="0.5 0 0.3"><joint name="jd" type="slide" axis="0 0 1"/><geom name="gd" type="box" size=".04 .04 .04"/><site name="sd"/></body>
    <body name="e" pos="1.0 0 0.6"><joint name="je" type="hinge" axis="0 1 0"/><geom name="ge" type="capsule" size=".02 .1" pos=".1 0 0" quat="0.7071 0 0.7071 0"/><site name="se" pos=".2 0 0"/></body>"""
    sections = """
  <equality><weld name="e0" body1="c" body2="d" solref="0.05 1"/></equality>
  <sensor>
""" + LAZY_SENSORS.format(body="c", site="sc") + """
  </sensor>
"""
    return _wrap(option, body, sections)


def m_sleep(option=""):
    """sleep: tree 'a' is sleep="init" (asleep in mid-air from mj_makeData on when the sleep flag is enabled), tree 'b' may
    fall asleep (resting sphere), tree 'c' never sleeps (actuated pendulum)."""
    body = """
    <geom name="floor" type="plane" size="3 3 .1"/>
    <body name="a" pos="-0.5 0 0.5" sleep="init"><freejoint name="ja"/><geom name="ga" type="box" size=".05 .04 .03"/><site name="sa"/></body>
    <body name="b" pos="0 0 0.0499"><freejoint name="jb"/><geom name="gb" type="sphere" size=".05"/><site name="sb"/></body>
    <body name="c" pos="0.5 0 0.5"><joint name="jc" type="hinge" axis="0 1 0" damping="0.05"/>
      <geom name="gc" type="capsule" size=".02 .1" pos=".1 0 0" quat="0.7071 0 0.7071 0"/><site name="sc" pos=".2 0 0"/></body>"""
    sections = """
  <actuator><motor name="u0" joint="jc" gear="0.2"/></actuator>
  <sensor>
    <framepos name="s_pa" objtype="site" objname="sa"/>
    <framelinvel name="s_va" objtype="site" objname="sa"/>
""" + LAZY_SENSORS.format(body="b", site="sb") + """
  </sensor>
"""
    return _wrap(option, body, sections)


def m_act(option=""):
    """stateful actuators: filter, filterexact, integrator (+actrange), muscle on a tendon, actearly, ctrl clamping."""
    body = """
    <body name="a" pos="0 0 0.5">
      <joint name="ja" type="hinge" axis="0 1 0" damping="0.05" armature="0.01"/>
      <geom name="ga" type="capsule" size=".02 .1" pos="0 0 -.1"/>
      <site name="sa" pos="0 0 -.2"/>
      <body name="b" pos="0 0 -.2">
        <joint name="jb" type="hinge" axis="0 1 0" damping="0.05" range="-1.5 1.5" limited="true"/>
        <geom name="gb" type="capsule" size=".02 .08" pos="0 0 -.08"/>
        <site name="sb" pos="0 0 -.16"/>
      </body>
    </body>
    <site name="sw" pos="0.1 0 0.5"/>"""
    sections = """
  <tendon><spatial name="t0"><site site="sw"/><site site="sb"/></spatial></tendon>
  <actuator>
    <general name="u0" joint="ja" dyntype="filter" dynprm="0.02" gainprm="1.2" ctrllimited="true" ctrlrange="-0.5 0.5"/>
    <general name="u1" joint="jb" dyntype="integrator" gainprm="0.8" biasprm="0 -0.8 0" actlimited="true" actrange="-0.3 0.3" actearly="true"/>
    <general name="u2" joint="jb" dyntype="filterexact" dynprm="0.015" gainprm="0.5"/>
    <muscle name="u3" tendon="t0" lengthrange="0.05 0.5" force="3"/>
    <position name="u4" joint="ja" kp="1.5" kv="0.1"/>
  </actuator>
  <sensor>
    <actuatorfrc name="s_af0" actuator="u0"/>
    <actuatorfrc name="s_af3" actuator="u3"/>
    <jointactuatorfrc name="s_jaf" joint="jb"/>
    <tendonpos name="s_tp" tendon="t0"/>
""" + LAZY_SENSORS.format(body="a", site="sb") + """
  </sensor>
"""
    return _wrap(option, body, sections)


def m_mocapweld(option=""):
    """mocap body dragging a free body through a weld, second mocap body in contact with it."""
    body = """
    <geom name="floor" type="plane" size="2 2 .1"/>
    <body name="mc1" mocap="true" pos="0 0 0.3" quat="1 0 0 0"><geom name="gm1" type="sphere" size=".02" contype="0" conaffinity="0"/></body>
    <body name="mc2" mocap="true" pos="0.13 0 0.3"><geom name="gm2" type="sphere" size=".04"/></body>
    <body name="a" pos="0 0 0.3">
      <freejoint name="ja"/>
      <geom name="ga" type="box" size=".06 .05 .04"/>
      <site name="sa" pos=".06 0 0"/>
    </body>"""
    sections = """
  <equality><weld name="e0" body1="mc1" body2="a" solref="0.03 1"/></equality>
  <sensor>
""" + LAZY_SENSORS.format(body="a", site="sa") + """
  </sensor>
"""
    return _wrap(option, body, sections)


def m_eqtoggle(option=""):
    """equalities toggled through eq_active: connect (on), weld (off), joint (on), tendon (off)."""
    body = """
    <body name="a" pos="0 0 0.5">
      <joint name="ja" type="ball"/>
      <geom name="ga" type="capsule" size=".02 .1" pos="0 0 -.1"/>
      <site name="sa" pos="0 0 -.2"/>
    </body>
    <body name="b" pos="0.3 0 0.5">
      <joint name="jb1" type="hinge" axis="0 1 0"/>
      <geom name="gb" type="capsule" size=".02 .1" pos="0 0 -.1"/>
      <site name="sb" pos="0 0 -.2"/>
      <body name="c" pos="0 0 -.2">
        <joint name="jc" type="hinge" axis="0 1 0"/>
        <geom name="gc" type="capsule" size=".02 .08" pos="0 0 -.08"/>
        <site name="sc" pos="0 0 -.16"/>
      </body>
    </body>"""
    sections = """
  <tendon>
    <fixed name="t0"><joint joint="jb1" coef="1"/><joint joint="jc" coef="-0.5"/></fixed>
    <fixed name="t1"><joint joint="jc" coef="1"/></fixed>
  </tendon>
  <equality>
    <connect name="e0" body1="a" body2="b" anchor="0 0 -0.2" solref="0.05 1"/>
    <weld name="e1" body1="a" body2="c" active="false" solref="0.05 1"/>
    <joint name="e2" joint1="jb1" joint2="jc" polycoef="0 0.5 0 0 0" solref="0.05 1"/>
    <tendon name="e3" tendon1="t0" tendon2="t1" polycoef="0.1 1 0 0 0" active="false" solref="0.05 1"/>
  </equality>
  <sensor>
""" + LAZY_SENSORS.format(body="b", site="sc") + """
  </sensor>
"""
    return _wrap(option, body, sections)


def m_tendon(option=""):
    """tendon limits + tendon/joint frictionloss + joint limits (all constraint types except contact)."""
    body = """
    <body name="a" pos="0 0 0.5">
      <joint name="ja" type="hinge" axis="0 1 0" range="-0.3 0.3" limited="true" frictionloss="0.02"/>
      <geom name="ga" type="capsule" size=".02 .1" pos="0 0 -.1"/>
      <site name="sa" pos="0 0 -.2"/>
      <body name="b" pos="0 0 -.2">
        <joint name="jb" type="slide" axis="0 0 1" range="-0.05 0.05" limited="true"/>
        <geom name="gb" type="sphere" size=".03"/>
        <site name="sb"/>
      </body>
    </body>
    <body name="c" pos="0.3 0 0.5">
      <joint name="jc" type="hinge" axis="0 1 0"/>
      <geom name="gc" type="capsule" size=".02 .1" pos="0 0 -.1"/>
      <site name="sc" pos="0 0 -.2"/>
    </body>
    <site name="sw" pos="0.15 0 0.6"/>"""
    sections = """
  <tendon>
    <spatial name="t0" limited="true" range="0.2 0.36" frictionloss="0.01" stiffness="2" damping="0.1"><site site="sb"/><site site="sw"/><site site="sc"/></spatial>
    <fixed name="t1" limited="true" range="-0.2 0.2" armature="0.005"><joint joint="ja" coef="1"/><joint joint="jc" coef="0.7"/></fixed>
  </tendon>
  <actuator><motor name="u0" tendon="t0" gear="0.5"/></actuator>
  <sensor>
    <tendonlimitfrc name="s_tl" tendon="t0"/>
    <jointlimitfrc name="s_jl" joint="ja"/>
    <tendonactuatorfrc name="s_taf" tendon="t0"/>
""" + LAZY_SENSORS.format(body="a", site="sb") + """
  </sensor>
"""
    return _wrap(option, body, sections)


C01_MODELS = [("stack", m_stack), ("islands3", m_islands3), ("sleep", m_sleep), ("act", m_act), ("history", m_history),
              ("mocapweld", m_mocapweld), ("eqtoggle", m_eqtoggle), ("tendon", m_tendon), ("mixed", m_mixed), ("pid", m_pid),
              ("plugin2", m_plugin2), ("all", m_all)]


# ---------------------------------------------------------------------------------------------- C04 alphabet models

C04_MENU = ["hinge", "slide", "ball", "free", "hinge2"]


def c04_kinematics(nmax):
    """All rooted ordered forests with <= nmax bodies x a covering set of joint assignments from C04_MENU
    (assignment k gives body i the menu entry (k + 2 i) mod |menu|; 'free' only on roots)."""
    from .. import alphabet as A
    out = []
    for par in A.all_forests(nmax):
        menus = [A.joint_menu(p == -1, C04_MENU) for p in par]
        K = max(len(mn) for mn in menus)
        seen = set()
        for k in range(K):
            js = tuple(mn[(k + 2 * i) % len(mn)] for i, mn in enumerate(menus))
            if js not in seen:
                seen.add(js)
                out.append((par, js))
    return out


def c04_model(par, js, level, option=""):
    """level 'lean': actuators (with activation) + sensors of all three stages; 'full': + floor contacts, tendons with limits,
    equality constraints, joint limits/frictionloss."""
    from .. import alphabet as A
    n = len(par)
    scal = []
    for i, j in enumerate(js):
        for k, (jt, _) in enumerate(A.JOINTS[j]):
            if jt in ("hinge", "slide"):
                scal.append("j%d_%d" % (i, k))
    full = level == "full"
    act = '<general name="u0" site="s0" gear="0 0 1 0 0.1 0.2" dyntype="filter" dynprm="0.05" gainprm="1.5"/>\n'
    act += '    <motor name="u1" site="s%d" gear="0.3 0 0 0 0 0.5" ctrllimited="true" ctrlrange="-0.5 0.5"/>\n' % (n - 1)
    if scal:
        act += '    <position name="u2" joint="%s" kp="2" kv="0.1"/>\n' % scal[0]
        act += '    <general name="u3" joint="%s" dyntype="integrator" gainprm="0.6" biasprm="0 -0.6 0" actlimited="true" actrange="-0.4 0.4"/>\n' % scal[-1]
    tendon = eq = ""
    sens = """
    <framepos name="p0" objtype="site" objname="s0"/>
    <subtreecom name="p1" body="b0"/>
    <e_potential name="p2"/>
    <framelinvel name="v0" objtype="site" objname="s%d"/>
    <subtreelinvel name="v1" body="b0"/>
    <subtreeangmom name="v2" body="b0"/>
    <e_kinetic name="v3"/>
    <accelerometer name="a0" site="s%d"/>
    <force name="a1" site="s0"/>
    <torque name="a2" site="s0"/>
    <framelinacc name="a3" objtype="site" objname="s%d"/>
    <actuatorfrc name="a4" actuator="u0"/>
    <clock name="c0"/>
""" % (n - 1, n - 1, n - 1)
    if scal:
        sens += '    <jointpos name="p3" joint="%s"/>\n    <jointvel name="v4" joint="%s"/>\n    <jointactuatorfrc name="a5" joint="%s"/>\n' % (
            scal[0], scal[0], scal[0])
    world_extra = '    <site name="sw" pos="0.1 0.3 0.4"/>\n'
    jattr = 'damping="0.05"'
    gattr = 'contype="0" conaffinity="0"'
    if full:
        world_extra += '    <geom name="floor" type="plane" size="3 3 .1" pos="0 0 -0.28"/>\n'
        gattr = 'contype="1" conaffinity="1" condim="3"'
        jattr = 'damping="0.05" armature="0.01"'
        tendon = '<spatial name="t0" limited="true" range="0 0.55" stiffness="3" damping="0.2"><site site="s%d"/><site site="sw"/></spatial>\n' % (n - 1)
        if len(scal) >= 2:
            tendon += ('    <fixed name="t1" limited="true" range="-0.3 0.3" frictionloss="0.01"><joint joint="%s" coef="1"/>'
                       '<joint joint="%s" coef="-0.6"/></fixed>\n' % (scal[0], scal[-1]))
        eq = '<connect name="e0" body1="b%d" body2="world" anchor="0.02 -0.04 0.06" solref="0.05 1"/>\n' % (n - 1)
        if scal:
            eq += '    <joint name="e1" joint1="%s" polycoef="0.1 0 0 0 0" solref="0.05 1"/>\n' % scal[0]
        act += '    <general name="u4" tendon="t0" gainprm="0.4"/>\n'
        sens += '    <touch name="a6" site="s%d"/>\n    <tendonlimitfrc name="a7" tendon="t0"/>\n' % (n - 1)
    sections = ""
    if tendon:
        sections += "  <tendon>\n    %s  </tendon>\n" % tendon
    if eq:
        sections += "  <equality>\n    %s  </equality>\n" % eq
    sections += "  <actuator>\n    %s  </actuator>\n  <sensor>%s  </sensor>\n" % (act, sens)
    return A.tree_mjcf(par, list(js), axis=[i % 3 for i in range(n)], anchor=[(i + 1) % 2 for i in range(n)],
                       frame=[1 + i % 2 for i in range(n)], geom=[A.GEOM_ORDER[(i + 1) % 5] for i in range(n)],
                       jattr=jattr, gattr=gattr, option=option, world_extra=world_extra, sections=sections,
                       size='memory="%s"' % ARENA)
