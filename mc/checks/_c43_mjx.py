"""Shared harness of the MJX checks (C43/C44/C45).

* ``setup()`` (call it only inside a forked worker: the parent must not import jax) imports jax and the TREE's MJX
  (``build.REPO/mjx``) over the wheel binding, float64, single-threaded XLA, persistent compile cache under build.CACHE.
* ``c_forward_step`` evaluates the reference: the tree-built C library through ctypes.
* ``skew`` is the wheel/tree version-skew guard.
* ``states_for`` is the deterministic state/ctrl lattice of a model.
"""
from __future__ import annotations

import os
import sys
import types

import numpy as np

from .. import alphabet as A
from .. import build
from ..mjutil import dense

_J = None


class NS:
    pass


def setup():
    """Import jax + tree MJX (once per process)."""
    global _J
    if _J is not None:
        return _J
    os.environ["XLA_FLAGS"] = (os.environ.get("XLA_FLAGS_EXTRA", "") +
                               " --xla_cpu_multi_thread_eigen=false intra_op_parallelism_threads=1").strip()
    os.environ["JAX_PLATFORMS"] = "cpu"
    os.environ.setdefault("TF_CPP_MIN_LOG_LEVEL", "3")
    mjx_path = os.path.join(build.REPO, "mjx")
    if mjx_path not in sys.path:
        sys.path.insert(0, mjx_path)
    if "trimesh" not in sys.modules:
        tm = types.ModuleType("trimesh")
        tm.Trimesh = type("Trimesh", (), {})
        sys.modules["trimesh"] = tm
    import logging
    logging.disable(logging.WARNING)
    import io
    import contextlib
    import jax
    jax.config.update("jax_enable_x64", True)
    cache = os.path.join(build.CACHE, "jax_mjx")
    os.makedirs(cache, exist_ok=True)
    try:
        jax.config.update("jax_compilation_cache_dir", cache)
        jax.config.update("jax_persistent_cache_min_entry_size_bytes", -1)
        jax.config.update("jax_persistent_cache_min_compile_time_secs", 0.5)
    except Exception:
        pass
    with contextlib.redirect_stdout(io.StringIO()), contextlib.redirect_stderr(io.StringIO()):
        import mujoco
        from mujoco import mjx
    if not os.path.realpath(mjx.__file__).startswith(os.path.realpath(build.REPO)):
        raise RuntimeError("mujoco.mjx was not imported from the tree: %s" % mjx.__file__)
    import jax.numpy as jp
    from mujoco.mjx._src import forward as fwd
    from mujoco.mjx._src import io as mio
    from mujoco.mjx._src import support, smooth, types as mtypes
    logging.disable(logging.NOTSET)
    J = NS()
    J.jax, J.jp, J.mujoco, J.mjx, J.fwd, J.io, J.support, J.smooth, J.types = jax, jp, mujoco, mjx, fwd, mio, support, smooth, mtypes
    _J = J
    return J


# ------------------------------------------------------------------------------------------------ skew guard

_SKEW_SKIP = {"names", "paths", "text_data", "signature", "buffer", "buffer_size"}


def skew(J, mw, mt):
    """Names of model arrays (those MJX consumes + options) that differ between the wheel-compiled and the
    tree-compiled model.  Empty list = MJX sees exactly the tree's model."""
    bad = []
    tf = set(mt.fields())
    names = [f.name for f in J.types.Model.fields() if f.name not in ("opt", "stat", "_impl")]
    for n in names:
        if n in _SKEW_SKIP or n not in tf:
            continue
        a = np.asarray(getattr(mw, n))
        b = np.asarray(getattr(mt, n))
        if a.size != b.size:
            bad.append(n)
            continue
        if a.size == 0:
            continue
        a = a.reshape(-1).astype(float)
        b = b.reshape(-1).astype(float)
        if not np.allclose(a, b, rtol=1e-12, atol=1e-12, equal_nan=True):
            bad.append(n)
    for pre, obj in (("opt.", mw.opt), ("stat.", mw.stat)):
        for n in tf:
            if n.startswith(pre) and hasattr(obj, n[len(pre):]):
                a = np.asarray(getattr(obj, n[len(pre):]), dtype=float).reshape(-1)
                b = np.asarray(mt.field(n), dtype=float).reshape(-1)
                if a.size != b.size or not np.allclose(a, b, rtol=1e-12, atol=1e-12):
                    bad.append(n)
    return bad


# ------------------------------------------------------------------------------------------------ state lattice

def states_for(mt, kind="tree", cap=16):
    """Deterministic list of states (dict qpos,qvel,ctrl,act,qfrc_applied,xfrc_applied,eq_active,mocap)."""
    nq, nv, nu, na, nbody = mt.nq, mt.nv, mt.nu, mt.na, mt.nbody
    q0 = np.array(mt.qpos0, float)
    if kind == "contact":
        qs = []
        disp = [(0.0, 0.0, 0.0), (0.003, -0.002, 0.0035), (0.0, 0.0, -0.006), (0.002, 0.001, 0.03)]
        tilt = [np.array([1.0, 0, 0, 0]), np.array([0.9987502603949663, 0.03, -0.04, 0.0])]
        for k in range(len(disp) * len(tilt)):
            q = q0.copy()
            for j in range(mt.njnt):
                a = int(mt.jnt_qposadr[j])
                if int(mt.jnt_type[j]) == 0:
                    dj = disp[(k + j) % len(disp)]
                    q[a:a + 3] += dj
                    t = tilt[(k // len(disp) + j) % len(tilt)]
                    from ..mjutil import quat_mul
                    qq = quat_mul(t / np.linalg.norm(t), q[a + 3:a + 7])
                    q[a + 3:a + 7] = qq
            qs.append(q)
    else:
        qs = A.qpos_lattice(mt, limit=8)
    vs = A.qvel_lattice(nv, units=False)
    if kind == "contact":
        vs = [np.zeros(nv), 0.3 * vs[-1]]
    ctrls = [np.array([A.CTRLS[(i + s) % 4] for i in range(nu)]) for s in range(4)] if nu else [np.zeros(0)]
    acts = [np.array([[0.0, 0.3, -0.2][(i + s) % 3] for i in range(na)]) for s in range(3)] if na else [np.zeros(0)]
    out = []
    n = max(len(qs), 2 * len(vs))
    n = min(max(n, 8), cap)
    for k in range(n):
        st = dict(qpos=qs[k % len(qs)], qvel=vs[(k // 2 + k) % len(vs)] if k else vs[0], ctrl=ctrls[k % len(ctrls)],
                  act=acts[k % len(acts)], qfrc_applied=np.zeros(nv), xfrc_applied=np.zeros((nbody, 6)),
                  eq_active=np.array(mt.eq_active0, dtype=np.uint8).copy())
        if k % 4 == 3 and nv:
            st["qfrc_applied"] = np.array([0.5 * ((-1) ** i) * (1 + 0.2 * i) for i in range(nv)])
            x = np.zeros((nbody, 6))
            x[nbody - 1] = [0.7, -0.3, 1.1, 0.2, -0.4, 0.15]
            st["xfrc_applied"] = x
        if k % 5 == 4 and mt.neq:
            e = st["eq_active"]
            e[:] = 1 - e
        if mt.nmocap:
            mp = np.array(mt.body_pos[np.array(mt.body_mocapid) >= 0], float)
            mq = np.array(mt.body_quat[np.array(mt.body_mocapid) >= 0], float)
            if k % 2:
                mp = mp + np.array([0.05, -0.1, 0.02])
                mq = mq * np.array([1.0, -1.0, 1.0, 1.0])
            st["mocap_pos"], st["mocap_quat"] = mp, mq
        out.append(st)
    return out


# ------------------------------------------------------------------------------------------------ C reference

C_FIELDS = ["xpos", "xquat", "xmat", "xipos", "ximat", "xanchor", "xaxis", "geom_xpos", "geom_xmat", "site_xpos",
            "site_xmat", "cam_xpos", "cam_xmat", "subtree_com", "cdof", "cvel", "cdof_dot", "ten_length",
            "actuator_length", "ten_velocity", "actuator_velocity", "qfrc_passive", "qfrc_gravcomp", "qfrc_bias",
            "actuator_force", "qfrc_actuator", "act_dot", "qfrc_smooth", "qacc_smooth", "qfrc_constraint", "qacc",
            "sensordata"]


def c_set_state(lib, mt, d, st):
    lib.mj_resetData(mt, d)
    d.qpos[:] = st["qpos"]
    d.qvel[:] = st["qvel"]
    if mt.nu:
        d.ctrl[:] = st["ctrl"]
    if mt.na:
        d.act[:] = st["act"]
    if mt.nv:
        d.qfrc_applied[:] = st["qfrc_applied"]
    d.xfrc_applied[:] = st["xfrc_applied"]
    if mt.neq:
        d.eq_active[:] = st["eq_active"]
    if mt.nmocap:
        d.mocap_pos[:] = st["mocap_pos"]
        d.mocap_quat[:] = st["mocap_quat"]


def c_forward_step(lib, mt, d, st, qacc_x=None):
    """mj_forward and (from the same state) mj_step on the tree-built library -> dict of copies.
    If qacc_x is given and constraints are present, also evaluates the C engine's constraint force at that
    acceleration (mj_constraintUpdate), which yields an optimality certificate for qacc_x on the C problem."""
    nv = mt.nv
    c_set_state(lib, mt, d, st)
    lib.mj_forward(mt, d)
    r = {f: np.array(getattr(d, f), float).copy() for f in C_FIELDS}
    M = np.zeros((nv, nv))
    if nv:
        lib.mj_fullM(mt, d, M)
    r["M"] = M
    r["ten_J"] = dense(mt.ten_J_rownnz, mt.ten_J_rowadr, mt.ten_J_colind, np.array(d.ten_J), mt.ntendon, nv) if mt.ntendon else np.zeros((0, nv))
    r["actuator_moment"] = dense(d.moment_rownnz, d.moment_rowadr, d.moment_colind, np.array(d.actuator_moment), mt.nu, nv) if mt.nu else np.zeros((0, nv))
    nefc = int(d.nefc)
    r["nefc"] = nefc
    if nefc:
        if lib.mj_isSparse(mt):
            Jc = dense(d.efc_J_rownnz, d.efc_J_rowadr, d.efc_J_colind, np.array(d.efc_J), nefc, nv)
        else:
            Jc = np.array(d.efc_J, float)[:nefc * nv].reshape(nefc, nv).copy()   # nJ is an upper bound in dense mode
    else:
        Jc = np.zeros((0, nv))
    r["efc_J"] = Jc
    for f in ("efc_type", "efc_id", "efc_pos", "efc_margin", "efc_frictionloss", "efc_D", "efc_aref", "efc_force"):
        r[f] = np.array(getattr(d, f)).copy()[:nefc]
    con = np.array(d.contact).copy()
    r["contact"] = con
    r["solver_niter"] = int(np.array(d.solver_niter)[0])
    r["warn"] = lib.warning_count()
    if nefc and qacc_x is not None and np.all(np.isfinite(qacc_x)):
        jar = np.zeros(nefc)
        lib.mj_mulJacVec(mt, d, jar, np.ascontiguousarray(qacc_x, dtype=float))
        jar -= np.array(d.efc_aref, float)[:nefc]
        cost = np.zeros(1)
        lib.mj_constraintUpdate(mt, d, jar, cost, 0)
        fx = np.array(d.efc_force, float)[:nefc].copy()
        qfc = np.zeros(nv)
        lib.mj_mulJacTVec(mt, d, qfc, fx)
        r["qfc_at_x"] = qfc
    # step from the same state
    c_set_state(lib, mt, d, st)
    lib.mj_step(mt, d)
    r["next_qpos"] = np.array(d.qpos, float).copy()
    r["next_qvel"] = np.array(d.qvel, float).copy()
    r["next_act"] = np.array(d.act, float).copy()
    r["next_time"] = float(d.time)
    r["step_niter"] = int(np.array(d.solver_niter)[0])
    return r


# ------------------------------------------------------------------------------------------------ MJX evaluation

X_PUBLIC = ["xpos", "xquat", "xmat", "xipos", "ximat", "xanchor", "xaxis", "geom_xpos", "geom_xmat", "site_xpos",
            "site_xmat", "cam_xpos", "cam_xmat", "subtree_com", "cdof", "cvel", "cdof_dot", "ten_length",
            "actuator_length", "qfrc_passive", "qfrc_gravcomp", "qfrc_bias", "actuator_force", "qfrc_actuator",
            "act_dot", "qfrc_smooth", "qacc_smooth", "qfrc_constraint", "qacc", "sensordata"]
X_IMPL = ["ten_J", "actuator_moment", "ten_velocity", "actuator_velocity", "efc_J", "efc_pos", "efc_margin",
          "efc_frictionloss", "efc_D", "efc_aref", "efc_force"]
X_CONTACT = ["dist", "pos", "frame", "includemargin", "friction", "solref", "solreffriction", "solimp", "geom"]


def batch_states(J, states):
    jp = J.jp
    keys = [k for k in states[0] if k in ("qpos", "qvel", "ctrl", "act", "qfrc_applied", "xfrc_applied", "eq_active",
                                           "mocap_pos", "mocap_quat")]
    out = {}
    for k in keys:
        arr = np.stack([np.asarray(s[k]) for s in states])
        out[k] = jp.asarray(arr.astype(bool) if k == "eq_active" else arr.astype(float))
    return out


def apply_state(dx, s):
    return dx.replace(**s)


def make_eval(J, mx, dx0, use_step=True):
    """f(state dict) -> dict of forward fields + next state, for one sample (vmap/jit it)."""
    fwd, jp = J.fwd, J.jp

    def f(s):
        d = apply_state(dx0, s)
        df = fwd.forward(mx, d)
        out = {k: getattr(df, k) for k in X_PUBLIC}
        for k in X_IMPL:
            out[k] = getattr(df._impl, k)
        out["M"] = J.support.full_m(mx, df)
        out["solver_niter"] = df._impl.solver_niter
        c = df._impl.contact
        for k in X_CONTACT:
            out["contact_" + k] = getattr(c, k)
        # the real step(): its internal call forward(m, d) on this very d is answered from df (pure memoisation)
        orig = fwd.forward

        def memo(m_, d_):
            if d_ is d and m_ is mx:
                return df
            return orig(m_, d_)
        fwd.forward = memo
        try:
            ds = fwd.step(mx, d)
        finally:
            fwd.forward = orig
        out["next_qpos"], out["next_qvel"], out["next_act"], out["next_time"] = ds.qpos, ds.qvel, ds.act, ds.time
        return out
    return f


def to_numpy(tree):
    return {k: np.asarray(v) for k, v in tree.items()}


def mjx_frame(exc):
    """'file.py:function' of the innermost traceback frame that lies in the tree's mjx/_src."""
    import traceback
    where = "?"
    for fr in traceback.extract_tb(exc.__traceback__):
        if "/mjx/mujoco/mjx/_src/" in fr.filename:
            where = "%s:%s" % (os.path.basename(fr.filename), fr.name)
    return where
