"""History explorer shared by C01 and C04: state builders, transfers, the differential oracle.

A *state* of the explorer is a history: (model, option, donor builder, receiver history, transfer,
call-sequence prefix).  Live mjData objects cannot be copied without using the API under test, so
every state is rebuilt by replaying its history on fresh mj_makeData objects.

Oracle after every call applied to donor and receiver (native/drivers/c01_cmp.cc: c01_classify):
every field of mjData (all MJDATA_POINTERS buffers, all arena arrays with shape and NULL-ness, all
scalars incl. pstack/pbase/parena, solver statistics, warnings; ignored: timers, maxuse_*,
threadpool, plugin_data) must be bit-identical, except bytes that are provably not results of the
call: bytes the call left untouched in BOTH objects (compared with a snapshot taken before the
call), and arena bytes that still hold the arena poison in BOTH objects (arrays allocated by the
call but never written).  The dead part of the arena is filled with a different poison byte in donor
and receiver before every call, so that reads of stale / uninitialised arena memory diverge.
"""
from __future__ import annotations

import numpy as np

from .. import mj
from . import _c01_native as N

NSTATE = 14
INTEGRATION = (1 << NSTATE) - 1
mjSTAGE_NONE, mjSTAGE_POS, mjSTAGE_VEL = 0, 1, 2

CALLS = ["step", "forward", "inverse", "step12", "fskip_pos", "fskip_vel"]
SKIP_CALLS = ("fskip_pos", "fskip_vel")
KEEP_ARENA_CALLS = SKIP_CALLS + ("step2",)       # calls that use the arena arrays of the previous call
RECEIVERS = ["fresh", "reset", "used", "usedfwd", "garbage"]
TRANSFERS = ["copyData", "copyState", "getset"]
SLEEP_FIELDS = frozenset(["tree_asleep", "tree_awake", "body_awake", "body_awake_ind", "parent_awake_ind", "dof_awake_ind",
                          "ntree_awake", "nbody_awake", "nparent_awake", "nv_awake"])
STATE_FIELDS = frozenset(["time", "qpos", "qvel", "act", "history", "qacc_warmstart", "ctrl", "qfrc_applied", "xfrc_applied",
                          "eq_active", "mocap_pos", "mocap_quat", "userdata", "plugin_state"])
POISON_D, POISON_R = 0xA5, 0x5A      # arena fill bytes for donor / receiver (distinct on purpose)


def do_call(lib, m, d, c):
    if c == "step":
        lib.mj_step(m, d)
    elif c == "forward":
        lib.mj_forward(m, d)
    elif c == "inverse":
        lib.mj_inverse(m, d)
    elif c == "step12":
        lib.mj_step1(m, d)
        lib.mj_step2(m, d)
    elif c == "step1":
        lib.mj_step1(m, d)
    elif c == "step2":
        lib.mj_step2(m, d)
    elif c == "fskip_pos":
        lib.mj_forwardSkip(m, d, mjSTAGE_POS, 0)
    elif c == "fskip_vel":
        lib.mj_forwardSkip(m, d, mjSTAGE_VEL, 0)
    else:
        raise ValueError(c)


def ncalls(c):
    return 2 if c == "step12" else 1


def seq_excluded(seq, state_transfer):
    """Explicit exclusion rule R1: mj_forwardSkip(stage>=POS) is specified only when the skipped stages were computed by
    a forward-type call on this mjData (doc: 'assumes that the fields ... have already been computed').  That is not the
    case (a) as first call on a receiver that only got the state, (b) directly after mj_inverse, whose position stage does
    not build the dual/island data (mj_inverse; mj_forwardSkip(POS) dereferences NULL efc_AR with the PGS solver)."""
    if state_transfer and seq[0] in SKIP_CALLS:
        return True
    for a, b in zip(seq, seq[1:]):
        if a == "inverse" and b in SKIP_CALLS:
            return True
    return False


# ---------------------------------------------------------------------------------------------- fast Data wrappers

class Factory:
    """Creates mj.Data wrappers without re-enumerating the reflection table for every object."""

    def __init__(self, lib, m):
        self.lib = lib
        self.m = m
        proto = lib.make_data(m)
        self.f = proto._f
        self.nbuffer = int(proto.nbuffer)
        self.narena = int(proto.narena)
        proto.free()
        self.pert = {}

    def wrap(self, ptr):
        d = object.__new__(mj.Data)
        object.__setattr__(d, "lib", self.lib)
        object.__setattr__(d, "model", self.m)
        object.__setattr__(d, "ptr", ptr)
        object.__setattr__(d, "own", True)
        object.__setattr__(d, "_cache", {})
        object.__setattr__(d, "_f", self.f)
        return d

    def make(self, poison=None):
        """Fresh mj_makeData object.  With `poison`, the dead arena memory is filled with that byte now and before every
        history call made through hist_call, so that arena arrays which a call allocates but never writes have a
        deterministic content (instead of whatever malloc returned)."""
        p = self.lib.mj_makeData(self.m)
        if not p:
            raise mj.MjError("mj_makeData returned NULL")
        d = self.wrap(p)
        object.__setattr__(d, "poison", poison)
        if poison is not None:
            N.cmp_for(self.lib).poison(d, False, poison)
        return d

    def hist_call(self, d, c):
        if d.poison is not None:
            N.cmp_for(self.lib).poison(d, c not in KEEP_ARENA_CALLS, d.poison)
        do_call(self.lib, self.m, d, c)


def _pat(n, k, scale):
    return np.array([scale * ((-1) ** (i + k)) * (1 + 0.25 * i) for i in range(n)], dtype=np.float64)


def _pert_arrays(m, k):
    nv, nb = m.nv, m.nbody
    p = {"vel": _pat(nv, k, 0.3), "dqvel": _pat(nv, k + 1, 0.2), "qfrc": _pat(nv, k, 0.02),
         "xfrc": (0.01 * k) * np.array([[((-1) ** (b + j)) * (1 + 0.1 * j) for j in range(6)] for b in range(1, nb)]).reshape(-1, 6),
         "ctrl": _pat(m.nu, k, 0.4), "dact": _pat(m.na, k, 0.05),
         "eq": np.array([int(m.eq_active0[i]) ^ ((i + k) % 2) for i in range(m.neq)], dtype=np.uint8),
         "user": k + 0.5 * np.arange(m.nuserdata)}
    return p


def perturb(fac, d, k, quiet=False):
    """Deterministic perturbation number k of every component of the integration state (except history / plugin state /
    warm start, which evolve by stepping).  quiet=True touches only fields that do not wake sleeping trees."""
    lib, m = fac.lib, fac.m
    p = fac.pert.get(k)
    if p is None:
        p = fac.pert[k] = _pert_arrays(m, k)
    if m.nv and not quiet:
        lib.mj_integratePos(m, d.qpos, p["vel"], 0.05)      # public API, keeps quaternions normalised
        d.qvel[:] = d.qvel + p["dqvel"]
        d.qfrc_applied[:] = p["qfrc"]
        if m.nbody > 1:
            d.xfrc_applied[1:, :] = p["xfrc"]
    if m.nu:
        d.ctrl[:] = p["ctrl"]
    if m.na and not quiet:
        d.act[:] = d.act + p["dact"]
    if m.nmocap:
        d.mocap_pos[...] = d.mocap_pos + 0.004 * k
        q = d.mocap_quat + 0.03 * k * np.array([0.0, 1.0, -0.5, 0.25])
        d.mocap_quat[...] = q / np.linalg.norm(q, axis=-1, keepdims=True)
    if m.neq:
        d.eq_active[:] = p["eq"]
    if m.nuserdata:
        d.userdata[:] = p["user"]


def build_donor(fac, kind):
    """Donor state builders (histories on a fresh mjData)."""
    d = fac.make(POISON_D)
    quiet = kind == "B"     # B: nothing that wakes a sleeping tree; init-asleep trees stay asleep
    perturb(fac, d, 1, quiet)
    fac.hist_call(d, "step")
    fac.hist_call(d, "step")
    perturb(fac, d, 3, quiet)   # derived fields no longer match the state: every output of the next call changes
    return d


def build_receiver(fac, hist, cmp=None, k=3):
    lib, m = fac.lib, fac.m
    d = fac.make(POISON_R)
    if hist == "fresh":
        return d
    perturb(fac, d, 2)
    if hist == "usedfwd":
        fac.hist_call(d, "forward")
        return d
    for _ in range(k):
        fac.hist_call(d, "step")
    fac.hist_call(d, "inverse")
    if hist == "reset":
        lib.mj_resetData(m, d)
    elif hist == "garbage":
        # doc (simulation.rst, Integration state): "All other mjData fields are functions of the integration state":
        # overwrite every non-state mjtNum buffer with garbage (qacc is an input of inverse dynamics and is set by the caller)
        cmp.garbage(m, d, STATE_FIELDS)
    return d


def transfer(fac, donor, rcv, how):
    lib, m = fac.lib, fac.m
    if how == "copyData":
        lib.mj_copyData(rcv, m, donor)
    elif how == "copyState":
        lib.mj_copyState(m, donor, rcv, INTEGRATION)
    elif how == "getset":
        n = lib.mj_stateSize(m, INTEGRATION)
        buf = np.full(n + 1, np.nan)
        lib.mj_getState(m, donor, buf, INTEGRATION)
        lib.mj_setState(m, rcv, buf, INTEGRATION)
    else:
        raise ValueError(how)


def poison_both(cmp, donor, rcv, call):
    """Before a call: fill the dead arena memory of donor and receiver with distinct patterns (the whole arena when the
    call recomputes the position stage and therefore re-allocates every arena array)."""
    full = call not in SKIP_CALLS
    cmp.poison(donor, full, POISON_D)
    cmp.poison(rcv, full, POISON_R)
