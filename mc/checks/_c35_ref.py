"""C35 reference model: closed-form mass properties of MuJoCo's primitive geoms (solid and shell), exact mass
properties of a closed triangle mesh (solid and shell), composition with the parallel-axis theorem.

Written from textbook formulas and the MJCF documentation (geom sizes: sphere r; capsule/cylinder r, half-height along
z; ellipsoid/box half-axes), not from user_objects.cc.  `selftest()` checks every closed form against Gauss-Legendre
quadrature of the defining integrals.
"""
from __future__ import annotations

import math

import numpy as np

PI = math.pi


# ------------------------------------------------------------------------------------------ primitives
# each returns (measure, diag(I)/mass) with measure = volume (solid) or area (shell), COM at the geom origin

def sphere(size, shell=False):
    r = size[0]
    if shell:
        return 4 * PI * r * r, np.full(3, 2 * r * r / 3)
    return 4 * PI * r ** 3 / 3, np.full(3, 2 * r * r / 5)


def cylinder(size, shell=False):
    r, hh = size[0], size[1]
    h = 2 * hh
    if not shell:
        return PI * r * r * h, np.array([(3 * r * r + h * h) / 12] * 2 + [r * r / 2])
    a_side = 2 * PI * r * h
    a_disk = PI * r * r
    A = a_side + 2 * a_disk
    ixx = (a_side * (r * r / 2 + h * h / 12) + 2 * a_disk * (r * r / 4 + hh * hh)) / A
    izz = (a_side * r * r + 2 * a_disk * r * r / 2) / A
    return A, np.array([ixx, ixx, izz])


def capsule(size, shell=False):
    r, hh = size[0], size[1]
    h = 2 * hh
    if not shell:
        v_c = PI * r * r * h
        v_s = 4 * PI * r ** 3 / 3
        V = v_c + v_s
        # two solid hemispheres: about a diameter of the flat face I = 2/5 m r^2, COM 3r/8 above the face
        ixx_s = 2 * r * r / 5 - (3 * r / 8) ** 2 + (hh + 3 * r / 8) ** 2
        ixx = (v_c * (3 * r * r + h * h) / 12 + v_s * ixx_s) / V
        izz = (v_c * r * r / 2 + v_s * 2 * r * r / 5) / V
        return V, np.array([ixx, ixx, izz])
    a_c = 2 * PI * r * h
    a_s = 4 * PI * r * r
    A = a_c + a_s
    # hemispherical shells: about a diameter of the rim I = 2/3 m r^2, COM r/2 above the rim plane
    ixx_s = 2 * r * r / 3 - (r / 2) ** 2 + (hh + r / 2) ** 2
    ixx = (a_c * (r * r / 2 + h * h / 12) + a_s * ixx_s) / A
    izz = (a_c * r * r + a_s * 2 * r * r / 3) / A
    return A, np.array([ixx, ixx, izz])


def box(size, shell=False):
    a, b, c = size[0], size[1], size[2]
    if not shell:
        return 8 * a * b * c, np.array([b * b + c * c, a * a + c * c, a * a + b * b]) / 3
    # faces x=+-a (area 4bc), y=+-b (4ac), z=+-c (4ab); a rectangle 2p x 2q has second moments p^2/3, q^2/3 per unit mass
    fx, fy, fz = 4 * b * c, 4 * a * c, 4 * a * b
    A = 2 * (fx + fy + fz)
    sxx = (2 * fx * a * a + 2 * fy * a * a / 3 + 2 * fz * a * a / 3) / A     # <x^2>
    syy = (2 * fx * b * b / 3 + 2 * fy * b * b + 2 * fz * b * b / 3) / A
    szz = (2 * fx * c * c / 3 + 2 * fy * c * c / 3 + 2 * fz * c * c) / A
    return A, np.array([syy + szz, sxx + szz, sxx + syy])


_GL = {}


def _gl(n):
    if n not in _GL:
        _GL[n] = np.polynomial.legendre.leggauss(n)
    return _GL[n]


def ellipsoid_shell_exact(size, n=160):
    """uniform surface density on the ellipsoid x^2/a^2+y^2/b^2+z^2/c^2=1: area and <x^2>,<y^2>,<z^2> by Gauss-Legendre
    quadrature in (u=cos(theta), phi) (smooth periodic integrand; converged to ~1e-13 for aspect ratios <= 3)."""
    a, b, c = size[0], size[1], size[2]
    xu, wu = _gl(n)                      # u in [-1,1]
    m = 2 * n
    phi = (np.arange(m) + 0.5) * (2 * PI / m)    # trapezoid/midpoint in phi: spectral for periodic integrands
    U, P = np.meshgrid(xu, phi, indexing="ij")
    W = np.outer(wu, np.full(m, 2 * PI / m))
    s = np.sqrt(1 - U * U)
    x, y, z = a * s * np.cos(P), b * s * np.sin(P), c * U
    # dA = sqrt( (bc x/a)^2 + (ac y/b)^2 + (ab z/c)^2 ) du dphi   (from |r_u x r_phi| with u = cos theta)
    dA = np.sqrt((b * c * s * np.cos(P)) ** 2 + (a * c * s * np.sin(P)) ** 2 + (a * b * U) ** 2) * W
    A = dA.sum()
    sxx, syy, szz = (x * x * dA).sum() / A, (y * y * dA).sum() / A, (z * z * dA).sum() / A
    return A, np.array([syy + szz, sxx + szz, sxx + syy])


def ellipsoid(size, shell=False):
    a, b, c = size[0], size[1], size[2]
    if not shell:
        return 4 * PI * a * b * c / 3, np.array([b * b + c * c, a * a + c * c, a * a + b * b]) / 5
    return ellipsoid_shell_exact(size)


PRIM = {"sphere": sphere, "capsule": capsule, "cylinder": cylinder, "ellipsoid": ellipsoid, "box": box}


# ------------------------------------------------------------------------------------------ polyhedra

def poly_solid(V, F):
    """closed, outward-oriented triangle mesh: volume, COM, inertia tensor about the COM per unit density.
    signed tetrahedra from the origin; covariance of a tetrahedron (0,a,b,c): det/120 * (sum v v' + (sum v)(sum v)')."""
    V = np.asarray(V, float)
    vol = 0.0
    first = np.zeros(3)
    cov = np.zeros((3, 3))
    for f in F:
        a, b, c = V[f[0]], V[f[1]], V[f[2]]
        det = float(np.dot(a, np.cross(b, c)))
        vol += det / 6
        s = a + b + c
        first += det / 24 * s
        cov += det / 120 * (np.outer(a, a) + np.outer(b, b) + np.outer(c, c) + np.outer(s, s))
    com = first / vol
    cov_c = cov - vol * np.outer(com, com)
    I = np.trace(cov_c) * np.eye(3) - cov_c
    return vol, com, I


def poly_shell(V, F):
    """triangle surface with uniform area density: area, centroid, inertia tensor about the centroid per unit density.
    second moment of a triangle: A/12 * (sum v v' + (sum v)(sum v)')."""
    V = np.asarray(V, float)
    area = 0.0
    first = np.zeros(3)
    cov = np.zeros((3, 3))
    for f in F:
        a, b, c = V[f[0]], V[f[1]], V[f[2]]
        A = 0.5 * float(np.linalg.norm(np.cross(b - a, c - a)))
        s = a + b + c
        area += A
        first += A * s / 3
        cov += A / 12 * (np.outer(a, a) + np.outer(b, b) + np.outer(c, c) + np.outer(s, s))
    com = first / area
    cov_c = cov - area * np.outer(com, com)
    I = np.trace(cov_c) * np.eye(3) - cov_c
    return area, com, I


# ------------------------------------------------------------------------------------------ composition

def quat2mat(q):
    q = np.asarray(q, float)
    q = q / np.linalg.norm(q)
    w, x, y, z = q
    return np.array([
        [1 - 2 * (y * y + z * z), 2 * (x * y - w * z), 2 * (x * z + w * y)],
        [2 * (x * y + w * z), 1 - 2 * (x * x + z * z), 2 * (y * z - w * x)],
        [2 * (x * z - w * y), 2 * (y * z + w * x), 1 - 2 * (x * x + y * y)]])


def parallel(m, d):
    d = np.asarray(d, float)
    return m * (np.dot(d, d) * np.eye(3) - np.outer(d, d))


def combine(parts):
    """parts: list of (mass, com(3), I about own com (3x3), all in one frame) -> (M, com, I about com)."""
    M = sum(p[0] for p in parts)
    com = sum(p[0] * np.asarray(p[1], float) for p in parts) / M
    I = np.zeros((3, 3))
    for m, c, Ic in parts:
        I += Ic + parallel(m, np.asarray(c, float) - com)
    return M, com, I


def placed(m, com_local, I_local, pos, quat):
    """express a part given in a local frame (pos, quat) in the parent frame."""
    R = quat2mat(quat)
    return m, np.asarray(pos, float) + R @ np.asarray(com_local, float), R @ I_local @ R.T


# ------------------------------------------------------------------------------------------ meshes that tessellate primitives

def box_mesh(a, b, c):
    V = np.array([[sx * a, sy * b, sz * c] for sx in (-1, 1) for sy in (-1, 1) for sz in (-1, 1)], float)
    quads = [(0, 1, 3, 2), (4, 6, 7, 5), (0, 4, 5, 1), (2, 3, 7, 6), (0, 2, 6, 4), (1, 5, 7, 3)]
    F = []
    for q in quads:
        F += [(q[0], q[1], q[2]), (q[0], q[2], q[3])]
    return V, _outward(V, F)


def prism_mesh(n, r, hh):
    """regular n-gon prism inscribed in the cylinder (r, hh), caps fanned from a centre vertex."""
    ang = [2 * PI * k / n for k in range(n)]
    bot = [[r * math.cos(t), r * math.sin(t), -hh] for t in ang]
    top = [[r * math.cos(t), r * math.sin(t), hh] for t in ang]
    V = np.array(bot + top + [[0, 0, -hh], [0, 0, hh]], float)
    cb, ct = 2 * n, 2 * n + 1
    F = []
    for k in range(n):
        k1 = (k + 1) % n
        F += [(k, k1, n + k1), (k, n + k1, n + k), (cb, k1, k), (ct, n + k, n + k1)]
    return V, _outward(V, F)


def lshape_mesh(a=0.1, t=0.04, hh=0.03):
    """non-convex L-shaped prism (footprint [0,a]x[0,a] minus (t,a]x(t,a]), outward oriented."""
    P = [(0, 0), (a, 0), (a, t), (t, t), (t, a), (0, a)]
    n = len(P)
    V = np.array([[x, y, -hh] for x, y in P] + [[x, y, hh] for x, y in P], float)
    tris2d = [(0, 1, 2), (0, 2, 3), (0, 3, 4), (0, 4, 5)]      # fan from the reflex-free corner (valid for this L)
    F = []
    for (i, j, k) in tris2d:
        F += [(i, k, j), (n + i, n + j, n + k)]
    for k in range(n):
        k1 = (k + 1) % n
        F += [(k, k1, n + k1), (k, n + k1, n + k)]
    return V, [tuple(f) for f in F]


def lshape_exact(a=0.1, t=0.04, hh=0.03):
    """closed form for the L prism: two boxes."""
    # box 1: [0,a]x[0,t], box 2: [0,t]x[t,a]
    parts = []
    for (x0, x1, y0, y1) in ((0, a, 0, t), (0, t, t, a)):
        sx, sy = (x1 - x0) / 2, (y1 - y0) / 2
        vol, ipm = box((sx, sy, hh))
        parts.append((vol, np.array([(x0 + x1) / 2, (y0 + y1) / 2, 0.0]), np.diag(ipm) * vol))
    return combine(parts)


def _outward(V, F):
    """orient every triangle away from the vertex mean (valid for convex meshes)."""
    c = V.mean(axis=0)
    out = []
    for f in F:
        a, b, cc = V[f[0]], V[f[1]], V[f[2]]
        nrm = np.cross(b - a, cc - a)
        if np.dot(nrm, (a + b + cc) / 3 - c) < 0:
            out.append((f[0], f[2], f[1]))
        else:
            out.append(tuple(f))
    return out


# ------------------------------------------------------------------------------------------ self test

def _revolution(profile_pieces, shell, disks=()):
    """numeric mass properties of a body of revolution about z.  profile_pieces: list of (z0, z1, rho(z), drho/dz(z))."""
    x, w = _gl(64)
    M = 0.0
    izz = 0.0
    ixx = 0.0
    for z0, z1, rho, drho in profile_pieces:
        z = 0.5 * (z1 - z0) * x + 0.5 * (z1 + z0)
        ww = 0.5 * (z1 - z0) * w
        r = rho(z)
        if shell:
            ds = np.sqrt(1 + drho(z) ** 2)
            dm = 2 * PI * r * ds * ww
            M += dm.sum()
            izz += (dm * r * r).sum()
            ixx += (dm * (r * r / 2 + z * z)).sum()
        else:
            dm = PI * r * r * ww
            M += dm.sum()
            izz += (dm * r * r / 2).sum()
            ixx += (dm * (r * r / 4 + z * z)).sum()
    for zc, r in disks:
        dm = PI * r * r
        M += dm
        izz += dm * r * r / 2
        ixx += dm * (r * r / 4 + zc * zc)
    return M, np.array([ixx, ixx, izz]) / M


def selftest():
    """closed forms vs quadrature; returns the largest relative deviation."""
    worst = 0.0

    def cmp(a, b):
        nonlocal worst
        worst = max(worst, abs(a[0] - b[0]) / abs(b[0]), float(np.max(np.abs(a[1] - b[1]) / np.abs(b[1]))))
    for r, hh in ((0.05, 0.08), (0.03, 0.2), (0.11, 0.02)):
        # the sphere-cap profile has an integrable end-point singularity for the shell: substitute z = hh + r sin(t)
        for shell in (False, True):
            cyl = [(-hh, hh, lambda z: np.full_like(z, r), lambda z: np.zeros_like(z))]
            cmp(cylinder((r, hh), shell), _revolution(cyl, shell, disks=((-hh, r), (hh, r)) if shell else ()))
        # capsule, solid: profile integration is smooth enough in z for the solid
        cap = [(-hh - r, -hh, lambda z: np.sqrt(np.maximum(r * r - (z + hh) ** 2, 0)), None),
               (-hh, hh, lambda z: np.full_like(z, r), None),
               (hh, hh + r, lambda z: np.sqrt(np.maximum(r * r - (z - hh) ** 2, 0)), None)]
        cmp(capsule((r, hh), False), _revolution(cap, False))
        # capsule, shell: integrate the caps in the polar angle
        x, w = _gl(64)
        t = 0.25 * PI * x + 0.25 * PI
        wt = 0.25 * PI * w
        dm = 2 * PI * r * np.cos(t) * r * wt            # ring at latitude t on the upper cap
        z = hh + r * np.sin(t)
        rr = r * np.cos(t)
        Mc = 2 * dm.sum()
        izz = 2 * (dm * rr * rr).sum()
        ixx = 2 * (dm * (rr * rr / 2 + z * z)).sum()
        a_c = 2 * PI * r * 2 * hh
        M = Mc + a_c
        izz += a_c * r * r
        ixx += a_c * (r * r / 2 + (2 * hh) ** 2 / 12)
        cmp(capsule((r, hh), True), (M, np.array([ixx, ixx, izz]) / M))
        cmp(sphere((r,), True), ellipsoid_shell_exact((r, r, r)))
    for sz in ((0.05, 0.07, 0.09), (0.1, 0.04, 0.02)):
        # box solid/shell against its 12-triangle mesh
        Vb, Fb = box_mesh(*sz)
        v, c, I = poly_solid(Vb, Fb)
        cmp(box(sz, False), (v, np.diag(I) / v))
        a, c, I = poly_shell(Vb, Fb)
        cmp(box(sz, True), (a, np.diag(I) / a))
        # ellipsoid solid against a stretched fine prism stack is overkill: use the affine image of the sphere integral
        r = 1.0
        vs, ips = sphere((r,), False)
        sxx = ips[0] / 2                    # <x^2> of the unit ball = 1/5
        a_, b_, c_ = sz
        cmp(ellipsoid(sz, False), (vs * a_ * b_ * c_, np.array([b_ * b_ + c_ * c_, a_ * a_ + c_ * c_, a_ * a_ + b_ * b_]) * sxx))
    vL, cL, IL = lshape_exact()
    VL, FL = lshape_mesh()
    v, c, I = poly_solid(VL, FL)
    worst = max(worst, abs(v - vL) / vL, float(np.max(np.abs(c - cL))) / 0.1, float(np.max(np.abs(I - IL)) / np.max(np.abs(IL))))
    return worst
