"""C14 Collision pair selection is complete and respects the filters.

Scenes of <= 4 (thorough 5) bodies on an integer grid {0,1,2}^2 x spacing alphabet, static / mocap / free /
hinged-child / welded-child bodies, 1-2 geoms per body (sphere, box, capsule, small inline mesh), a world plane and
a world sphere, per-body contype/conaffinity in {(1,1),(1,2),(2,1),(0,0)}, an explicit <pair> on every geom pair
and an <exclude> on every body pair in turn, flags filterparent / midphase / override / contact / constraint
on-off, sleeping with trees initialised asleep.

Oracle: the documented selection rules (doc/computation "Collision detection / Selection", XMLreference
contact/pair, contact/exclude, geom/contype, margin, gap, option/o_margin, flag/*; sleeping: computation
"Sleeping islands") written here from the scene description (weld groups, parents, masks are NOT read from the
compiled model) AND mj_geomDistance < margin + gap; compared as a set with the geom pairs in mjData.contact.
Determinism: identical contact array on a second run, on a fresh mjData, and body-pair-major order.
"""
import itertools
import math

import numpy as np

from .. import alphabet as A
from .. import core, mj

LEVEL = "exploration"
META = dict(
    category=LEVEL,
    technique="exhaustive bounded enumeration of grid scenes x filter settings (small-scope lattice), brute-force all-pairs oracle "
              "written from the documentation",
    text="A pruning error drops a pair only in particular spatial arrangements and a filter error only for particular body "
         "relations, so the check enumerates every placement of 3 (4) bodies on a 3x3 grid for several spacings chosen at the "
         "overlap / just-inside / just-outside boundaries of the margin, every kind tuple over {free, static, mocap, hinged child, "
         "welded child}, every mask assignment, every single explicit pair / exclude, and the collision-related flags, and compares "
         "the contact pair set with a brute-force application of the documented rules. The lattice is finite and fully enumerated; "
         "the verdict holds on the lattice.",
    note="Distances come from mj_geomDistance (narrow-phase correctness is C13/C15); pairs whose distance is within 1e-9 of the "
         "detection threshold (1e-5 for GJK/EPA-based pairs: capsule-box, mesh, box-box) are boundary-excluded; box-box pairs are judged by "
         "calling the box-box primitive directly on the pair (it misses some separated rotated boxes that GJK finds inside large margins). Flex, hfield, "
         "SDF geoms and the mjcb_contactfilter callback are not in the alphabet. Contact parameter mixing (priority, solmix) is "
         "not selection and is only checked for explicit pairs (own margin / condim).",
    design_ref="DESIGN.md §3 C14")

PLANE, SPHERE, CAPSULE, BOX, MESH = 0, 2, 3, 6, 7
TYPENAME = {PLANE: "plane", SPHERE: "sphere", CAPSULE: "capsule", BOX: "box", MESH: "mesh"}
DSBL_CONSTRAINT, DSBL_CONTACT, DSBL_FILTERPARENT, DSBL_MIDPHASE, DSBL_ISLAND = 1 << 0, 1 << 4, 1 << 10, 1 << 14, 1 << 18
DSBL_NATIVECCD = 1 << 17
ENBL_OVERRIDE, ENBL_SLEEP = 1 << 0, 1 << 4
O_MARGIN = 0.3
MASKS = [(1, 1), (1, 2), (2, 1), (0, 0)]
DISTMAX = 6.0
# pairs whose narrow phase / distance is analytic (1e-9 boundary); everything else goes through GJK/EPA (ccd_tolerance 1e-6)
ANALYTIC = {(PLANE, SPHERE), (PLANE, CAPSULE), (PLANE, BOX), (SPHERE, SPHERE), (SPHERE, CAPSULE), (SPHERE, BOX), (CAPSULE, CAPSULE)}

KEY_SHALLOW = "broad phase drops a pair that is inside the margin by less than 2e-6 (float-rounded sweep-and-prune endpoints, max sorted before min on ties)"
KEY_STATIC = "explicit <pair> between two dof-less bodies yields a contact that mj_island rejects with mju_error"
KEY_BPFULL = ("mj_broadphase raises 'broadphase buffer full': a dof-less non-world body that owns a plane is paired with every body AND swept, "
              "the duplicates overflow the nbody(nbody-1)/2 buffer")
KEY_OVERRIDE_GAP = "override enabled: pair inside o_margin+gap but outside o_margin is dropped by the broad/mid phase (bounds use o_margin without gap)"


# ------------------------------------------------------------------ scene description

class Geom:
    def __init__(self, gtype, size, pos=(0, 0, 0), quat=(1, 0, 0, 0), mask=(1, 1), margin=0.0, gap=0.0, mesh=None):
        self.type, self.size, self.pos, self.quat, self.mask, self.margin, self.gap, self.mesh = gtype, size, pos, quat, mask, margin, gap, mesh


class Body:
    def __init__(self, kind, pos, geoms, init_asleep=False):
        self.kind, self.pos, self.geoms, self.init_asleep = kind, tuple(pos), geoms, init_asleep


class SceneSpec:
    """bodies[0] is the world (kind 'world', geoms = world geoms); kinds: F free, S static, M mocap, C hinged child of the
    previous body, W joint-less child of the previous body."""

    def __init__(self, bodies, pairs=(), excludes=(), sleep=False, o_margin=O_MARGIN):
        self.bodies, self.pairs, self.excludes, self.sleep, self.o_margin = bodies, list(pairs), list(excludes), sleep, o_margin
        nb = len(bodies)
        self.parent = [0] * nb
        for i in range(1, nb):
            self.parent[i] = i - 1 if bodies[i].kind in "CW" else 0
        # weld groups from the documentation: joint-less bodies belong to their parent's group; mocap bodies start their own
        self.weld = [0] * nb
        self.dofs = [0] * nb      # dofs of the body itself
        for i in range(1, nb):
            k = bodies[i].kind
            self.dofs[i] = {"F": 6, "C": 1}.get(k, 0)
            self.weld[i] = i if k in "FCM" else self.weld[self.parent[i]]
        self.geoms = []           # (body, Geom)
        for b, body in enumerate(bodies):
            for g in body.geoms:
                self.geoms.append((b, g))
        self.pairdict = {}
        for (g1, g2, margin, gap, condim) in self.pairs:
            self.pairdict[(min(g1, g2), max(g1, g2))] = (margin, gap, condim)
        self.excl = set((min(a, b), max(a, b)) for a, b in self.excludes)

    def weld_dofs(self, w):
        return self.dofs[w]

    def parent_weld(self, w):
        return self.weld[self.parent[w]]

    # ---------------------------------------------------------------- MJCF
    def xml(self):
        bodies = self.bodies
        meshes = {}
        gid = [0]

        def geom_xml(g):
            name = "g%d" % gid[0]
            gid[0] += 1
            s = '<geom name="%s" type="%s" pos="%.17g %.17g %.17g" quat="%.17g %.17g %.17g %.17g" contype="%d" conaffinity="%d" margin="%.17g" gap="%.17g"' % (
                name, TYPENAME[g.type], *g.pos, *g.quat, g.mask[0], g.mask[1], g.margin, g.gap)
            if g.type == MESH:
                meshes[g.mesh[0]] = g.mesh[1]
                s += ' mesh="%s"' % g.mesh[0]
            else:
                s += ' size="%s"' % " ".join("%.17g" % x for x in g.size)
            return s + "/>"
        children = {i: [] for i in range(len(bodies))}
        for i in range(1, len(bodies)):
            children[self.parent[i]].append(i)

        def body_xml(i):
            b = bodies[i]
            pp = bodies[self.parent[i]].pos if self.parent[i] else (0, 0, 0)
            rel = [b.pos[k] - pp[k] for k in range(3)]
            s = '<body name="b%d" pos="%.17g %.17g %.17g"%s%s>' % (i, *rel, ' mocap="true"' if b.kind == "M" else "",
                                                                 ' sleep="init"' if b.init_asleep else "")
            if b.kind == "F":
                s += '<freejoint name="j%d"/>' % i
            elif b.kind == "C":
                s += '<joint name="j%d" type="hinge" axis="0 0 1"/>' % i
            if b.kind in "FCW":
                s += '<inertial pos="0 0 0" mass="1" diaginertia="0.1 0.1 0.1"/>'
            gx = "".join(geom_xml(g) for g in b.geoms)
            s += gx
            for c in children[i]:
                s += body_xml(c)
            return s + "</body>"
        world = "".join(geom_xml(g) for g in bodies[0].geoms)
        rest = "".join(body_xml(c) for c in children[0])
        asset = "".join('<mesh name="%s" vertex="%s"/>' % (n, " ".join("%.17g" % x for x in np.asarray(v).ravel())) for n, v in meshes.items())
        xml = '<mujoco><option o_margin="%.17g" gravity="0 0 0"><flag sleep="%s"/></option><size memory="400K"/>' % (
            self.o_margin, "enable" if self.sleep else "disable")
        if asset:
            xml += "<asset>" + asset + "</asset>"
        xml += "<worldbody>" + world + rest + "</worldbody>"
        if self.pairs or self.excludes:
            xml += "<contact>"
            for (g1, g2, margin, gap, condim) in self.pairs:
                xml += '<pair geom1="g%d" geom2="g%d" margin="%.17g" gap="%.17g" condim="%d"/>' % (g1, g2, margin, gap, condim)
            for (a, b) in self.excludes:
                xml += '<exclude body1="%s" body2="%s"/>' % ("world" if a == 0 else "b%d" % a, "world" if b == 0 else "b%d" % b)
            xml += "</contact>"
        return xml + "</mujoco>"


# ------------------------------------------------------------------ oracle

def has_collider(t1, t2):
    return not (t1 == PLANE and t2 == PLANE)


def expected_set(sc, dist, flags_dis, flags_en, body_state, part, boxbox_hit=None):
    """dict (g1,g2) -> (margin, condim or None) of the pairs that must be in mjData.contact; also returns the set of
    boundary-excluded pairs.  body_state[b] in {'awake','asleep','static'} (only used when sleeping is enabled)."""
    exp, boundary = {}, set()
    if flags_dis & (DSBL_CONSTRAINT | DSBL_CONTACT):
        return exp, boundary
    filterparent = not (flags_dis & DSBL_FILTERPARENT)
    override = bool(flags_en & ENBL_OVERRIDE)
    sleeping = bool(flags_en & ENBL_SLEEP)
    ng = len(sc.geoms)
    for g1 in range(ng):
        b1, G1 = sc.geoms[g1]
        for g2 in range(g1 + 1, ng):
            b2, G2 = sc.geoms[g2]
            if not has_collider(G1.type, G2.type):
                continue
            explicit = sc.pairdict.get((g1, g2))
            if explicit is not None:
                margin, gap, condim = explicit
            else:
                condim = None
                if b1 == b2:
                    continue
                w1, w2 = sc.weld[b1], sc.weld[b2]
                if w1 == w2:
                    continue
                if sc.weld_dofs(w1) == 0 and sc.weld_dofs(w2) == 0:
                    continue
                if filterparent and w1 != 0 and w2 != 0 and (sc.parent_weld(w1) == w2 or sc.parent_weld(w2) == w1):
                    continue
                if (min(b1, b2), max(b1, b2)) in sc.excl:
                    continue
                if not ((G1.mask[0] & G2.mask[1]) or (G2.mask[0] & G1.mask[1])):
                    continue
                margin, gap = G1.margin + G2.margin, G1.gap + G2.gap
            if sleeping and body_state[b1] != "awake" and body_state[b2] != "awake":
                continue    # sleeping islands behave like static bodies: island-island and island-static contacts are skipped
            if override:
                margin = sc.o_margin
            thr = margin + gap
            dd = dist[(g1, g2)]
            tol = 1e-9 if (min(G1.type, G2.type), max(G1.type, G2.type)) in ANALYTIC else 1e-5
            if abs(dd - thr) < tol:
                boundary.add((g1, g2))
                continue
            hit = dd < thr
            if G1.type == BOX and G2.type == BOX and boxbox_hit is not None:
                # the pipeline uses the box-box primitive, whose verdict for separated rotated boxes differs from the GJK distance
                # (narrow-phase accuracy is C13): pair SELECTION is judged against the primitive called directly on the pair
                prim = boxbox_hit(g1, g2, thr)
                if prim != hit:
                    part.add("boxbox_primitive_disagrees_with_gjk_distance")
                hit = prim
            if hit:
                exp[(g1, g2)] = (margin, condim, thr - dd, gap)
    return exp, boundary


class Compiled:
    """A compiled scene + the bookkeeping to evaluate it under several flag settings."""

    def __init__(self, lib, sc, xml=None):
        self.lib, self.sc = lib, sc
        self.xml = xml or sc.xml()
        self.m = lib.load_xml(self.xml)
        self.d = lib.make_data(self.m)
        m = self.m
        # harness self-check: ids as predicted from the description
        gb = [b for b, _ in sc.geoms]
        if m.ngeom != len(gb) or list(np.array(m.geom_bodyid)) != gb or m.nbody != len(sc.bodies):
            raise RuntimeError("harness: geom/body numbering differs from the description\n" + self.xml)
        if list(np.array(m.geom_type)) != [g.type for _, g in sc.geoms]:
            raise RuntimeError("harness: geom types differ")
        self.dis0, self.en0 = int(m.opt.disableflags), int(m.opt.enableflags)
        self.pairs = [(g1, g2) for g1 in range(m.ngeom) for g2 in range(g1 + 1, m.ngeom)
                      if has_collider(sc.geoms[g1][1].type, sc.geoms[g2][1].type)]

    def free(self):
        if self.d is not None and self.d.ptr:
            self.d.free()
        self.m.free()

    def distances(self, d):
        lib, m = self.lib, self.m
        return {p: lib.mj_geomDistance(m, d, p[0], p[1], DISTMAX, None) for p in self.pairs}

    def boxbox_hit(self, d, g1, g2, thr):
        m = self.m
        saved = int(m.opt.disableflags)
        m.opt.disableflags = saved | DSBL_NATIVECCD
        r = self.lib.mj_geomDistance(m, d, g1, g2, thr, None)
        m.opt.disableflags = saved
        return r < thr

    def body_state(self, d):
        sc = self.sc
        asleep = np.array(d.tree_asleep)
        treeid = np.array(self.m.body_treeid)
        out = []
        for b in range(len(sc.bodies)):
            if treeid[b] >= 0:
                out.append("asleep" if asleep[treeid[b]] >= 0 else "awake")
            else:
                out.append("awake" if (b and self._mocaproot(b)) else "static")
        return out

    def _mocaproot(self, b):
        sc = self.sc
        while sc.parent[b]:
            b = sc.parent[b]
        return sc.bodies[b].kind == "M"


def canonical(part, key, what, rp):
    """One root cause, one key: record it once per worker part (Part keeps at most 50 violations)."""
    part.add("hits: " + key[:60])
    if not any(v["key"] == key for v in part["violations"]):
        part.violation(key, what, rp)


def contact_pairs(d):
    c = d.contact
    n = d.ncon
    if n == 0:
        return [], c
    g = np.array(c["geom"]).reshape(n, 2)
    return [(int(min(a, b)), int(max(a, b))) for a, b in g], c


def contact_bytes(c):
    return b"".join(c[f].tobytes() for f in c.dtype.names)


def evaluate(cs, part, label, dis, en, replay, d=None, check_fresh=False, nontrivial=True):
    """One evaluation: run mj_forward under the flag setting and compare with the oracle.  Returns the ordered pair list."""
    lib, m, sc = cs.lib, cs.m, cs.sc
    d = d or cs.d
    m.opt.disableflags = cs.dis0 | dis
    m.opt.enableflags = cs.en0 | en
    key = "%s dis=%#x en=%#x" % (label, dis, en)
    rp = dict({k: v for k, v in replay.items() if not k.startswith("_")}, disableflags=cs.dis0 | dis, enableflags=cs.en0 | en,
              qpos=np.array(d.qpos).tolist(), mocap_pos=np.array(d.mocap_pos).tolist())
    island_off = False
    try:
        lib.mj_forward(m, d)
    except mj.MjError as e:
        if "between two static bodies" in str(e):
            canonical(part, KEY_STATIC, "mj_forward raised '%s' (%s): the model compiles, explicit pairs are documented to bypass the body-pair "
                           "filters, the contact is created; with a dense Jacobian it gets all-zero constraint rows and island discovery aborts (the sparse "
                      "path marks it exclude=3 'no dofs')" % (e, key), rp)
            part.add("static_pair_errors")
            # continue the set comparison with islands disabled on a fresh mjData
            d = lib.make_data(m)
            if cs.d is not None and cs.d.ptr:
                pass
            cs.d = d
            m.opt.disableflags = cs.dis0 | dis | DSBL_ISLAND
            island_off = True
            restore_qpos = replay.get("_restore")
            if restore_qpos is not None:
                restore_qpos(d)
            try:
                lib.mj_forward(m, d)
            except mj.MjError as e2:
                part.violation("mju_error | " + key, "mj_forward raised %s" % e2, rp)
                return None
        elif "broadphase buffer full" in str(e):
            canonical(part, KEY_BPFULL, "mj_forward raised '%s' for a model that compiles (%s)" % (e, key), rp)
            cs.d = lib.make_data(m)
            m.opt.disableflags, m.opt.enableflags = cs.dis0, cs.en0
            part.count(1)
            return None
        else:
            part.violation("mju_error | " + key, "mj_forward raised %s" % e, rp)
            cs.d = lib.make_data(m)
            m.opt.disableflags, m.opt.enableflags = cs.dis0, cs.en0
            return None
    got_list, c = contact_pairs(d)
    got = set(got_list)
    dist = cs.distances(d)
    bstate = cs.body_state(d) if (en | cs.en0) & ENBL_SLEEP else None
    exp, boundary = expected_set(sc, dist, cs.dis0 | dis, cs.en0 | en, bstate, part,
                                 boxbox_hit=lambda a, b, thr: cs.boxbox_hit(d, a, b, thr))
    if boundary:
        part.add("boundary_excluded", len(boundary))
    missing = [p for p in exp if p not in got]
    extra = [p for p in got if p not in exp and p not in boundary]
    for p in missing:
        margin, condim, depth, gap = exp[p]
        b1, b2 = sc.geoms[p[0]][0], sc.geoms[p[1]][0]
        desc = "geoms %s (bodies %d,%d kinds %s,%s) dist-threshold=%.3g explicit=%s" % (
            p, b1, b2, sc.bodies[b1].kind, sc.bodies[b2].kind, -depth, p in sc.pairdict)
        if (en & ENBL_OVERRIDE) and gap > 0 and depth < gap:
            canonical(part, KEY_OVERRIDE_GAP, "expected pair missing from mjData.contact: %s at %s" % (desc, key), rp)
        elif depth < 2e-6:
            canonical(part, KEY_SHALLOW, "expected pair missing from mjData.contact: %s at %s" % (desc, key), rp)
        else:
            part.violation("missing pair | " + key + " | %s" % (p,), "pair selected by the documented rules and within margin is missing from mjData.contact: %s at %s"
                           % (desc, key), rp)
    for p in extra:
        b1, b2 = sc.geoms[p[0]][0], sc.geoms[p[1]][0]
        part.violation("unexpected pair | " + key + " | %s" % (p,),
                       "mjData.contact holds a pair that the documented rules exclude or that is outside margin+gap: geoms %s (bodies %d,%d kinds %s,%s) "
                       "dist=%.6g explicit=%s at %s" % (p, b1, b2, sc.bodies[b1].kind, sc.bodies[b2].kind, dist.get(p, float("nan")), p in sc.pairdict, key), rp)
    # explicit pairs use their own parameters
    override = bool((en | cs.en0) & ENBL_OVERRIDE)
    for i, p in enumerate(got_list):
        if p in sc.pairdict and p in exp:
            margin, condim = exp[p][0], exp[p][1]
            if float(c["includemargin"][i]) != margin or int(c["dim"][i]) != condim:
                part.violation("explicit pair parameters | " + key, "contact of explicit pair %s has includemargin=%g dim=%d, the pair element says %g / %d%s"
                               % (p, c["includemargin"][i], c["dim"][i], margin, condim, " (override)" if override else ""), rp)
    # documented order: body-pair major, contacts of one body pair (and of one geom pair) contiguous
    bp = [(min(sc.geoms[a][0], sc.geoms[b][0]), max(sc.geoms[a][0], sc.geoms[b][0])) for a, b in got_list]
    if any(bp[i] > bp[i + 1] for i in range(len(bp) - 1)):
        part.violation("contact order | " + key, "contacts are not sorted by (first body, second body): body pairs %s" % bp, rp)
    runs = [p for i, p in enumerate(got_list) if i == 0 or got_list[i - 1] != p]
    if len(runs) != len(set(runs)):
        part.violation("duplicate pair | " + key, "a geom pair appears in two separate runs of mjData.contact: %s" % got_list, rp)
    # determinism: second run on the same mjData
    first = contact_bytes(c)
    try:
        lib.mj_forward(m, d)
        got2, c2 = contact_pairs(d)
        if got2 != got_list or contact_bytes(c2) != first:
            part.violation("second run differs | " + key, "a second mj_forward on the same mjData gives a different contact array", rp)
        if check_fresh and not island_off:
            d3 = lib.make_data(m)
            if replay.get("_restore") is not None:
                replay["_restore"](d3)
            lib.mj_forward(m, d3)
            got3, c3 = contact_pairs(d3)
            if got3 != got_list or contact_bytes(c3) != first:
                part.violation("fresh mjData differs | " + key, "a fresh mjData gives a different contact array: %s vs %s" % (got3, got_list), rp)
            d3.free()
            part.add("fresh_mjdata_comparisons")
    except mj.MjError as e:
        part.violation("mju_error | " + key, "second mj_forward raised %s" % e, rp)
    nt = nontrivial and len(exp) >= 1 and len(exp) < len(cs.pairs)
    part.count(1, key=key if nt else None, sample=dict(rp, contacts=got_list)
               if (nt and len(got_list) >= 2 and len(part["samples"]) < 1) else None)
    m.opt.disableflags, m.opt.enableflags = cs.dis0, cs.en0
    return got_list


def midphase_order(part, lists, label, rp):
    """engine_collision_driver.c says its post-sort 'reproduces the order of contacts without mj_collideTree'.  The documentation only
    promises body-pair-major order, so a different order WITHIN a body pair is counted as an observation (it happens for a body that
    holds a plane and a box: contactcompare 'un-swaps' by geom type instead of by body)."""
    for (dis, en), lst in lists.items():
        if dis & DSBL_MIDPHASE or lst is None:
            continue
        other = lists.get((dis | DSBL_MIDPHASE, en))
        if other is not None and other != lst and set(other) == set(lst):
            # not part of the documented order (body-pair major) -> observation, not a violation
            part.add("observation_contact_order_within_body_pair_depends_on_midphase")


# ------------------------------------------------------------------ shapes

R = 0.5
Q30 = (math.cos(math.pi / 12), 0.0, 0.0, math.sin(math.pi / 12))                  # 30 deg about z
QGEN = tuple(np.array([0.8, 0.2, -0.4, 0.4]) / np.linalg.norm([0.8, 0.2, -0.4, 0.4]))
TETRA = ("tet", A.TETRA * 5.0)                                                       # half extent 0.5


def sph(r=R, **kw):
    return Geom(SPHERE, (r,), **kw)


def box(h=(0.5, 0.3, 0.2), **kw):
    return Geom(BOX, h, **kw)


def cap(r=0.3, h=0.4, **kw):
    return Geom(CAPSULE, (r, h), **kw)


def mesh(**kw):
    return Geom(MESH, None, mesh=TETRA, **kw)


def world_body(plane=True, wsphere=None, mask=(1, 1), margin=0.0):
    g = []
    if plane:
        g.append(Geom(PLANE, (5, 5, 0.1), mask=mask, margin=margin))
    if wsphere is not None:
        g.append(Geom(SPHERE, (0.4,), pos=wsphere, mask=mask, margin=margin))
    return Body("world", (0, 0, 0), g)


# ------------------------------------------------------------------ L1: placement lattice (run-time placements)

def l1_models(thorough):
    """(label, kinds, geoms per body (margin, gap filled by variant))"""
    out = []
    # variant 3 ("uneven"): per-body margins 0.2x / 1.8x / 1x / 1x of the nominal one, so that the first two bodies still meet at
    # the nominal threshold (sum of margins = 2*mg) while twice the smaller margin is far below it: a bound built from one
    # body's margin only (broad/mid phase) would drop pairs that are inside the sum
    for mv, (mg, gp, fac) in enumerate([(0.0, 0.0, None), (0.1, 0.0, None), (0.05, 0.025, None), (0.1, 0.0, (0.2, 1.8, 1.0, 1.0)),
                                        (0.1, 0.0, (1.8, 0.2, 1.0, 1.0))]):
        k = [dict(margin=mg * (fac[i] if fac else 1.0), gap=gp) for i in range(4)]
        shapes = {
            "spheres": [[sph(**k[0])], [sph(**k[1])], [sph(**k[2])], [sph(**k[3])]],
            "mixed": [[box(quat=Q30, **k[0])], [sph(**k[1])], [cap(quat=QGEN, **k[2])], [box(h=(0.3, 0.3, 0.3), **k[3])]],
            "mesh": [[mesh(quat=Q30, **k[0])], [box(**k[1])], [sph(**k[2])], [mesh(**k[3])]],
            "twogeom": [[sph(**k[0]), sph(pos=(1.0, 0, 0), **k[0])], [box(**k[1]), sph(r=0.3, pos=(0, 1.0, 0), **k[1])], [sph(**k[2])],
                        [cap(**k[3]), sph(pos=(0, -1.0, 0), **k[3])]],
            "sizes": [[sph(r=1.2, **k[0])], [sph(r=0.05, **k[1])], [cap(r=0.2, h=0.9, quat=QGEN, **k[2])], [sph(**k[3])]],
        }
        if fac:
            shapes = {n: shapes[n] for n in ("twogeom", "mixed")}
        for name, gl in shapes.items():
            kindsets = [("F", "F", "F")]
            if name == "mixed":
                kindsets += [("M", "F", "F"), ("F", "S", "F")]
            if thorough and name in ("spheres", "twogeom"):
                kindsets.append(("F", "F", "F", "F"))
            for kinds in kindsets:
                out.append(("L1 %s mv=%d kinds=%s" % (name, mv, "".join(kinds)), kinds, gl[:len(kinds)], mg, gp))
    return out


def _l1_chunk(chunk):
    lib = mj.load()
    part = core.Part()
    for label, kinds, gl, mg, gp, spacings in chunk:
        n = len(kinds)
        # the sphere set lives in one horizontal plane so that axis neighbours are exactly at the spacing; the others vary in height
        # (so does the two-geom set: its primary geoms then meet exactly at the threshold spacing along x while the root boxes of
        # the per-body BVHs are separated by about the margin -- the arrangement in which a wrong mid-phase bound drops a pair)
        zs = ([R - 0.05] * n) if (" spheres " in label or " twogeom " in label) else [R - 0.05, R + 0.3, R + 0.8, R + 0.3][:n]
        bodies = [world_body(plane=True, margin=mg)]
        for i in range(n):
            # static bodies sit at the centre cell of the nominal grid
            bodies.append(Body(kinds[i], (1.0, 1.0, zs[i]) if kinds[i] == "S" else (float(i), 0.0, zs[i]), gl[i]))
        sc = SceneSpec(bodies)
        cs = Compiled(lib, sc)
        m = cs.m
        M = 2 * (mg + gp)
        movable = [i for i in range(n) if kinds[i] != "S"]
        nmoc = 0
        slot = {}
        for i in movable:
            if kinds[i] == "M":
                slot[i] = ("mocap", nmoc)
                nmoc += 1
            else:
                slot[i] = ("qpos", int(m.jnt_qposadr[m.body_jntadr[i + 1]]))
        for si, s in enumerate(spacings):
            sval = 2 * R + M + s
            for pi, cells in enumerate(itertools.product(range(9), repeat=len(movable))):
                def place(d, cells=cells, sval=sval):
                    for i, cidx in zip(movable, cells):
                        x, y = sval * (cidx % 3), sval * (cidx // 3)
                        kind, adr = slot[i]
                        if kind == "mocap":
                            d.mocap_pos[adr] = (x, y, zs[i])
                        else:
                            d.qpos[adr:adr + 3] = (x, y, zs[i])
                place(cs.d)
                rp = {"xml": cs.xml, "label": label, "spacing": sval, "cells": list(cells), "movable_bodies": [i + 1 for i in movable],
                      "_restore": place}
                lab = "%s s=2r+M%+g cells=%s" % (label, s, "".join(map(str, cells)))
                lists = {}
                for dis in (0, DSBL_MIDPHASE):
                    lists[(dis, 0)] = evaluate(cs, part, lab, dis, 0, rp, check_fresh=(pi % 40 == 0 and dis == 0))
                midphase_order(part, lists, lab, rp)
                if pi % 3 == si % 3:
                    evaluate(cs, part, lab, 0, ENBL_OVERRIDE, rp)
                place(cs.d)
        cs.free()
    return part


# ------------------------------------------------------------------ L2/L3: filter lattice (one compiled model per scene)

def kind_tuples(n):
    for first in "FSM":
        for rest in itertools.product("FSMCW", repeat=n - 1):
            yield (first,) + rest


def filter_scene(kinds, masks, twogeom, pairs=(), excludes=(), wmask=(1, 1)):
    """Clustered placement: every geom pair is within margin, so that the filters decide.
    twogeom == 2: the plane belongs to the first body (static or mocap) instead of the world."""
    n = len(kinds)
    planebody = twogeom == 2
    bodies = [world_body(plane=not planebody, wsphere=(0.0, 0.9, 0.5), mask=wmask, margin=0.25)]
    for i in range(n):
        gs = [sph(r=0.8, mask=masks[i], margin=0.25)]
        if twogeom and i % 2 == 0:
            # the second geom carries the NEXT body's mask: body-level mask prefilters must OR over the geoms
            gs.append(box(h=(0.3, 0.3, 0.3), pos=(0.0, -0.8, 0.2), quat=Q30, mask=masks[(i + 1) % n], margin=0.25))
        if planebody and i == 0:
            gs.append(Geom(PLANE, (5, 5, 0.1), pos=(0.0, 0.0, -0.75), mask=masks[i], margin=0.25))
        bodies.append(Body(kinds[i], (float(i), 0.1 * i, 0.75), gs))
    return SceneSpec(bodies, pairs=pairs, excludes=excludes)


FLAGSETS_FULL = [(dis, en) for dis in (0, DSBL_FILTERPARENT, DSBL_MIDPHASE, DSBL_FILTERPARENT | DSBL_MIDPHASE) for en in (0, ENBL_OVERRIDE)] \
    + [(DSBL_CONTACT, 0), (DSBL_CONSTRAINT, 0)]
FLAGSETS_SMALL = [(0, 0), (DSBL_FILTERPARENT, 0), (DSBL_MIDPHASE, 0), (0, ENBL_OVERRIDE)]


def _l2_chunk(chunk):
    lib = mj.load()
    part = core.Part()
    for kinds, masks, twogeom in chunk:
        sc = filter_scene(kinds, masks, twogeom)
        cs = Compiled(lib, sc)
        label = "L2 kinds=%s masks=%s two=%d" % ("".join(kinds), "".join("%d%d" % mk for mk in masks), twogeom)
        rp = {"xml": cs.xml, "label": label}
        lists = {}
        for k, (dis, en) in enumerate(FLAGSETS_FULL if twogeom == 1 else FLAGSETS_SMALL):
            lists[(dis, en)] = evaluate(cs, part, label, dis, en, rp, check_fresh=(k == 0))
        midphase_order(part, lists, label, rp)
        cs.free()
    return part


def _l3_chunk(chunk):
    lib = mj.load()
    part = core.Part()
    for kinds, mi, what in chunk:
        n = len(kinds)
        masks = [[(1, 1)] * n, [(0, 0)] * n, [MASKS[1 + (i % 2)] for i in range(n)], [MASKS[2 - (i % 2)] for i in range(n)]][mi]
        wmask = [(1, 1), (0, 0), (1, 2), (2, 1)][mi]
        base = filter_scene(kinds, masks, True, wmask=wmask)
        pairs, excludes = [], []
        if what[0] == "pair":      # explicit pair with its own margin: 0 (only touching geoms collide) or 2.0 (everything in reach)
            _, g1, g2, variant = what
            pairs = [(g1, g2, (0.0, 1.5)[variant], (0.0, 0.1)[variant], (1, 4)[variant])]
        elif what[0] == "exclude":
            excludes = [(what[1], what[2])]
        elif what[0] == "multi":    # many explicit pairs at once (all / even-indexed / odd-indexed geom pairs): merge of the two pair sources
            ng = len(base.geoms)
            allp = [(a, b) for a in range(ng) for b in range(a + 1, ng) if has_collider(base.geoms[a][1].type, base.geoms[b][1].type)]
            sel = [pq for k, pq in enumerate(allp) if what[1] == 0 or k % 2 == what[1] - 1]
            pairs = [(a, b, 0.3 + 0.01 * k, 0.0, 3) for k, (a, b) in enumerate(sel)]
        else:                       # exclude on a body pair + explicit pair on one of its geom pairs
            _, b1, b2, g1, g2 = what
            excludes = [(b1, b2)]
            pairs = [(g1, g2, 0.4, 0.0, 3)]
        sc = filter_scene(kinds, masks, True, pairs=pairs, excludes=excludes, wmask=wmask)
        cs = Compiled(lib, sc)
        label = "L3 kinds=%s masks=%d %s" % ("".join(kinds), mi, "-".join(map(str, what)))
        rp = {"xml": cs.xml, "label": label}
        for k, (dis, en) in enumerate(FLAGSETS_SMALL):
            evaluate(cs, part, label, dis, en, rp, check_fresh=(k == 0))
        cs.free()
    return part


def l3_items(n, kindlist, mask_patterns):
    items = []
    for kinds in kindlist:
        base = filter_scene(kinds, [(1, 1)] * n, True)
        ng = len(base.geoms)
        nb = len(base.bodies)
        for mi in mask_patterns:
            for g1 in range(ng):
                for g2 in range(g1 + 1, ng):
                    if not has_collider(base.geoms[g1][1].type, base.geoms[g2][1].type):
                        continue
                    for variant in (0, 1):
                        items.append((kinds, mi, ("pair", g1, g2, variant)))
            for k in range(3):
                items.append((kinds, mi, ("multi", k)))
            for b1 in range(nb):
                for b2 in range(b1 + 1, nb):
                    items.append((kinds, mi, ("exclude", b1, b2)))
                    gs1 = [g for g in range(ng) if base.geoms[g][0] == b1]
                    gs2 = [g for g in range(ng) if base.geoms[g][0] == b2]
                    if has_collider(base.geoms[gs1[0]][1].type, base.geoms[gs2[-1]][1].type):
                        items.append((kinds, mi, ("both", b1, b2, gs1[0], gs2[-1])))
    return items


# ------------------------------------------------------------------ L4: sleeping

def _l4_chunk(chunk):
    lib = mj.load()
    part = core.Part()
    for variant, kinds, pairs_on in chunk:
        # body 1 (and 2 in variant 'two') initialised asleep; the remaining bodies are placed on the grid at run time
        n = len(kinds)
        zs = [R - 0.05, R - 0.05, R + 0.3]
        init = {"one": [True, False, False], "two": [True, True, False]}[variant]
        cells0 = [(1, 1), (1, 2), (0, 0)]
        s = 2 * R - 0.1
        bodies = [world_body(plane=True)]
        for i in range(n):
            c0 = cells0[i] if init[i] else (5 + 2 * i, 5 + 2 * i)     # awake bodies start far away (a sleep=init island must be all init)
            bodies.append(Body(kinds[i], (s * c0[0], s * c0[1], zs[i]), [sph()], init_asleep=init[i]))
        pairs = []
        if pairs_on:
            pairs = [(0, 1, 0.0, 0.0, 3)]      # explicit pair plane - sleeping sphere
            if pairs_on == 2:
                pairs.append((1, 3, 0.2, 0.0, 1))   # explicit pair sleeping sphere - third body's sphere
        sc = SceneSpec(bodies, pairs=pairs, sleep=True)
        try:
            cs = Compiled(lib, sc)
        except mj.MjError as e:
            raise RuntimeError("harness: sleep scene rejected: %s" % e)
        m = cs.m
        movable = [i for i in range(n) if not init[i]]
        slot = {}
        nmoc = 0
        for i in movable:
            if kinds[i] == "M":
                slot[i] = ("mocap", nmoc)
                nmoc += 1
            else:
                slot[i] = ("qpos", int(m.jnt_qposadr[m.body_jntadr[i + 1]]))
        label0 = "L4 %s kinds=%s pairs=%d" % (variant, "".join(kinds), pairs_on)
        for cells in itertools.product(range(9), repeat=len(movable)):
            def place(d, cells=cells):
                lib.mj_resetData(m, d)
                for i, cidx in zip(movable, cells):
                    x, y = s * (cidx % 3), s * (cidx // 3)
                    kind, adr = slot[i]
                    if kind == "mocap":
                        d.mocap_pos[adr] = (x, y, zs[i])
                    else:
                        d.qpos[adr:adr + 3] = (x, y, zs[i])
            for dis in (0, DSBL_MIDPHASE):
                place(cs.d)
                pre = np.array(cs.d.tree_asleep).copy()
                if not all(pre[int(m.body_treeid[i + 1])] >= 0 for i in range(n) if init[i]):
                    raise RuntimeError("harness: sleep=init tree is not asleep after reset")
                rp = {"xml": cs.xml, "label": label0, "cells": list(cells), "_restore": place}
                got = evaluate(cs, part, "%s cells=%s" % (label0, "".join(map(str, cells))), dis, 0, rp, check_fresh=(dis == 0))
                post = np.array(cs.d.tree_asleep)
                if got is not None:
                    part.add("sleep_evaluations_some_tree_still_asleep", int(np.any(post >= 0)))
                    part.add("sleep_evaluations_woken", int(np.any((pre >= 0) & (post < 0))))
        cs.free()
    return part


# ------------------------------------------------------------------ run

def run(ctx):
    mj.load()
    # L1
    spac = [-0.2, -1e-6, -1e-8, 1e-8, 1e-6]
    items = [(label, kinds, gl, mg, gp, [s]) for (label, kinds, gl, mg, gp) in l1_models(ctx.thorough) for s in spac]
    ctx.extra["L1_models"] = len(items)
    core.pmap(ctx, _l1_chunk, items, nchunks=len(items))
    # L2
    n2 = 3
    items = [(kinds, masks, two) for kinds in kind_tuples(n2) for masks in itertools.product(MASKS, repeat=n2) for two in (0, 1)]
    items += [(kinds, masks, 2) for kinds in kind_tuples(n2) if kinds[0] in "SM" for masks in itertools.product(MASKS, repeat=n2)]
    if ctx.thorough:
        items += [(kinds, masks, 1) for kinds in kind_tuples(4) for masks in itertools.product(MASKS, repeat=4)]
    else:
        items += [(kinds, (mk,) * 4, 1) for kinds in kind_tuples(4) for mk in MASKS[:2]]
    ctx.extra["L2_scenes"] = len(items)
    core.pmap(ctx, _l2_chunk, items, nchunks=256)
    # L3
    l3_masks = (0, 1, 2, 3) if ctx.thorough else (0, 1)
    items = l3_items(3, list(kind_tuples(3)), l3_masks)
    ctx.extra["L3_scenes"] = len(items)
    core.pmap(ctx, _l3_chunk, items, nchunks=256)
    # L4
    items = []
    for variant in ("one", "two"):
        for kinds in (("F", "F", "F"), ("F", "F", "M")) + ((("F", "M", "F"),) if variant == "one" else ()):
            for pairs_on in (0, 1, 2):
                items.append((variant, kinds, pairs_on))
    ctx.extra["L4_models"] = len(items)
    core.pmap(ctx, _l4_chunk, items, nchunks=len(items))
    ctx.rule = ("L1: %d (model, spacing) items = (5 shape sets x 3 margin/gap variants x kind sets) x spacing 2r+M+{-0.2,-1e-6,-1e-8,+1e-8,+1e-6} x ALL 9^n "
                "placements of the movable bodies on the grid {0,1,2}^2 x {default, midphase off, (1/3) override}; L2: every kind tuple over "
                "{F,S,M}x{F,S,M,C,W}^(n-1) x every mask assignment from {(1,1),(1,2),(2,1),(0,0)}^n x {1,2 geoms/body, plane owned by a static/mocap body} for n=3 (n=4: %s) x 10 flag settings "
                "(2 geoms/body) or 4 (others); L3: n=3, every kind tuple x mask patterns x {explicit pair (2 parameter sets) on every geom pair, exclude on every "
                "body pair, exclude+pair, explicit pairs on all / even / odd geom pairs at once} x 4 flag settings (mask patterns: %s); L4: sleep enabled, 1-2 trees initialised asleep (+mocap), 0-2 explicit pairs, all "
                "placements of the awake bodies x midphase on/off. non-trivial = evaluation whose expected set is neither empty nor all pairs"
                % (ctx.extra["L1_models"], "all masks" if ctx.thorough else "2 uniform masks",
                   "all (1,1) / all (0,0) / alternating (1,2),(2,1) / alternating (2,1),(1,2)" if ctx.thorough else "all (1,1) / all (0,0)"))
    ctx.assumptions = ["geom distances from mj_geomDistance (same narrow phase as the contacts); boundary |dist-(margin+gap)| < 1e-9 (analytic pairs) / 1e-5 (GJK-EPA pairs) excluded",
                       "weld groups / parent relations / masks / pair and exclude lists are taken from the scene description, not from the compiled model",
                       "under sleeping the oracle uses the sleep state after mj_forward (wake-up is C18)"]
