"""C09 Forward and inverse dynamics agree.

Exhaustive over the shared constraint-mix lattice (mc/checks/_c09_models.py): every non-empty subset of
{equality(connect|weld|joint), friction loss, joint limit, tendon limit, contact condim 1/3/4/6} (511 mixes) on small
host models x cone {pyramidal, elliptic} x jacobian {dense, sparse} x state lattice (contacts penetrating / touching /
within margin, limits violated / inside margin / inactive, plus the 'idle' state of every (configuration, velocity): all
contacts separated beyond the margin and all limits inactive, i.e. NO constraint row at all for mixes without E / F and
only the E / F rows otherwise; configuration, velocity pattern) x mode lattice:

  continuous   mj_forward (Newton, tolerance 0, 200 iterations), then mj_inverse at the resulting qacc
  standalone   the same identity for a stand-alone mj_inverse (state and qacc written by the caller, no mj_forward at this
               state) on a second, never reset mjData that was last evaluated at the PREVIOUS state of the enumeration:
               every consecutive pair of lattice states is a history (active -> active, active -> no constraint row,
               no row -> active), so derived data left by the earlier evaluation must not enter the result
  fwdinv       mj_step with mjENBL_FWDINV: solver_fwdinv small, and mj_compareFwdInv leaves the forward results untouched
  discrete     integrator/flags in {Euler (implicit joint/actuator damping), Euler+eulerdamp disabled, Euler+damper
               disabled, implicit, implicit+damper disabled, implicitfast}: mj_step, qacc := (qvel+ - qvel)/h, mjENBL_INVDISCRETE, mj_inverse

Oracle (only when the forward solver reports convergence: last recorded gradient < 1e-10, otherwise counted and skipped):
  (a state without constraint rows counts as converged: the forward constraint force is exactly zero)
  qfrc_inverse == qfrc_applied + J'xfrc_applied + qfrc_actuator   (own J'xfrc from mj_jac at the body CoM; passive and
                   bias forces are internal: doc/computation "Inverse dynamics", last step)
  inverse efc_force == forward efc_force, and == the documented analytic inverse (reference law, dual problem with R only)
  inverse qfrc_constraint == forward qfrc_constraint (joint-space constraint force; also defined without any row)
"""
import numpy as np

from .. import core, mj
from . import _c09_models as C

LEVEL = "exploration"
META = dict(
    category=LEVEL,
    technique="exhaustive enumeration of a constraint-mix x cone x jacobian x state x integrator/flag lattice; "
              "differential (forward vs inverse) plus numpy reference of the analytic inverse constraint law",
    text="All 511 non-empty constraint mixes on small host models, both cones and both Jacobian layouts, are solved to "
         "convergence with Newton (tolerance 0) at a lattice of contact / limit states; mj_inverse at the resulting "
         "acceleration must return the applied + actuator forces and the same constraint forces, continuous-time and - for "
         "Euler / implicit / implicitfast with invdiscrete - for the finite-differenced velocity. The identity is also required "
         "at states where every contact and limit is inactive (no constraint row: forward constraint force zero) and for a "
         "stand-alone mj_inverse on an mjData last used at the previous lattice state, so a constraint force left over from an "
         "earlier evaluation cannot enter qfrc_inverse. Exhaustive over the lattice, "
         "so a row-type, layout or integrator branch that breaks the identity cannot hide.",
    note="Non-converged forward solves are counted and skipped. Thresholds: 1e-6 relative for the discrete-time identity "
         "(qacc is a finite difference of velocities, observed <= 1e-9), 1e-7 continuous (observed <= 1e-11). RK4 is excluded by the "
         "statement. qfrc scale = largest term of the equation of motion.",
    design_ref="DESIGN.md §3 C09")

GRAD_CONVERGED = 1e-10
STATE_INTEGRATION = (1 << 14) - 1      # mjSTATE_INTEGRATION: all 14 state components
TOL_CONT = 1e-7
TOL_DISC = 1e-6
EXPLICIT_MINIMAL = {   # stand-alone reproduction: damped pendulum pressed into its joint limit, damper disabled
    "xml": '<mujoco><option integrator="Euler" tolerance="0" iterations="200"><flag damper="disable" invdiscrete="enable"/></option>'
           '<worldbody><body><joint type="hinge" axis="0 1 0" damping="5" limited="true" range="-1 0.1"/>'
           '<geom type="capsule" fromto="0 0 0 0.3 0 0" size="0.02"/></body></worldbody></mujoco>',
    "qpos": [0.2], "qvel": [1.0], "qfrc_applied": [0.3],
    "procedure": "mj_step; qacc := (qvel+ - qvel)/h (== forward qacc, the step is explicit); restore qpos,qvel; mj_inverse",
    "observed": "qfrc_inverse = -14.17, efc_force = [0]",
    "expected": "qfrc_inverse = 0.3 (= qfrc_applied), efc_force = [8.5527] (forward value; obtained when invdiscrete is off)",
}
CONE_NAME = {0: "pyramidal", 1: "elliptic"}
MODES = [  # name, integrator, disable flags
    ("Euler", C.INT_EULER, 0),
    ("Euler/eulerdamp-off", C.INT_EULER, C.DSBL_EULERDAMP),
    ("Euler/damper-off", C.INT_EULER, C.DSBL_DAMPER),
    ("implicit", C.INT_IMPLICIT, 0),
    ("implicit/damper-off", C.INT_IMPLICIT, C.DSBL_DAMPER),
    ("implicitfast", C.INT_IMPLICITFAST, 0),
]


def _scales(lib, m, d, tau, qacc):
    Ma = np.zeros(m.nv)
    lib.mj_mulM(m, d, Ma, np.ascontiguousarray(qacc))
    return max(1.0, float(np.abs(tau).max()), float(np.abs(Ma).max()), float(np.abs(d.qfrc_constraint).max()),
               float(np.abs(d.qfrc_bias).max()), float(np.abs(d.qfrc_passive).max()))


def _hist(part, name, err):
    """Additive histogram of observed relative errors by decade (for calibration evidence)."""
    dec = -20 if err <= 1e-20 else int(np.floor(np.log10(err))) if np.isfinite(err) else 99
    part.add("err_%s_1e%+03d" % (name, dec))


def _converged(d):
    it, g, imp = C.solver_report(d, int(d.nisland))
    return g is not None and g < GRAD_CONVERGED


def _standalone(lib, host, part, bad, ident, cone, jac, st, qacc, tau, qc_fwd, f_fwd, qs, fs):
    """History dimension: mj_inverse is documented as a function of (qpos, qvel, act, qacc, inputs) alone, so the identity
    must also hold for a STAND-ALONE call (no mj_forward at this state on that mjData) on an mjData whose derived fields
    were left by the evaluation of the previous state of the enumeration.  host.d_used is never reset: it receives the
    integration state of host.d (mj_copyState), the forward acceleration, and one mj_inverse per lattice state, so every
    ordered pair (previous state, this state) of the state sequence is a history: active -> active, active -> no constraint
    row at all, no row -> active.  qacc None = forward solve not converged: the call is made (history chain) but not judged."""
    m, d, d2 = host.m, host.d, host.d_used
    prev_state, host.used_prev = host.used_prev, st
    xp = {"prev_state": prev_state}
    prev_qc = np.array(d2.qfrc_constraint)
    prev_nefc = int(d2.nefc)
    lib.mj_copyState(m, d, d2, STATE_INTEGRATION)
    d2.qacc[:] = d.qacc if qacc is None else qacc
    lib.mj_inverse(m, d2)
    if qacc is None:
        part.add("standalone_not_judged")
        return
    nefc = f_fwd.size
    if int(d2.nefc) != nefc:
        bad("stand-alone inverse on a used mjData builds a different constraint set", "standalone",
            "nefc %d vs %d" % (int(d2.nefc), nefc), xp)
        return
    e_q = float(np.abs(np.array(d2.qfrc_inverse) - tau).max()) / qs
    e_c = float(np.abs(np.array(d2.qfrc_constraint) - qc_fwd).max()) / qs
    e_f = float(np.abs(np.array(d2.efc_force[:nefc]) - f_fwd).max()) / fs if nefc else 0.0
    _hist(part, "standalone", max(e_q, e_c, e_f))
    detail = "previous evaluation on that mjData had %d constraint rows, |qfrc_constraint| %.3g; this state has %d rows" % (
        prev_nefc, float(np.abs(prev_qc).max()) if prev_qc.size else 0.0, nefc)
    if not e_q <= TOL_CONT:
        bad("stand-alone inverse on a used mjData: qfrc_inverse != applied + J'xfrc + actuator", "standalone",
            "rel err %.3g; %s" % (e_q, detail), xp)
    if not e_c <= TOL_CONT:
        bad("stand-alone inverse on a used mjData: qfrc_constraint != forward qfrc_constraint", "standalone",
            "rel err %.3g; %s" % (e_c, detail), xp)
    if not e_f <= TOL_CONT:
        bad("stand-alone inverse on a used mjData: efc_force != forward efc_force", "standalone", "rel err %.3g; %s" % (e_f, detail), xp)
    # non-trivial: the previous evaluation really left a constraint force, and it is not the one of this state
    stale = bool(np.any(prev_qc != 0)) and not np.array_equal(prev_qc, qc_fwd)
    part.count(1, key=(ident, cone, jac, st, "standalone") if stale else None)
    part.add("standalone_%s_to_%s" % ("fresh" if host.used_calls == 0 else ("active" if prev_nefc else "norow"),
                                      "active" if nefc else "norow"))
    host.used_calls += 1


def check_state(lib, host, part, st, cone, jac, ident, thorough):
    m, d = host.m, host.d
    cname = CONE_NAME[cone]
    base = dict(cone=cone, jacobian=jac, solver=C.SOL_NEWTON, tolerance=0.0, iterations=200)

    def bad(what, mode, detail, extra=None):
        rp = {"skel": host.skel, "atoms": host.atoms, "eq": host.eqkind, "state": st, "cone": cone, "jacobian": jac,
              "mode": mode, "xml": host.xml}
        if extra:
            rp.update(extra)
        C.report(part, "%s | mode=%s cone=%s" % (what, mode, cname),
                       "%s: %s (mode=%s cone=%s jacobian=%s mix=%s eq=%s skel=%s state=%s)" % (
                           what, detail, mode, cname, "sparse" if jac else "dense", "+".join(host.atoms), host.eqkind,
                           host.skel, st), rp)

    # ------------------------------------------------------------ continuous time
    host.set_options(**base)
    info = host.apply_state(st)
    lib.mj_forward(m, d)
    err = host.selfcheck_state(info)
    if err:
        raise RuntimeError("lattice self-check failed: %s %s %s %s" % (host.skel, host.atoms, st, err))
    nefc = int(d.nefc)
    conv = _converged(d) if nefc else True      # no constraint row: nothing to solve, qacc = qacc_smooth exactly
    qacc = np.array(d.qacc)
    f_fwd = np.array(d.efc_force[:nefc])
    qc_fwd = np.array(d.qfrc_constraint)
    tau = np.array(d.qfrc_applied) + C.xfrc_joint(lib, m, d) + np.array(d.qfrc_actuator)
    if nefc:
        law = C.Law(m, d)
        J = C.dense_J(m, d)
        f_ref = law.force(J @ qacc - np.array(d.efc_aref[:nefc]))
    else:
        f_ref = np.zeros(0)
    lib.mj_inverse(m, d)
    if int(d.nefc) != nefc:
        bad("inverse builds a different constraint set", "continuous", "nefc %d vs %d" % (int(d.nefc), nefc))
        return
    qs = max(_scales(lib, m, d, tau, qacc), float(np.abs(qc_fwd).max()))
    fs = max([1.0] + ([float(np.abs(f_fwd).max()), float(np.abs(f_ref).max())] if nefc else []))
    if nefc:
        # the analytic inverse does not depend on the forward solver having converged: checked at every returned qacc
        e_r = float(np.abs(np.array(d.efc_force[:nefc]) - f_ref).max()) / fs
        _hist(part, "law", e_r)
        if not e_r <= TOL_CONT:
            bad("inverse efc_force != documented analytic inverse", "continuous", "rel err %.3g" % e_r)
    if not conv:
        part.count(1)
        part.add("not_converged")
        _standalone(lib, host, part, bad, ident, cone, jac, st, None, None, None, None, qs, fs)     # keeps the history chain
        return
    e_q = float(np.abs(np.array(d.qfrc_inverse) - tau).max()) / qs
    e_f = float(np.abs(np.array(d.efc_force[:nefc]) - f_fwd).max()) / fs if nefc else 0.0
    e_c = float(np.abs(np.array(d.qfrc_constraint) - qc_fwd).max()) / qs
    _hist(part, "cont", max(e_q, e_f, e_c))
    if not e_q <= TOL_CONT:
        bad("qfrc_inverse != applied + J'xfrc + actuator", "continuous", "rel err %.3g" % e_q)
    if not e_f <= TOL_CONT:
        bad("inverse efc_force != forward efc_force", "continuous", "rel err %.3g" % e_f)
    if not e_c <= TOL_CONT:
        bad("inverse qfrc_constraint != forward qfrc_constraint", "continuous", "rel err %.3g" % e_c)
    nontriv = bool(np.any(f_fwd != 0))
    part.count(1, key=(ident, cone, jac, st, "cont") if nontriv else None,
               sample=({"skel": host.skel, "atoms": host.atoms, "eq": host.eqkind, "state": st, "cone": cname, "nefc": nefc,
                        "err": e_q} if nontriv and st[2] == 1 and ident[1] % 89 == 0 else None))
    _standalone(lib, host, part, bad, ident, cone, jac, st, qacc, tau, qc_fwd, f_fwd, qs, fs)
    if nefc == 0:
        part.add("no_constraint_rows")
        return

    # ------------------------------------------------------------ mj_compareFwdInv keeps the forward results
    lib.mj_forward(m, d)
    f0, q0, a0 = np.array(d.efc_force[:nefc]), np.array(d.qfrc_constraint), np.array(d.qacc)
    lib.mj_compareFwdInv(m, d)
    if (not np.array_equal(f0, d.efc_force[:nefc]) or not np.array_equal(q0, d.qfrc_constraint)
            or not np.array_equal(a0, d.qacc)):
        bad("mj_compareFwdInv modifies forward results", "fwdinv", "efc_force / qfrc_constraint / qacc changed")
    fi = np.array(d.solver_fwdinv)
    if not (fi[0] <= TOL_CONT * qs * np.sqrt(m.nv) and fi[1] <= TOL_CONT * qs * np.sqrt(m.nv)):
        bad("solver_fwdinv large after a converged solve", "fwdinv", "solver_fwdinv=%s scale %.3g" % (fi.tolist(), qs))
    part.count(1)

    # ------------------------------------------------------------ discrete time
    for name, integ, dis in MODES:
        host.set_options(integrator=integ, disable=dis, enable=C.ENBL_FWDINV, **base)
        host.apply_state(st)
        q_save, v_save, t_save = np.array(d.qpos), np.array(d.qvel), float(d.time)
        lib.mj_step(m, d)
        nefc2 = int(d.nefc)
        if nefc2 == 0 or not _converged(d):
            part.count(1)
            part.add("not_converged" if nefc2 else "no_constraint_rows")
            continue
        h = float(m.opt.timestep)
        vplus = np.array(d.qvel)
        f_step = np.array(d.efc_force[:nefc2])
        fi = np.array(d.solver_fwdinv)
        tau2 = np.array(d.qfrc_applied) + C.xfrc_joint(lib, m, d) + np.array(d.qfrc_actuator)
        qacc_cont = np.array(d.qacc)
        qs2 = _scales(lib, m, d, tau2, qacc_cont)
        if not (fi[0] <= TOL_CONT * qs2 * np.sqrt(m.nv) and fi[1] <= TOL_CONT * qs2 * np.sqrt(m.nv)):
            bad("solver_fwdinv large after a converged solve", name, "solver_fwdinv=%s scale %.3g" % (fi.tolist(), qs2))
        # inverse at the finite-differenced acceleration
        d.qpos[:] = q_save
        d.qvel[:] = v_save
        d.time = t_save
        d.qacc[:] = (vplus - v_save) / h
        qacc_disc = np.array(d.qacc)
        host.set_options(integrator=integ, disable=dis, enable=C.ENBL_INVDISCRETE, **base)
        lib.mj_inverse(m, d)
        if int(d.nefc) != nefc2:
            bad("inverse builds a different constraint set", name, "nefc %d vs %d" % (int(d.nefc), nefc2))
            continue
        fs2 = max(1.0, float(np.abs(f_step).max()))
        e_q = float(np.abs(np.array(d.qfrc_inverse) - tau2).max()) / qs2
        e_f = float(np.abs(np.array(d.efc_force[:nefc2]) - f_step).max()) / fs2
        _hist(part, "disc", max(e_q, e_f))
        if not np.array_equal(np.array(d.qacc), qacc_disc):
            bad("mj_inverse with invdiscrete does not restore qacc", name, "qacc changed")
        # history dimension of the discrete inverse: the same call, stand-alone, on the never-reset mjData whose derived
        # fields (inertia factorisation included) were left by the previous lattice state, must give the same answer as
        # the call that followed mj_step on this mjData
        d2 = host.d_used
        lib.mj_copyState(m, d, d2, STATE_INTEGRATION)
        d2.qacc[:] = qacc_disc
        lib.mj_inverse(m, d2)
        if int(d2.nefc) == nefc2:
            s_q = float(np.abs(np.array(d2.qfrc_inverse) - np.array(d.qfrc_inverse)).max()) / qs2
            s_f = float(np.abs(np.array(d2.efc_force[:nefc2]) - np.array(d.efc_force[:nefc2])).max()) / fs2
            part.add("standalone_discrete_inverse")
            if not (s_q <= TOL_DISC and s_f <= TOL_DISC):
                bad("stand-alone discrete inverse on a used mjData differs from the one that follows a forward pass", name,
                    "qfrc_inverse rel diff %.3g, efc_force rel diff %.3g" % (s_q, s_f))
        else:
            bad("stand-alone discrete inverse on a used mjData builds a different constraint set", name,
                "nefc %d vs %d" % (int(d2.nefc), nefc2))
        if not (e_q <= TOL_DISC and e_f <= TOL_DISC):
            # one root cause, one key: was this step integrated explicitly (discrete == continuous acceleration) and does the
            # *continuous* inverse at the same qacc satisfy the identity?  then the discrete->continuous conversion itself is
            # what is wrong for this integrator/flag combination.
            explicit = float(np.abs(qacc_disc - qacc_cont).max()) <= 1e-9 * max(1.0, float(np.abs(qacc_cont).max()))
            host.set_options(integrator=integ, disable=dis, enable=0, **base)
            lib.mj_inverse(m, d)
            c_q = float(np.abs(np.array(d.qfrc_inverse) - tau2).max()) / qs2
            c_f = float(np.abs(np.array(d.efc_force[:nefc2]) - f_step).max()) / fs2
            if explicit and c_q <= TOL_DISC and c_f <= TOL_DISC:
                rp = {"skel": host.skel, "atoms": host.atoms, "eq": host.eqkind, "state": st, "cone": cone, "jacobian": jac,
                      "mode": name, "xml": host.xml, "qacc": qacc_disc, "minimal_standalone_repro": EXPLICIT_MINIMAL}
                C.report(part, "invdiscrete converts the acceleration of an explicitly integrated step | mode=%s" % name,
                               "mode=%s: mj_step integrated qvel explicitly ((qvel+ - qvel)/h == qacc), yet mj_inverse with "
                               "mjENBL_INVDISCRETE rescales qacc: qfrc_inverse rel err %.3g, efc_force rel err %.3g; without the flag "
                               "the same qacc gives %.3g / %.3g (mix=%s eq=%s skel=%s cone=%s state=%s)" % (
                                   name, e_q, e_f, c_q, c_f, "+".join(host.atoms), host.eqkind, host.skel, cname, st), rp)
            else:
                if not e_q <= TOL_DISC:
                    bad("discrete qfrc_inverse != applied + J'xfrc + actuator", name, "rel err %.3g" % e_q,
                        {"qacc_discrete": qacc_disc, "qacc_continuous": qacc_cont})
                if not e_f <= TOL_DISC:
                    bad("discrete inverse efc_force != forward efc_force", name, "rel err %.3g" % e_f)
        differs = float(np.abs(qacc_disc - qacc_cont).max()) > 1e-6 * max(1.0, float(np.abs(qacc_cont).max()))
        part.count(1, key=(ident, cone, jac, st, name) if (nontriv and differs) else None)
        if differs:
            part.add("discrete_differs_from_continuous")


def _chunk(chunk):
    lib = mj.load()
    part = core.Part()
    for skel, mi, atoms, eqkind, tier in chunk:
        thorough = tier == "thorough"
        try:
            host = C.Host(lib, skel, atoms, eqkind)
        except mj.MjError as e:
            C.report(part, "host model does not compile", "skel=%s mix=%s eq=%s: %s" % (skel, atoms, eqkind, e),
                           {"skel": skel, "atoms": atoms, "eq": eqkind})
            continue
        host.d_used = lib.make_data(host.m)     # the 'previously used' mjData of the stand-alone inverse (never reset)
        host.used_calls, host.used_prev = 0, None
        states = [s for s in host.state_space(nq=2, nvel=3, idle=True) if thorough or (s[0] == 1 and s[1] != 0)]
        for cone in (C.CONE_PYRAMIDAL, C.CONE_ELLIPTIC):
            for jac in (C.JAC_DENSE, C.JAC_SPARSE):
                for st in states:
                    try:
                        check_state(lib, host, part, st, cone, jac, (skel, mi), thorough)
                    except mj.MjError as e:
                        C.report(part, "engine error | cone=%s" % CONE_NAME[cone], "mju_error: %s" % e,
                                       {"skel": skel, "atoms": atoms, "eq": eqkind, "state": st, "cone": cone,
                                        "jacobian": jac, "xml": host.xml})
                        host.d.free()
                        host.d = lib.make_data(host.m)
                        host.d_used.free()
                        host.d_used = lib.make_data(host.m)
                        host.used_calls, host.used_prev = 0, None
        host.d_used.free()
        host.free()
    return part


def run(ctx):
    mj.load()
    skels = ["S0", "S1", "S2"] if ctx.thorough else ["S0"]
    mixes = C.mixes()
    items = [(s, i, a, e, ctx.tier) for s in skels for i, (a, e) in enumerate(mixes)]
    core.pmap(ctx, _chunk, items, nchunks=min(len(items), core.NCPU * 6))
    ctx.extra["models"] = len(items)
    ctx.extra["mixes"] = len(mixes)
    ctx.rule = ("skeleton %s x all 511 non-empty subsets of {E(connect|weld|joint),F,L,T,C1,C3,C4,C6} x cone{pyramidal,elliptic} x "
                "jacobian{dense,sparse} x state lattice (contact k at dist %s rotated by cs, limit k at %s rotated by ls, %s) x "
                "+ per (configuration, velocity) the idle state (contacts at dist %s > margin, all limits inactive) x "
                "mode{continuous, stand-alone inverse on a never-reset mjData last evaluated at the previous state of this sequence, "
                "compareFwdInv, %s}; evaluation = one forward/inverse comparison; non-trivial = distinct "
                "(model, cone, jacobian, state, mode) with a non-zero constraint force (discrete modes: and a discrete acceleration "
                "that differs from the continuous one; stand-alone mode: the previous evaluation left a non-zero qfrc_constraint "
                "different from this state's)"
                % (skels, C.CONTACT_DIST, C.LIMIT_STATE_NAME,
                   "2 configurations x 3 velocity patterns" if ctx.thorough else "bent configuration x 2 non-zero velocity patterns",
                   C.CONTACT_IDLE_DIST,
                   ", ".join(n for n, _, _ in MODES)))
    ctx.assumptions = ["forward solve counted as converged iff the last recorded Newton gradient < 1e-10 (tolerance 0, 200 iterations)",
                       "a state without constraint rows is treated as converged (nothing to solve)",
                       "the stand-alone inverse receives the integration state by mj_copyState(INTEGRATION) and qacc from the forward "
                       "solve; its history is the fixed enumeration order of the states of one host model (bit-exact history "
                       "independence of all calls is C01's subject; here the forward/inverse identity is judged with the same tolerance)",
                       "J'xfrc_applied recomputed with mj_jac at xipos (C07)", "RK4 excluded (statement)",
                       "thresholds 1e-7 (continuous) / 1e-6 (discrete, finite-differenced qacc) relative to the largest term of the equation of motion"]


def replay(ctx, path):
    """./check C09 --replay <file>: re-run the recorded (model, state, cone, jacobian) through all modes."""
    import json
    r = json.load(open(path))["replay"]
    lib = mj.load()
    host = C.Host(lib, r["skel"], tuple(r["atoms"]), r["eq"])
    part = core.Part()
    host.d_used = lib.make_data(host.m)
    host.used_calls, host.used_prev = 0, None
    if r.get("prev_state") is not None:     # history of the 'used' mjData: the state evaluated before (its own findings are not this replay's)
        check_state(lib, host, core.Part(), tuple(r["prev_state"]), int(r["cone"]), int(r["jacobian"]), (r["skel"], 0), True)
    check_state(lib, host, part, tuple(r["state"]), int(r["cone"]), int(r["jacobian"]), (r["skel"], 0), True)
    for v in part["violations"]:
        print("VIOLATION-REPLAY %s\n  %s" % (v["key"], v["what"]))
    print("replay: %d evaluations, %d violations" % (part["evaluations"], len(part["violations"])))
    return 1 if part["violations"] else 0
