"""C01 Simulation is a deterministic function of the integration state (E2 history explorer).

States are receiver histories.  For every (feature model x option combination) the explorer
rebuilds, from fresh mj_makeData objects, a donor (state builder A/B) and a receiver with one of
the histories {fresh, reset after use, used for k unrelated steps, used + forward only, used +
garbage in every derived buffer}, transfers the donor's integration state with {mj_copyData,
mj_copyState(INTEGRATION), mj_getState->mj_setState}, and then applies every call sequence of the
depth bound over {step, forward, inverse, step1.step2, forwardSkip(POS), forwardSkip(VEL)} to
both, comparing ALL of mjData after every call (see _c01_engine for the oracle) and comparing
every replay of the same history prefix with the first one (hash of all compared fields).
"""
import itertools
import json
import os

import numpy as np

from .. import alphabet as A
from .. import core, mj
from . import _c01_engine as E
from . import _c01_models as M
from . import _c01_native as N

LEVEL = "model_checking"
META = dict(
    category=LEVEL,
    technique="explicit-state history exploration (E2): receiver histories x transfers x call sequences up to a depth bound, "
              "replayed on the real library; bit-exact differential oracle over all of mjData with arena poisoning",
    text="12 feature models (contact stack, 3 islands, sleep with an init-asleep tree, stateful actuators, delay/interval "
         "history buffers, mocap+weld, toggled equalities, tendon limits/friction, mixed free/ball/slide with muscle, PID "
         "plugin, stateful plugin instances, everything-at-once) x option lattice (integrator x solver x cone x jacobian x "
         "island x sleep) x receiver history x transfer x all call sequences of the depth bound. Every state is a history "
         "replayed on fresh objects; donor and receiver are compared on every mjData field after every call, and every "
         "replay of a prefix must reproduce the first one. Exhaustive for the stated lattice: a stale field, lazy flag, "
         "arena leftover or unsaved hidden state that changes any output of any of these calls is observed.",
    note="Ignored fields: timers, maxuse_*, threadpool, plugin_data. Bytes a call does not write (in both objects) and arena "
         "bytes still holding the poison (allocated, never written) are not results and are not compared. qacc is copied "
         "before a leading mj_inverse (documented input of inverse dynamics). forwardSkip needs the skipped stages computed "
         "by a forward-type call (excluded otherwise, counted). RK4 x sleep is documented as unsupported (excluded). "
         "quick uses an orthogonal array over (jacobian, island, sleep); thorough the full product and depth 3. Known sensor-only "
         "divergences with a canonical key are reported once and the trace continues with those sensor values copied.",
    design_ref="DESIGN.md §3 C01")

INTEGRATORS = ["Euler", "RK4", "implicit", "implicitfast"]
SOLVERS = ["PGS", "CG", "Newton"]
CONES = ["pyramidal", "elliptic"]
JACOBIANS = ["dense", "sparse"]
OA3 = [(0, 1, 0), (1, 0, 0), (0, 0, 1), (1, 1, 1)]      # orthogonal array (jacobian, island, sleep): every pair of levels occurs

K_SLEEP = "sleep state not part of integration state"
K_INVSENS = "mj_inverse: actuator-force sensors report actuator_force/qfrc_actuator left over from an earlier forward call"
# engine errors that declare a (model, option) combination unsupported: that pair is skipped and counted
WHITELISTED_ERRORS = ("tendon equality does not yet support sleeping",
                      "trees were marked as sleep='init' but only")   # init-asleep needs island structure when constrained

K_EKIN = "e_kinetic sensor is computed in the position stage (not refreshed by the velocity stage; reads a stale flg_energyvel)"
SENS_ACT_TYPES = None   # set by _init_enums (tree's introspect tables)
SENS_E_KINETIC = None


def _init_enums():
    global SENS_ACT_TYPES, SENS_E_KINETIC
    if SENS_ACT_TYPES is None:
        from .. import introspect_tree
        en = dict(introspect_tree.load("enums").ENUMS["mjtSensor"].values)
        SENS_ACT_TYPES = frozenset(en[k] for k in ("mjSENS_ACTUATORFRC", "mjSENS_JOINTACTFRC", "mjSENS_TENDONACTFRC"))
        SENS_E_KINETIC = en["mjSENS_E_KINETIC"]


def option_lattice(thorough):
    out = []
    for (i1, integ), (i2, sol), (i3, cone) in itertools.product(enumerate(INTEGRATORS), enumerate(SOLVERS), enumerate(CONES)):
        rows = list(itertools.product((0, 1), (0, 1), (0, 1))) if thorough else OA3
        for ri, (jac, isl, slp) in enumerate(rows):
            # the energy flag is not one of the options named by the property; it is carried as a derived (confounded)
            # factor so that every model meets both values without enlarging the lattice
            energy = (i1 + i2 + i3 + ri) % 2
            out.append((integ, sol, cone, JACOBIANS[jac], isl, slp, energy))
    return out


def option_xml(opt):
    integ, sol, cone, jac, isl, slp, energy = opt
    return A.option_elem(integrator=integ, solver=sol, cone=cone, jacobian=jac,
                         flags=dict(island="enable" if isl else "disable", sleep="enable" if slp else "disable",
                                    energy="enable" if energy else "disable"))


def sequences(depth):
    return list(itertools.product(E.CALLS, repeat=depth))


def diff_sensors(m, donor, rcv):
    """Sensor ids whose data differ bitwise."""
    a = np.array(donor.sensordata).view(np.uint64)
    b = np.array(rcv.sensordata).view(np.uint64)
    idx = np.nonzero(a != b)[0]
    adr = np.array(m.sensor_adr)
    dim = np.array(m.sensor_dim)
    ids = set()
    for i in idx:
        s = int(np.searchsorted(adr, i, side="right") - 1)
        if adr[s] <= i < adr[s] + dim[s]:
            ids.add(s)
    return sorted(ids)


def run_job(lib, part, job, states=None):
    mi, opt, plan = job
    name, fn = M.C01_MODELS[mi]
    cmp = N.cmp_for(lib)
    integ, sol, cone, jac, isl, slp, energy = opt
    if integ == "RK4" and slp:
        part.add("excluded_rk4_sleep")      # documented: "The RK4 integrator is not currently supported" with sleeping
        return
    xml = fn(option_xml(opt))
    try:
        m = lib.load_xml(xml)
    except mj.MjError as e:
        if any(w in str(e) for w in WHITELISTED_ERRORS):
            part.add("unsupported_combination")
            return
        raise
    fac = E.Factory(lib, m)
    proto = fac.make()
    snD = cmp.snap_alloc(proto)
    snR = cmp.snap_alloc(proto)
    proto.free()
    seenD, seenR = {}, {}
    hashes = set() if states is None else states
    base = {"model": name, "option": opt}

    def viol(key, what, **kw):
        part.violation(key, what + " [model %s, option %s]" % (name, "/".join(map(str, opt))), dict(base, **kw))

    try:
        for dk, transfers, depth in plan:
            seqs = sequences(depth)
            for t in transfers:
                state_t = t != "copyData"
                for h in E.RECEIVERS:
                    if h == "garbage" and (not state_t or slp):
                        continue        # garbage in latent sleep data contradicts the documented sleep design
                    for seq in seqs:
                        if E.seq_excluded(seq, state_t):
                            part.add("excluded_skip_precondition")
                            continue
                        _trace(lib, part, cmp, fac, m, dk, h, t, seq, slp, snD, snR, seenD, seenR, hashes, viol, base)
    except mj.MjError as e:
        msg = str(e)
        if any(w in msg for w in WHITELISTED_ERRORS):
            part.add("unsupported_combination")
        else:
            viol("unexpected mju_error: %s" % msg[:80], "unexpected mju_error: %s" % msg)
    part["states"] += len(hashes) if states is None else 0
    m.free()


def _trace(lib, part, cmp, fac, m, dk, h, t, seq, slp, snD, snR, seenD, seenR, hashes, viol, base):
    donor = E.build_donor(fac, dk)
    rcv = E.build_receiver(fac, h, cmp)
    part["traces"] += 1
    try:
        E.transfer(fac, donor, rcv, t)
        rep = {"donor": dk, "receiver": h, "transfer": t, "seq": seq}
        S0 = cmp.diff(m, donor, rcv)
        if t == "copyData":
            if S0:
                viol("mj_copyData: field %s not copied" % S0[0], "after mj_copyData the copy differs in %s" % S0[:6], **rep)
                return
        else:
            st = [f for f in S0 if f in E.STATE_FIELDS]
            if st:
                viol("%s: state component %s not transferred" % (t, st[0]),
                     "after %s(INTEGRATION) the receiver differs from the donor in state field(s) %s" % (t, st), **rep)
                return
        sleepdiff = bool(slp) and any(f in E.SLEEP_FIELDS for f in S0)
        nontrivial = bool(S0) and t != "copyData"     # the receiver really carried data of another history into the calls
        part.count(1, sample=dict(rep, **base) if (len(part["samples"]) < 2 and h == "used" and t == "copyState") else None)
        if nontrivial:
            part["nontrivial_count"] += 1
        if seq[0] == "inverse" and t != "copyData":
            rcv.qacc[:] = donor.qacc        # documented input of inverse dynamics
        hashes.add(cmp.hash(m, donor))
        hashes.add(cmp.hash(m, rcv))
        for ci, c in enumerate(seq):
            prefix = seq[:ci + 1]
            E.poison_both(cmp, donor, rcv, c)
            cmp.snap(m, donor, snD)
            cmp.snap(m, rcv, snR)
            w0 = lib.warning_count()
            E.do_call(lib, m, donor, c)
            E.do_call(lib, m, rcv, c)
            part["transitions"] += 2 * E.ncalls(c)
            if lib.warning_count() != w0:
                part.add("warning_fired_skipped")
                return
            stale, bad = cmp.classify(m, donor, rcv, snD, snR, E.POISON_D, E.POISON_R)
            part["outcomes"].add("equal" if not stale and not bad else ("equal_modulo_unwritten" if not bad else "diverged"))
            if bad:
                r = dict(rep, prefix=prefix, bad_fields=bad[:12])
                what = ("after %s (history: donor %s, receiver %s, transfer %s, calls %s) donor and receiver differ in written "
                        "field(s) %s" % (c, dk, h, t, list(prefix), bad[:8]))
                if sleepdiff:
                    viol(K_SLEEP, "sleep state (tree_asleep & derived arrays) differs after the transfer; " + what, **r)
                    return
                generic = True
                if bad == ["sensordata"]:
                    # one canonical key per root cause, also when two root causes show in the same call; the affected sensor
                    # values are then copied from the donor (sensordata is not read by later calls) so that the rest of the
                    # history is still checked instead of being masked by the known divergence
                    stypes = np.array(m.sensor_type)
                    ids = diff_sensors(m, donor, rcv)
                    act_ok = c == "inverse" and ("actuator_force" in stale or "qfrc_actuator" in stale)
                    known = [s for s in ids if int(stypes[s]) == SENS_E_KINETIC or (act_ok and int(stypes[s]) in SENS_ACT_TYPES)]
                    if any(int(stypes[s]) == SENS_E_KINETIC for s in known):
                        viol(K_EKIN, what, **r)
                    if any(int(stypes[s]) in SENS_ACT_TYPES for s in known):
                        viol(K_INVSENS, what, **r)
                    if len(known) == len(ids):
                        generic = False
                        for sid in known:
                            a0 = int(m.sensor_adr[sid])
                            rcv.sensordata[a0:a0 + int(m.sensor_dim[sid])] = donor.sensordata[a0:a0 + int(m.sensor_dim[sid])]
                        part.add("continued_after_known_sensor_divergence")
                if generic:
                    viol("%s after %s: %s diverges" % ("copyData" if t == "copyData" else "state transfer", c, bad[0]), what, **r)
                    return
            hD = cmp.hash(m, donor)
            hR = hD if not stale and not bad else cmp.hash(m, rcv)
            hashes.add(hD)
            hashes.add(hR)
            # replays of the same history prefix must reproduce the first one
            k1 = (dk, prefix)
            if seenD.setdefault(k1, hD) != hD:
                viol("replay of donor history not reproducible after %s" % c,
                     "two replays of donor %s + calls %s gave different mjData" % (dk, list(prefix)), **rep)
                return
            k2 = (dk, h, t, prefix)
            if seenR.setdefault(k2, hR) != hR:
                viol("replay of receiver history not reproducible after %s" % c,
                     "two replays of receiver %s/%s + calls %s gave different mjData" % (h, t, list(prefix)), **rep)
                return
    finally:
        donor.free()
        rcv.free()


B_MODELS = ("sleep",)     # quick: the quiet donor (init-asleep tree stays asleep) only where it adds something; thorough: all


def _chunk(chunk):
    lib = mj.load()
    N.register_stateplugin(lib)
    _init_enums()
    part = core.Part()
    for job in chunk:
        run_job(lib, part, job)
    return part


def make_jobs(ctx):
    """plan = [(donor builder, transfers, call-sequence length)]"""
    jobs = []
    for mi, (name, _) in enumerate(M.C01_MODELS):
        for opt in option_lattice(ctx.thorough):
            if ctx.thorough:
                plan = [("A", tuple(E.TRANSFERS), 3), ("B", tuple(E.TRANSFERS), 2)]
            else:
                plan = [("A", tuple(E.TRANSFERS), 2)]
                if name in B_MODELS:
                    plan.append(("B", tuple(E.TRANSFERS), 2))
            jobs.append((mi, opt, plan))
    return jobs


def run(ctx):
    lib = mj.load()
    N.register_stateplugin(lib)
    N.cmp_for(lib)
    _init_enums()
    jobs = make_jobs(ctx)
    sub = int(os.environ.get("VERIF_SUBSAMPLE", "1") or 1)      # debugging aid (mutation trials): every k-th job only
    if sub > 1:
        jobs = jobs[::sub]
        ctx.exhaustive = False
    core.pmap(ctx, _chunk, jobs, nchunks=min(len(jobs), core.NCPU * 8))
    ctx.extra["model_option_pairs"] = len(jobs)
    ctx.extra["models"] = len(M.C01_MODELS)
    ctx.rule = ("12 feature models x option lattice (integrator{Euler,RK4,implicit,implicitfast} x solver{PGS,CG,Newton} x "
                "cone{pyramidal,elliptic} x %s over jacobian{dense,sparse} x island{on,off} x sleep{off,on}; the energy flag alternates "
                "with the parity of the option indices) x donor builders "
                "{A perturbed; B quiet} x receiver history {fresh, reset, used 3 steps+inverse, used forward only, used+garbage in "
                "every derived buffer (sleep off)} x transfer {copyData, copyState(INTEGRATION), getState->setState} x all call "
                "sequences of length %s over %s (every prefix is checked). An evaluation is one replayed history (all are distinct "
                "tuples); non-trivial = state transfer after which the receiver still differed from the donor in at least one "
                "non-state mjData field, i.e. leftovers of another history were really present. "
                "states = distinct hashes of all compared mjData fields of donor/receiver after the transfer and after each call."
                % ("the full product" if ctx.thorough else "an orthogonal array",
                   ctx.q("2 (donor B only for the sleep model)", "3 (donor A) / 2 (donor B)"), E.CALLS))
    ctx.assumptions = [
        "qacc is copied before a leading mj_inverse (documented input of inverse dynamics)",
        "mj_forwardSkip only after a forward-type call computed the skipped stages on that mjData (R1, counted)",
        "RK4 x sleep excluded (documented as unsupported); mju_error 'tendon equality does not yet support sleeping' skips that "
        "(model, option)",
        "bytes not written by a call in both objects and arena bytes still holding the poison are not results",
        "verification plugin verif.state provides plugin_state; mujoco.pid keeps its state in act"]


def replay(ctx, path):
    with open(path) as fh:
        r = json.load(fh)["replay"]
    lib = mj.load()
    N.register_stateplugin(lib)
    _init_enums()
    part = core.Part()
    names = [n for n, _ in M.C01_MODELS]
    opt = tuple(r["option"])
    job = (names.index(r["model"]), opt, [(r.get("donor", "A"), (r.get("transfer", "copyState"),), len(r.get("seq", ["step"])))])
    run_job(lib, part, job)
    ctx.merge(part)
    ctx.rule = "replay of one (model, option) job"
    return ctx.finish()
