"""C17 Constraint islands are the connected components of coupling.

Pure core (native driver c17_dsu, includes engine/engine_island.h): EVERY sequence of <= D operations over n <= 5
trees, operations = mj_dsuMerge(a,b) for every ordered endpoint pair in {-1,0..n-1}^2 and mj_dsuRoot(t) on every
active tree; after every prefix the forest is compared with a naive partition, mj_dsuRoot / mj_dsuAssign are run on
copies (canonical root = minimum tree, ids ascending by minimum tree, nidof, canaries).  mj_floodFill on every
symmetric adjacency structure with n <= 5 (with/without self loops) x 4 colind encodings (sorted, reversed,
duplicated, rotated) against a naive component search.

Engine: T single-body kinematic trees + world, every graph over the coupling alphabet
per tree pair {none, contact, connect, weld, joint equality, tendon limit} x per tree {none, contact with plane,
friction loss, joint limit}, dense and sparse Jacobian, island flag on.  T<=3: the full product, one compiled MJCF
per graph.  T=4 (and 5 in the thorough tier): one compiled "universe" model that contains every coupling, the
graph is selected at run time through documented run-time inputs (mjData.eq_active, real-valued pair_margin,
tendon_range, jnt_range, dof_frictionloss).  Oracle: union-find written here over the trees read off the non-zero
columns of the (densified) efc_J through dof_treeid.
"""
import itertools
import subprocess

import numpy as np

from .. import build, core, mj

LEVEL = "exploration"
META = dict(
    category=LEVEL,
    technique="exhaustive bounded enumeration: all union-find operation sequences (small scope) and all coupling graphs over a "
              "6x4 constraint alphabet for <=4(5) trees; oracle = independent connected components from the Jacobian's non-zero columns",
    text="Union-find/path-compression errors depend on the merge order and island-map errors on which trees are coupled by which "
         "constraint type in which row order; both spaces are small enough to enumerate completely (every operation sequence of "
         "length <=5 (6) over <=5 trees; every coupling graph over the alphabet for 3 trees, and 4-5 trees over stated sub-alphabets), "
         "so no merge order or coupling pattern inside the bound can hide. The reference is a 10-line union-find over the trees that "
         "own the non-zero columns of efc_J, i.e. the definition of an island, not the implementation's special-cased tree lookup.",
    note="Trusted: dof_treeid / tree_dofadr from the compiled model, efc_J/efc_type/efc_id as produced by mj_makeConstraint. "
         "Joint axes and contact normals are generic so that no Jacobian entry of an involved tree vanishes accidentally; rows are "
         "grouped per constraint (efc_type, efc_id) when assigning trees. Flex stiffness coupling (statement clause) is not "
         "enumerated: it needs flexes, whose islands additionally depend on mj_flexCG options; not decided here.",
    design_ref="DESIGN.md §3 C17")

PAIR_KINDS = ["none", "contact", "connect", "weld", "jointeq", "tendonlimit"]
TREE_KINDS = ["none", "plane", "frictionloss", "jointlimit"]
mjOBJ_PAIR, mjOBJ_EQUALITY, mjOBJ_TENDON, mjOBJ_JOINT = 15, 17, 18, 3
DIR = np.array([1.0, 2.0, 3.0]) / np.sqrt(14.0)
KEY_STATIC = "constraint row without any tree (explicit <pair> between two dof-less bodies): mj_island raises mju_error"


# ------------------------------------------------------------------ model construction

def _pairs(T):
    return [(i, j) for i in range(T) for j in range(i + 1, T)]


def build_xml(T, pk, tk, jac, universe=False):
    """pk: dict (i,j)->kind, tk: list of kinds.  universe=True emits every coupling (selected at run time)."""
    pairs = _pairs(T)
    bodies, cpairs, eqs, tens = [], [], [], []
    geoms = {i: [] for i in range(T)}
    for k, (i, j) in enumerate(pairs):
        kinds = PAIR_KINDS[1:] if universe else [pk[(i, j)]]
        if "contact" in kinds:
            P = np.array([3.0 + 2 * k, 0.0, 1.0])
            Q = P + 0.25 * DIR
            geoms[i].append(("gc%d_%d" % (i, j), P))
            geoms[j].append(("gc%d_%d" % (j, i), Q))
            cpairs.append('<pair name="pc%d_%d" geom1="gc%d_%d" geom2="gc%d_%d" margin="0.2" gap="0" condim="3"/>' % (i, j, i, j, j, i))
        if "connect" in kinds:
            eqs.append('<connect name="ec%d_%d" body1="b%d" body2="b%d" anchor="0.1 0.2 0.3"/>' % (i, j, i, j))
        if "weld" in kinds:
            eqs.append('<weld name="ew%d_%d" body1="b%d" body2="b%d"/>' % (i, j, i, j))
        if "jointeq" in kinds:
            eqs.append('<joint name="ej%d_%d" joint1="jA%d" joint2="jA%d"/>' % (i, j, i, j))
        if "tendonlimit" in kinds:
            tens.append('<fixed name="t%d_%d" limited="true" range="0.5 1"><joint joint="jA%d" coef="1"/><joint joint="jA%d" coef="1"/></fixed>'
                        % (i, j, i, j))
    for i in range(T):
        kinds = TREE_KINDS[1:] if universe else [tk[i]]
        if "plane" in kinds:
            geoms[i].append(("gp%d" % i, np.array([-3.0 - 2 * i, 0.0, 0.15])))
            cpairs.append('<pair name="pp%d" geom1="plane" geom2="gp%d" margin="0.2" gap="0" condim="3"/>' % (i, i))
        jattr = ""
        if "frictionloss" in kinds:
            jattr += ' frictionloss="0.1"'
        if "jointlimit" in kinds:
            jattr += ' limited="true" range="0.5 1"'
        pos = np.array([0.0, float(i), 1.0])
        s = '<body name="b%d" pos="%g %g %g"><inertial pos="0 0 0" mass="1" diaginertia="0.1 0.1 0.1"/>' % (i, *pos)
        s += '<joint name="jA%d" type="slide" axis="0.6 0.48 0.64"%s/>' % (i, jattr)
        if i % 3 in (0, 2):
            s += '<joint name="jB%d" type="hinge" axis="0.48 0.64 0.6"/>' % i
        if i % 3 == 2:
            s += '<joint name="jC%d" type="slide" axis="0.64 0.6 0.48"/>' % i
        for name, P in geoms[i]:
            s += '<geom name="%s" type="sphere" size="0.1" pos="%.17g %.17g %.17g" contype="0" conaffinity="0"/>' % (name, *(P - pos))
        s += "</body>"
        bodies.append(s)
    xml = '<mujoco><option jacobian="%s"/><worldbody><geom name="plane" type="plane" size="20 20 .1" contype="0" conaffinity="0"/>' % jac
    xml += "".join(bodies) + "</worldbody>"
    if cpairs:
        xml += "<contact>" + "".join(cpairs) + "</contact>"
    if eqs:
        xml += "<equality>" + "".join(eqs) + "</equality>"
    if tens:
        xml += "<tendon>" + "".join(tens) + "</tendon>"
    return xml + "</mujoco>"


class Universe:
    """One compiled model with every coupling; select(pk, tk) switches couplings through run-time inputs."""

    def __init__(self, lib, T, jac):
        self.lib, self.T = lib, T
        self.xml = build_xml(T, None, None, jac, universe=True)
        self.m = lib.load_xml(self.xml)
        self.d = lib.make_data(self.m)
        m = self.m

        def nid(t, s):
            r = lib.mj_name2id(m, t, s.encode())
            if r < 0:
                raise RuntimeError("name %s not found" % s)
            return r
        self.idx = {}
        for (i, j) in _pairs(T):
            self.idx[(i, j)] = dict(contact=nid(mjOBJ_PAIR, "pc%d_%d" % (i, j)), connect=nid(mjOBJ_EQUALITY, "ec%d_%d" % (i, j)),
                                    weld=nid(mjOBJ_EQUALITY, "ew%d_%d" % (i, j)), jointeq=nid(mjOBJ_EQUALITY, "ej%d_%d" % (i, j)),
                                    tendonlimit=nid(mjOBJ_TENDON, "t%d_%d" % (i, j)))
        self.tidx = [dict(plane=nid(mjOBJ_PAIR, "pp%d" % i), jnt=nid(mjOBJ_JOINT, "jA%d" % i)) for i in range(T)]

    def select(self, pk, tk):
        m, d = self.m, self.d
        d.eq_active[:] = 0
        m.pair_margin[:] = 0.0
        m.tendon_range[:] = (-5.0, 5.0)
        m.dof_frictionloss[:] = 0.0
        m.jnt_range[:] = (-5.0, 5.0)
        for ij, kind in pk.items():
            ids = self.idx[ij]
            if kind == "contact":
                m.pair_margin[ids["contact"]] = 0.2
            elif kind in ("connect", "weld", "jointeq"):
                d.eq_active[ids[kind]] = 1
            elif kind == "tendonlimit":
                m.tendon_range[ids["tendonlimit"]] = (0.5, 1.0)
        for i, kind in enumerate(tk):
            if kind == "plane":
                m.pair_margin[self.tidx[i]["plane"]] = 0.2
            elif kind == "frictionloss":
                m.dof_frictionloss[m.jnt_dofadr[self.tidx[i]["jnt"]]] = 0.1
            elif kind == "jointlimit":
                m.jnt_range[self.tidx[i]["jnt"]] = (0.5, 1.0)


# ------------------------------------------------------------------ oracle

def expected_rows(pk, tk):
    """Number of constraints (not rows) the scene must produce: self-check that the alphabet is really active."""
    return sum(1 for k in pk.values() if k != "none") + sum(1 for k in tk if k != "none")


def check_islands(m, d, part, key, replay, nontrivial_key=None):
    """Compare every island array with an independent component computation. Returns number of islands."""
    nv, ntree, nefc = m.nv, m.ntree, d.nefc

    def bad(what, detail=""):
        part.violation("%s | %s" % (what, key), "%s %s at %s" % (what, detail, key), replay)
        return -1

    nisland = d.nisland
    if nefc == 0:
        if nisland != 0 or d.nidof != 0:
            return bad("nefc==0 but nisland/nidof != 0")
        return 0
    # densify J
    if m.opt.jacobian == 1 or (m.opt.jacobian == 2 and nv >= 60):
        J = np.zeros((nefc, nv))
        rn, ra, ci, val = d.efc_J_rownnz, d.efc_J_rowadr, d.efc_J_colind, d.efc_J
        for r in range(nefc):
            a, n = ra[r], rn[r]
            J[r, ci[a:a + n]] = val[a:a + n]
    else:
        J = np.array(d.efc_J[:nefc * nv]).reshape(nefc, nv)
    treeid = np.array(m.dof_treeid)
    etype, eid = np.array(d.efc_type), np.array(d.efc_id)
    # trees per row, and per constraint (contiguous rows with equal (type,id))
    row_trees = [sorted(set(treeid[np.nonzero(J[r])[0]].tolist())) for r in range(nefc)]
    groups = []
    for r in range(nefc):
        if r and etype[r] == etype[r - 1] and eid[r] == eid[r - 1]:
            groups[-1].append(r)
        else:
            groups.append([r])
    # 10-line union-find
    uf = list(range(ntree))

    def find(x):
        while uf[x] != x:
            uf[x] = uf[uf[x]]
            x = uf[x]
        return x
    active = [False] * ntree
    group_tree = []
    for g in groups:
        ts = sorted(set(t for r in g for t in row_trees[r]))
        if not ts:
            return bad("constraint without any tree in efc_J", "rows %s type %d" % (g, etype[g[0]]))
        group_tree.append(ts[0])
        for t in ts:
            active[t] = True
            a, b = find(ts[0]), find(t)
            if a != b:
                uf[max(a, b)] = min(a, b)
    roots = sorted(set(find(t) for t in range(ntree) if active[t]))     # ascending smallest tree
    isl_of_root = {r: k for k, r in enumerate(roots)}
    exp_tree = np.array([isl_of_root[find(t)] if active[t] else -1 for t in range(ntree)])
    n_exp = len(roots)
    if nisland != n_exp:
        return bad("nisland differs from the number of connected components", "got %d expected %d" % (nisland, n_exp))
    tree_island = np.array(d.tree_island)
    if not np.array_equal(tree_island, exp_tree):
        return bad("tree_island differs from components in ascending-smallest-tree order", "got %s expected %s" % (tree_island, exp_tree))
    dof_island = np.array(d.dof_island)
    exp_dof = exp_tree[treeid]
    if not np.array_equal(dof_island, exp_dof):
        return bad("dof_island != island of the dof's tree (unconstrained -> -1)", "got %s expected %s" % (dof_island, exp_dof))
    if d.nidof != int(np.sum(exp_dof >= 0)):
        return bad("nidof != number of dofs in islands", "got %d" % d.nidof)
    efc_island = np.array(d.efc_island)
    exp_efc = np.zeros(nefc, int)
    for g, t in zip(groups, group_tree):
        exp_efc[g] = exp_tree[t]
    if not np.array_equal(efc_island, exp_efc):
        return bad("efc_island != island of the row's trees", "got %s expected %s" % (efc_island, exp_efc))
    for r in range(nefc):   # block-diagonality row by row
        if any(exp_tree[t] != efc_island[r] for t in row_trees[r]):
            return bad("row has a non-zero column outside its island", "row %d" % r)
    # ---- dof maps
    d2i, i2d = np.array(d.map_dof2idof), np.array(d.map_idof2dof)
    if sorted(d2i.tolist()) != list(range(nv)) or sorted(i2d.tolist()) != list(range(nv)):
        return bad("map_dof2idof / map_idof2dof is not a permutation", "%s %s" % (d2i, i2d))
    if not (np.array_equal(i2d[d2i], np.arange(nv)) and np.array_equal(d2i[i2d], np.arange(nv))):
        return bad("map_dof2idof and map_idof2dof are not mutually inverse", "%s %s" % (d2i, i2d))
    island_nv, island_idofadr, island_dofadr = np.array(d.island_nv), np.array(d.island_idofadr), np.array(d.island_dofadr)
    exp_nv = np.array([int(np.sum(exp_dof == k)) for k in range(n_exp)])
    if not np.array_equal(island_nv, exp_nv):
        return bad("island_nv", "got %s expected %s" % (island_nv, exp_nv))
    if not np.array_equal(island_idofadr, np.concatenate([[0], np.cumsum(exp_nv)[:-1]])):
        return bad("island_idofadr is not the prefix sum of island_nv", "%s" % island_idofadr)
    exp_i2d = np.concatenate([np.nonzero(exp_dof == k)[0] for k in range(n_exp)] + [np.nonzero(exp_dof < 0)[0]])
    if not np.array_equal(i2d, exp_i2d):
        return bad("map_idof2dof is not island-major / dof-ascending with unconstrained dofs last", "got %s expected %s" % (i2d, exp_i2d))
    if not np.array_equal(island_dofadr, np.array([np.nonzero(exp_dof == k)[0][0] for k in range(n_exp)])):
        return bad("island_dofadr != first dof of the island", "%s" % island_dofadr)
    # ---- efc maps
    e2i, i2e = np.array(d.map_efc2iefc), np.array(d.map_iefc2efc)
    if sorted(e2i.tolist()) != list(range(nefc)) or sorted(i2e.tolist()) != list(range(nefc)):
        return bad("map_efc2iefc / map_iefc2efc is not a permutation", "%s %s" % (e2i, i2e))
    if not (np.array_equal(i2e[e2i], np.arange(nefc)) and np.array_equal(e2i[i2e], np.arange(nefc))):
        return bad("map_efc2iefc and map_iefc2efc are not mutually inverse")
    island_nefc, island_iefcadr = np.array(d.island_nefc), np.array(d.island_iefcadr)
    exp_nefc = np.array([int(np.sum(exp_efc == k)) for k in range(n_exp)])
    if not np.array_equal(island_nefc, exp_nefc):
        return bad("island_nefc", "got %s expected %s" % (island_nefc, exp_nefc))
    if not np.array_equal(island_iefcadr, np.concatenate([[0], np.cumsum(exp_nefc)[:-1]])):
        return bad("island_iefcadr is not the prefix sum of island_nefc")
    exp_i2e = np.concatenate([np.nonzero(exp_efc == k)[0] for k in range(n_exp)])
    if not np.array_equal(i2e, exp_i2e):
        return bad("map_iefc2efc is not island-major / row-ascending", "got %s expected %s" % (i2e, exp_i2e))
    if not (np.array_equal(np.array(d.iefc_type), etype[i2e]) and np.array_equal(np.array(d.iefc_id), eid[i2e])):
        return bad("iefc_type/iefc_id != efc_type/efc_id permuted by map_iefc2efc")
    exp_ne = np.array([int(np.sum((exp_efc == k) & (etype == 0))) for k in range(n_exp)])
    exp_nf = np.array([int(np.sum((exp_efc == k) & ((etype == 1) | (etype == 2)))) for k in range(n_exp)])
    if not (np.array_equal(np.array(d.island_ne), exp_ne) and np.array_equal(np.array(d.island_nf), exp_nf)):
        return bad("island_ne / island_nf", "got %s %s expected %s %s" % (np.array(d.island_ne), np.array(d.island_nf), exp_ne, exp_nf))
    # ---- tree maps
    it2t = np.array(d.map_itree2tree)
    island_ntree, island_itreeadr = np.array(d.island_ntree), np.array(d.island_itreeadr)
    exp_ntree = np.array([int(np.sum(exp_tree == k)) for k in range(n_exp)])
    if not np.array_equal(island_ntree, exp_ntree):
        return bad("island_ntree", "got %s expected %s" % (island_ntree, exp_ntree))
    if not np.array_equal(island_itreeadr, np.concatenate([[0], np.cumsum(exp_ntree)[:-1]])):
        return bad("island_itreeadr is not the prefix sum of island_ntree")
    exp_it2t = np.concatenate([np.nonzero(exp_tree == k)[0] for k in range(n_exp)] + [np.nonzero(exp_tree < 0)[0]])
    if not np.array_equal(it2t, exp_it2t):
        return bad("map_itree2tree is not a permutation that lists islands in order, unconstrained trees last", "got %s expected %s" % (it2t, exp_it2t))
    return n_exp


# ------------------------------------------------------------------ workers

def _scene_key(T, pk, tk, jac):
    return "T=%d pairs=%s trees=%s jac=%s" % (T, ",".join("%d-%d:%s" % (i, j, k) for (i, j), k in sorted(pk.items()) if k != "none"),
                                              ",".join("%d:%s" % (i, k) for i, k in enumerate(tk) if k != "none"), jac)


def _nontrivial(pk, tk, nisl, T):
    ncoupled = sum(1 for k in pk.values() if k != "none")
    return ncoupled >= 1 and (nisl >= 2 or ncoupled >= 2)


def _check_scene(lib, part, m, d, T, pk, tk, jac, xml, mode):
    key = _scene_key(T, pk, tk, jac)
    replay = {"T": T, "pairs": {"%d-%d" % ij: k for ij, k in pk.items()}, "trees": list(tk), "jacobian": jac, "mode": mode, "xml": xml}
    try:
        lib.mj_forward(m, d)
    except mj.MjError as e:
        part.violation("mju_error | " + key, "mj_forward raised: %s at %s" % (e, key), replay)
        return False
    # self-check of the alphabet: every selected coupling produced its constraint
    etype, eid = np.array(d.efc_type), np.array(d.efc_id)
    ncons = len(set(zip(etype.tolist(), eid.tolist())))
    if ncons != expected_rows(pk, tk):
        raise RuntimeError("harness: scene %s produced %d constraints, expected %d" % (key, ncons, expected_rows(pk, tk)))
    nisl = check_islands(m, d, part, key, replay)
    part.count(1, key=key if (nisl >= 0 and _nontrivial(pk, tk, nisl, T)) else None,
               sample=replay if (nisl >= 2 and T >= 3 and len(part["samples"]) < 1) else None)
    return True


def _chunk_compiled(chunk):
    """items: (T, pair kinds tuple, tree kinds tuple, jac) -> one compiled model each."""
    lib = mj.load()
    part = core.Part()
    for T, pkt, tk, jac in chunk:
        pk = dict(zip(_pairs(T), pkt))
        xml = build_xml(T, pk, tk, jac)
        try:
            m = lib.load_xml(xml)
        except mj.MjError as e:
            raise RuntimeError("harness: scene does not compile: %s\n%s" % (e, xml))
        d = lib.make_data(m)
        ok = _check_scene(lib, part, m, d, T, pk, tk, jac, xml, "compiled")
        if ok:
            d.free()
        m.free()
    return part


def _chunk_universe(chunk):
    """items: (T, jac, pair alphabet list per pair index or None, first-pair kind, tree alphabets) ; the worker enumerates
    the product of the remaining pairs itself (one compiled universe per (T, jac))."""
    lib = mj.load()
    part = core.Part()
    cache = {}
    for T, jac, first, pair_alpha, tree_sets in chunk:
        u = cache.get((T, jac))
        if u is None:
            u = cache[(T, jac)] = Universe(lib, T, jac)
        pairs = _pairs(T)
        for rest in itertools.product(*pair_alpha[1:]):
            pkt = (first,) + rest
            pk = dict(zip(pairs, pkt))
            for tk in tree_sets:
                u.select(pk, tk)
                ok = _check_scene(lib, part, u.m, u.d, T, pk, tk, jac, None, "universe")
                if not ok:   # mjData is undefined after mju_error
                    u.d = lib.make_data(u.m)
    return part


def _chunk_static(chunk):
    """Constraint rows whose two bodies are both dof-less (world / static / mocap) next to one ordinary tree."""
    lib = mj.load()
    part = core.Part()
    for name, g1, g2, jac in chunk:
        xml = ('<mujoco><option jacobian="%s"/><worldbody><geom name="w1" type="sphere" size="0.5"/>'
               '<geom name="w2" type="sphere" size="0.5" pos="0.8 0 0"/>'
               '<body name="s" pos="0 2 0"><geom name="s1" type="sphere" size="0.5"/></body>'
               '<body name="mo" mocap="true" pos="0.8 2 0"><geom name="m1" type="sphere" size="0.5"/></body>'
               '<body name="f" pos="0.4 %s 0.6"><joint name="j" type="slide" axis="0.6 0.48 0.64"/><geom name="f1" type="sphere" size="0.3"/></body>'
               '</worldbody><contact><pair geom1="%s" geom2="%s" margin="0" gap="0" condim="3"/></contact></mujoco>'
               % (jac, "0" if g1.startswith("w") else "2", g1, g2))
        m = lib.load_xml(xml)
        d = lib.make_data(m)
        key = "static pair %s: %s-%s jac=%s" % (name, g1, g2, jac)
        try:
            lib.mj_forward(m, d)
        except mj.MjError as e:
            part.violation(KEY_STATIC, "mj_forward raised '%s' for a model that compiles: explicit <pair geom1=%s geom2=%s> between two "
                           "dof-less bodies produces contact rows with an all-zero Jacobian (dense Jacobian only: the sparse path marks the "
                           "contact exclude=3 'no dofs' and emits no row), which mj_island rejects; with <flag island=disable> the same "
                           "model steps" % (e, g1, g2), {"xml": xml})
            part.count(1, key=key)
            m.free()
            continue
        check_islands(m, d, part, key, {"xml": xml})
        part.count(1, key=key)
        d.free()
        m.free()
    return part


def _run_driver(args):
    exe, a = args[0], args[1:]
    r = subprocess.run([exe] + [str(x) for x in a], capture_output=True, text=True)
    part = core.Part()
    if r.returncode != 0:
        part.violation("driver crash %s" % (a[:3],), "c17_dsu died rc=%d on %r: %s" % (r.returncode, a, r.stderr[-300:]), {"args": a})
        return part
    for line in r.stdout.splitlines():
        if line.startswith("FAIL"):
            what = line[5:].split(" : ")[0]
            part.violation("pure core: " + what, "wrong result: " + line.strip(), {"args": a, "line": line})
        elif line.startswith("SAMPLE") and len(part["samples"]) < 1:
            part["samples"].append(line.strip())
        elif line.startswith("STATS"):
            _, ev, nt, fl = line.split()
            part["evaluations"] += int(ev)
            part["nontrivial_count"] += int(nt)
            part.add("pure_core_evaluations", int(ev))
    return part


def _chunk_driver(chunk):
    total = core.Part()
    acc = core.Ctx("C17", "quick", 0, LEVEL)
    for item in chunk:
        acc.merge(_run_driver(item))
    total["evaluations"] = acc.evaluations
    total["nontrivial_count"] = acc.nontrivial_extra
    total["samples"] = acc.samples[:1]
    total["violations"] = [{"key": k, "what": w, "replay": r} for k, w, r in acc.violations]
    total["extra"] = acc.extra
    return total


# ------------------------------------------------------------------ run

def run(ctx):
    lib = mj.load()
    exe = build.ensure_exe("c17_dsu", ["drivers/c17_dsu.c"])

    # ---- pure core
    depth = ctx.q(5, 6)
    ns = 40
    jobs = []
    for n in range(1, 6):
        for s in range(ns):
            jobs.append((exe, "dsu", n, depth, s, ns))
    if ctx.thorough:
        for s in range(ns):
            jobs.append((exe, "dsu", 6, 5, s, ns))
    jobs.append((exe, "err", 5))
    jobs.append((exe, "flood", 5))
    core.pmap(ctx, _chunk_driver, jobs, nchunks=min(len(jobs), 64))

    # ---- engine: T<=3, one compiled model per graph, full alphabet
    items = []
    for T in (1, 2, 3):
        for pkt in itertools.product(PAIR_KINDS, repeat=len(_pairs(T))):
            for tk in itertools.product(TREE_KINDS, repeat=T):
                if all(k == "none" for k in pkt) and all(k == "none" for k in tk):
                    continue
                for jac in ("dense", "sparse"):
                    items.append((T, pkt, tk, jac))
    ctx.extra["compiled_scenes"] = len(items)
    core.pmap(ctx, _chunk_compiled, items, nchunks=128)

    # ---- engine: T=4 (5) on the universe model
    uitems = []
    nuni = 0

    def add_universe(T, pair_alpha, tree_sets):
        nonlocal nuni
        rest = 1
        for a in pair_alpha[1:]:
            rest *= len(a)
        for jac in ("dense", "sparse"):
            for first in pair_alpha[0]:
                uitems.append((T, jac, first, pair_alpha, tree_sets))
                nuni += rest * len(tree_sets)

    if not ctx.thorough:
        alpha = [["none", "contact", "weld", "jointeq", "tendonlimit"]] * 6
        trees = [("none",) * 4, ("frictionloss",) * 4, ("frictionloss", "none") * 2, ("none", "frictionloss") * 2]
        add_universe(4, alpha, trees)
    else:
        alpha = [PAIR_KINDS] * 6
        trees = [("none",) * 4]
        for kind in TREE_KINDS[1:]:
            for mask in range(1, 16):
                trees.append(tuple(kind if (mask >> i) & 1 else "none" for i in range(4)))
        add_universe(4, alpha, trees)
        # T=5: every graph on 5 trees (2^10), coupling kind of pair p = kinds[(p+rot) % 5] for the 5 rotations
        for rot in range(5):
            alpha5 = [["none", PAIR_KINDS[1 + (p + rot) % 5]] for p in range(10)]
            trees5 = [tk for tk in itertools.product(["none", "frictionloss"], repeat=5)]
            add_universe(5, alpha5, trees5)
    ctx.extra["universe_scenes"] = nuni
    core.pmap(ctx, _chunk_universe, uitems, nchunks=len(uitems))

    # ---- rows between two dof-less bodies
    sitems = [(nm, a, b, jac) for nm, a, b in (("world-world", "w1", "w2"), ("static-mocap", "s1", "m1"), ("world-dynamic", "w1", "f1"))
              for jac in ("dense", "sparse")]
    core.pmap(ctx, _chunk_static, sitems, nchunks=2)

    ctx.rule = ("pure core: every sequence of <=%d operations {mj_dsuMerge(a,b) for all ordered (a,b) in {-1..n-1}^2, mj_dsuRoot(t) on active t} "
                "for n=1..5%s, checked after every prefix (+ mj_dsuAssign, + (-1,-1) error contract), mj_floodFill on all 2^(n(n-1)/2+n) "
                "symmetric structures n<=5 x 4 colind encodings; engine: full product of pair kinds %s x tree kinds %s x {dense,sparse} for "
                "T=1..3 (one compiled model per graph); T=4 on a run-time-switched universe model with %s; plus explicit pairs between two "
                "dof-less bodies. non-trivial = (pure core) a merge that unites two classes one of which has >=2 trees / a graph with >=2 "
                "components or >=4 vertices; (engine) scene with >=1 tree-tree coupling and (>=2 islands or >=2 couplings)"
                % (depth, " and n=6 depth 5" if ctx.thorough else "", PAIR_KINDS, TREE_KINDS,
                   "full pair alphabet^6 x {all none, one tree kind on every non-empty subset of trees}; T=5: all 2^10 graphs x 5 kind rotations x "
                   "{none,frictionloss}^5" if ctx.thorough else "pair alphabet {none,contact,weld,jointeq,tendonlimit}^6 x frictionloss on {no, all, even, odd} trees"))
    ctx.assumptions = ["a row's trees are the trees owning the non-zero columns of efc_J (generic axes: no accidental zeros), rows grouped per (efc_type, efc_id)",
                       "universe model: couplings are switched through eq_active, pair_margin, tendon_range, jnt_range, dof_frictionloss only",
                       "flex stiffness coupling not enumerated"]
