"""C02 Multithreaded stepping is bit-identical to single-threaded.

E3: the whole engine linked statically with engine_thread.cc compiled against the controlled scheduler and
engine_memory.c's atomic stack-pointer bump routed through it.  For models that really parallelise (several
constraint islands -> island solver dispatch; >= 17 candidate geom pairs -> >= 2 narrow-phase chunks) and pool sizes
1..2 (3 thorough), ALL interleavings of main + workers with <= P preemptions are executed for mj_forward, mj_step,
two steps and mj_inverse; after every execution every mjData field is compared bit-exactly with the pool-less run.
Companion (sampling, reported separately, not the deciding step): the same calls free-running on real threads in
the ThreadSanitizer build with pools of 0..8 workers.
"""
import json
import os
import subprocess

from .. import build, core

LEVEL = "model_checking"
META = dict(
    category=LEVEL,
    technique="stateless model checking of mj_forward/mj_step/mj_inverse with a real engine thread pool under a controlled "
              "scheduler (iterative preemption bounding), bit-exact differential against the pool-less run; TSan companion",
    text="Every interleaving with <=1 (thorough 2) preemptions at task-claim / completion / signal / concurrent stack "
         "reservation granularity is executed on the unmodified engine for island-parallel and narrow-phase-parallel "
         "models with 1-2 (3) workers, and all outputs (contacts, efc_*, qacc, sensordata, next state, island arrays, "
         "solver statistics, warnings) must be bit-identical to the run without a pool; stack pointer restored; no "
         "deadlock/livelock. The TSan build runs the same calls free-running with pools 0..8 and must report no race.",
    note="Sequentially consistent atomics; plain accesses are not scheduling points (delegated to the TSan companion, "
         "which samples OS schedules); the tactile-sensor dispatch is exercised with a builtin plate mesh of 1073 taxels "
         "(file-based / SDF pads need decoders that are inert in this sandbox).",
    design_ref="DESIGN.md §3 C02")


def _spheres(n, extra_opt="", box_every=3, spacing=1.0):
    bodies = []
    for i in range(n):
        g = '<geom type="box" size=".1 .1 .1"/>' if box_every and i % box_every == 2 else '<geom size=".1"/>'
        bodies.append('    <body pos="%g %g .099"><freejoint/>%s</body>' % ((i % 6) * spacing, (i // 6) * spacing, g))
    return ('<mujoco>\n  <option %s/>\n  <worldbody>\n    <geom type="plane" size="20 20 .1"/>\n%s\n  </worldbody>\n'
            '  <sensor><framepos objtype="body" objname="world"/></sensor>\n</mujoco>\n' % (extra_opt, "\n".join(bodies)))


MODELS = {
    # 3 islands, Newton / CG / PGS: island solver dispatch with 3 tasks
    "isl3_newton": _spheres(3, 'solver="Newton"'),
    "isl3_cg": _spheres(3, 'solver="CG" cone="elliptic"'),
    "isl3_pgs": _spheres(3, 'solver="PGS"'),
    # 4 islands, two of them coupled by stacking
    "isl4_stack": _spheres(4, 'solver="Newton"').replace('<body pos="3 0 .099">', '<body pos="0 0 .298">'),
    # 17 plane contacts: narrow phase splits into 2 chunks of 16/1 (chunks are >= 16 pairs)
    "pairs17": _spheres(17, 'solver="PGS" iterations="3"'),
    # 17 ellipsoids resting (penetrating) on one static box: 17 general-convex pairs -> 2 narrow-phase chunks that both run
    # GJK/EPA on per-thread scratch memory (addressed by the thread id)
    "convex17": ('<mujoco>\n  <option solver="PGS" iterations="3"/>\n  <worldbody>\n    <geom type="box" size="20 20 .5" pos="0 0 -.5"/>\n%s\n'
                 '  </worldbody>\n</mujoco>\n' % "\n".join(
                     '    <body pos="%g %g .079"><freejoint/><geom type="ellipsoid" size=".1 .12 .08"/></body>' % ((i % 6) * 1.0, (i // 6) * 1.0)
                     for i in range(17))),
    # tactile pad with 37x29 = 1073 taxels (>= 1000: the sensor's task-parallel path); one sphere presses on the taxels
    # with the highest indices, so a partition that drops a remainder of the taxels is visible
    "tactile": """<mujoco>
  <option timestep="0.002"/>
  <asset><mesh name="pad" builtin="plate" params="37 29" scale=".3 .5 .2"/></asset>
  <worldbody>
    <geom name="ball1" type="sphere" size=".25" pos="0.2918919 0.48275861 1.2"/>
    <geom name="ball2" type="sphere" size=".15" pos="-0.05 0.1 1.1"/>
    <body name="finger" pos="0 0 1">
      <freejoint/>
      <geom type="box" size=".3 .5 .02" mass="0.1"/>
      <geom name="finger" type="mesh" mesh="pad" pos="0 0 .2" mass="0" contype="0" conaffinity="0"/>
    </body>
  </worldbody>
  <sensor><tactile name="pad" geom="finger" mesh="pad"/></sensor>
</mujoco>
""",
}


def exes():
    hook = ("-include", os.path.join(build.NATIVE, "vsched", "vsched_c.h"),
            "-D__atomic_fetch_add(p,v,m)=vsched_fetch_add_size(p,v)")
    x = build.ensure_exe("c02_mtstep", ["drivers/c02_mtstep.cc"], sched=("src/engine/engine_thread.cc",), static=True,
                         per_source={"src/engine/engine_memory.c": hook})
    return x


def _model_file(name):
    d = os.path.join(build.CACHE, "c02")
    os.makedirs(d, exist_ok=True)
    p = os.path.join(d, name + ".xml")
    if not os.path.exists(p) or open(p).read() != MODELS[name]:
        tmp = p + ".%d.tmp" % os.getpid()
        with open(tmp, "w") as fh:
            fh.write(MODELS[name])
        os.replace(tmp, p)
    return p


def _run(args):
    x, name, call, workers, bound, shard, nsh, cap = args
    part = core.Part()
    r = subprocess.run([x, "explore", _model_file(name), call, str(workers), str(bound), str(shard), str(nsh), str(cap)],
                       capture_output=True, text=True)
    if r.returncode not in (0, 1) or not r.stdout.strip():
        part.violation("harness c02 %s" % name, "driver failed rc=%d: %s" % (r.returncode, r.stderr[-400:]), {"model": name})
        return part
    res = json.loads(r.stdout.strip().splitlines()[-1])
    part["evaluations"] = res["executions"]
    part["traces"] = res["executions"]
    part["states"] = res["distinct_prefixes"]
    part["transitions"] = res["points"]
    part["nontrivial_count"] = res["executions"]
    for o in res["outcome_samples"]:
        part["outcomes"].add("%s/%s/%d:%s" % (name, call, workers, o))
    if res["capped"]:
        part["capped"] = True
        part.add("capped_runs", 1)
    part.add("runs", 1)
    if res["failures"]:
        what = res["first_failure"]
        part.violation("threaded %s: %s" % (call, what.split("field")[0].strip()[:100] + (" field " + what.split("field ")[1][:40] if "field " in what else "")),
                       "model %s call %s workers %d schedule %s: %s" % (name, call, workers, res["first_failure_schedule"], what),
                       {"model": name, "xml": MODELS[name], "call": call, "workers": workers, "schedule": res["first_failure_schedule"]})
    if shard == 0:
        part["samples"].append({"model": name, "call": call, "workers": workers, "bound": bound,
                                "a_schedule": (res["schedule_samples"] or [""])[0][:80], "ref": r.stderr.strip()[-60:]})
    return part


def _chunk(chunk):
    total = core.Ctx("C02", "quick", 0, LEVEL)
    for a in chunk:
        total.merge(_run(a))
    p = core.Part()
    p["evaluations"] = total.evaluations
    p["nontrivial_count"] = total.nontrivial_extra
    p["states"], p["transitions"], p["traces"] = total.states, total.transitions, total.traces
    p["outcomes"] = total.outcomes
    p["samples"] = total.samples[:2]
    p["violations"] = [{"key": k, "what": w, "replay": r} for k, w, r in total.violations]
    p["extra"] = total.extra
    p["capped"] = not total.exhaustive
    return p


def _tsan(ctx):
    """Companion pass: free-running in the TSan build (sampling; reported separately)."""
    try:
        x = build.ensure_exe("c02_free", ["drivers/c02_free.cc"], variant="tsan")
    except SystemExit:
        ctx.extra["tsan_companion"] = "build failed"
        return
    reports = 0
    runs = 0
    for name in MODELS:
        for call in ("step2", "inverse"):
            env = dict(os.environ, TSAN_OPTIONS="halt_on_error=0:exitcode=66:report_signal_unsafe=0")
            r = subprocess.run([x, _model_file(name), call, "8" if ctx.thorough else "4", "3" if ctx.thorough else "1"],
                               capture_output=True, text=True, env=env)
            runs += 1
            if "WARNING: ThreadSanitizer" in r.stderr:
                reports += 1
                ctx.violation("tsan: data race during %s" % call, "ThreadSanitizer report on model %s call %s:\n%s" %
                              (name, call, r.stderr[:1500]), {"model": name, "call": call, "xml": MODELS[name]})
            for line in r.stdout.splitlines():
                if line.startswith("FREEDIFF"):
                    ctx.violation("free-running threaded %s differs from the pool-less run" % call,
                                  "model %s: %s" % (name, line), {"model": name, "call": call, "xml": MODELS[name]})
    ctx.extra["tsan_companion_runs"] = runs
    ctx.extra["tsan_companion_reports"] = reports


def run(ctx):
    x = exes()
    for name in MODELS:
        _model_file(name)
    bound = ctx.q(1, 2)
    cap = ctx.q(6000, 12000)
    jobs = []
    nsh = ctx.q(4, 16)
    calls = ["forward", "step", "inverse"] + (["step2"] if ctx.thorough else [])
    for name in MODELS:
        for call in calls:
            for workers in ((1, 2) if not ctx.thorough else (1, 2, 3)):
                if name == "pairs17" and (workers > 2 or (not ctx.thorough and call != "step")):
                    continue
                if name == "convex17" and (workers > 2 or call != "step"):
                    continue
                if name == "tactile" and (call not in ("forward", "step") or (not ctx.thorough and call != "forward")):
                    continue
                for s in range(nsh):
                    jobs.append((x, name, call, workers, bound, s, nsh, cap))
    core.pmap(ctx, _chunk, jobs, nchunks=len(jobs))
    _tsan(ctx)
    ctx.extra["preemption_bound"] = bound
    ctx.rule = ("models %s x calls %s x workers 1..%d, all schedules with <=%d preemptions (scheduling points: next_/ndone_/signal_ "
                "atomics, thread start/join, concurrent stack reservation); every execution is compared bit-exactly (all mjData "
                "buffer/arena/scalar/vector fields except timers, maxuse_*, threadpool) with the pool-less run. states = distinct "
                "schedule prefixes" % (sorted(MODELS), calls, 2 if not ctx.thorough else 3, bound))
    ctx.assumptions = ["sequentially consistent atomics", "plain data races are covered only by the TSan companion (sampling)",
                       "cap %d executions per (model, call, workers, shard), reported if hit" % cap]


def replay(ctx, path):
    """Re-run one recorded schedule without the explorer: ./check C02 --replay <file>"""
    import json as _json
    r = _json.load(open(path))["replay"]
    p = subprocess.run([exes(), "replay", _model_file(r["model"]), r["call"], str(r["workers"]), r.get("schedule", "")],
                       capture_output=True, text=True)
    print(p.stdout[-3000:])
    print("replay exit", p.returncode)
    return 1 if p.returncode else 0
