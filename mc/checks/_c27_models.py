"""C27 model alphabet: 2-body chains x transmission menu x the full per-actuator product (gain x bias x dyn x limits
x actearly), all emitted as MJCF and compiled by the tree's compiler."""
from __future__ import annotations

import itertools
import math

import numpy as np

from .. import alphabet as A

# enum encodings of the compiled model (mjtype.h order)
TRN = dict(joint=0, jointinparent=1, slidercrank=2, tendon=3, site=4, body=5, so3=6)
DYN = dict(none=0, integrator=1, filter=2, filterexact=3, muscle=4, dcmotor=5, pid=6, user=7)
GAIN = dict(fixed=0, affine=1, muscle=2, dcmotor=3, so3=4, pid=5, user=6)
BIAS = dict(none=0, affine=1, muscle=2, dcmotor=3, so3=4, user=5)

#           range0 range1 force scale lmin lmax vmax fpmax fvmax
MUS_A = [0.75, 1.05, 3.5, 200.0, 0.5, 1.6, 1.5, 1.3, 1.2]
MUS_B = [0.6, 1.2, -1.0, 2.5, 0.4, 1.8, 0.9, 1.1, 1.4]
MUS_C = [0.7, 1.1, 2.2, 200.0, 0.45, 1.7, 1.5, 1.25, 1.2]

GAINS = [("fixed", "fixed", [1.7]), ("affine", "affine", [0.6, -0.9, 0.4]), ("muscleF", "muscle", MUS_A),
         ("muscleS", "muscle", MUS_B)]
BIASES = [("none", "none", []), ("affine", "affine", [0.3, -0.8, -0.25]), ("muscle", "muscle", MUS_C)]
DYNS = [("none", "none", []), ("integrator", "integrator", []), ("filter", "filter", [0.03]),
        ("filterexact", "filterexact", [0.0013]), ("muscle", "muscle", [0.01, 0.04, 0.0]),
        ("musclesmooth", "muscle", [0.012, 0.05, 0.3])]
CTRLRANGE = (-0.5, 1.2)
FORCERANGE = (-0.8, 1.1)
ACTRANGE = (-0.2, 0.9)
CTRLS = A.CTRLS                       # -1, 0, 0.6, 2 : two inside, two outside ctrlrange
ACTS = [-0.4, 0.0, 0.35, 1.3]         # two inside, two outside actrange and the muscle's [0,1]
GROUPS = (0, 2, 30)
MASKS = (0, 1 << 0, (1 << 2) | (1 << 30))
TIMESTEP = 0.002


def actuator_product():
    """full product gain x bias x dyn x ctrllimited x forcelimited x actlimited x actearly; returns (kept, pruned)."""
    kept, pruned = [], 0
    for (g, b, dy, cl, fl, al, early) in itertools.product(range(len(GAINS)), range(len(BIASES)), range(len(DYNS)),
                                                           (0, 1), (0, 1), (0, 1), (0, 1)):
        if DYNS[dy][1] == "none" and al:
            pruned += 1                # compiler: "actrange specified but dyntype is 'none'"
            continue
        kept.append(dict(g=g, b=b, dy=dy, cl=cl, fl=fl, al=al, early=early, group=GROUPS[len(kept) % 3]))
    return kept, pruned


def fmt(v):
    return " ".join("%.17g" % x for x in v)


def general_xml(name, target, gear, a, lengthrange, gains=None):
    gname, gtype, gprm = (gains or GAINS)[a["g"]]
    bname, btype, bprm = BIASES[a["b"]]
    dname, dtype, dprm = DYNS[a["dy"]]
    s = '    <general name="%s" %s gear="%s" dyntype="%s" gaintype="%s" biastype="%s"' % (
        name, target, gear, dtype, gtype, btype)
    if dprm:
        s += ' dynprm="%s"' % fmt(dprm)
    s += ' gainprm="%s"' % fmt(gprm)
    if bprm:
        s += ' biasprm="%s"' % fmt(bprm)
    tf = ("false", "true")
    s += ' ctrllimited="%s" ctrlrange="%s" forcelimited="%s" forcerange="%s"' % (
        tf[a["cl"]], fmt(CTRLRANGE), tf[a["fl"]], fmt(FORCERANGE))
    if dtype != "none":
        s += ' actlimited="%s" actrange="%s"' % (tf[a["al"]], fmt(ACTRANGE))
    s += ' actearly="%s" group="%d" lengthrange="%s"/>\n' % (tf[a["early"]], a["group"], fmt(lengthrange))
    return s


# ------------------------------------------------------------------ kinematic bases

ROOTS = ("hinge", "slide", "ball", "free")
SW = '    <site name="sw" pos="0.1 0.25 0.3" quat="1 0.3 0.2 0.1"/>\n'


def base_xml(root, tclamp, sections, contact=False, option_extra="", ballclamp=False, ranges=False, tendon_range="-7 5",
             joint_range="-6 9"):
    """world -> b0 (root joint j0) -> b1 (hinge j1); sites sw (world), s0, s1; tendons tf (fixed), ts (spatial)."""
    jclamp = ' actuatorfrcrange="%s" actuatorgravcomp="true"' % joint_range if tclamp else ""
    jrange = ' range="-1.1 0.7"' if ranges else ""
    if root == "free":
        j0 = '<joint name="j0" type="free"%s/>' % (' actuatorfrcrange="-6 9"' if ballclamp else "")
    elif root == "ball":
        j0 = '<joint name="j0" type="ball" pos="0.05 -0.03 0.07"%s/>' % (' actuatorfrcrange="-6 9"' if ballclamp else "")
    else:
        j0 = '<joint name="j0" type="%s" axis="%s" pos="0.05 -0.03 0.07"%s%s/>' % (root, A.AXES[2], jclamp, jrange)
    gattr = 'contype="1" conaffinity="1" condim="3" margin="0.02" gap="0.01"' if contact else 'contype="0" conaffinity="0"'
    grav = ' gravcomp="0.7"' if tclamp else ""
    body = SW
    if contact:
        body += '    <geom name="floor" type="plane" size="2 2 0.1" contype="1" conaffinity="1" condim="3"/>\n'
    body += ('    <body name="b0" pos="0.2 0.1 %s"%s>\n      %s\n'
             '      <geom name="g0" type="box" size="0.1 0.08 0.05" %s/>\n'
             '      <site name="s0" pos="0.02 -0.04 0.06" quat="0.7 -0.1 0.5 0.3"/>\n'
             '      <body name="b1" pos="0.15 -0.2 0.1" quat="0.8 0.2 -0.4 0.4"%s>\n'
             '        <joint name="j1" type="hinge" axis="0 0 1" pos="0.01 0.02 -0.03"%s/>\n'
             '        <geom name="g1" type="capsule" size="0.04 0.1" pos="0.03 0.02 -0.05" quat="0.9 0.1 0.3 -0.2" %s/>\n'
             '        <site name="s1" pos="0.12 -0.14 0.16" quat="0.6 0.5 -0.3 0.2"/>\n'
             '      </body>\n    </body>\n' % ("0.045" if contact else "0.3", grav, j0, gattr, grav, jclamp, gattr))
    tclampattr = (' actuatorfrclimited="true" actuatorfrcrange="%s"' % tendon_range if tclamp else "") + (' range="-0.9 1.3"' if ranges else "")
    if root in ("hinge", "slide"):
        fixed = '<joint joint="j0" coef="1.3"/><joint joint="j1" coef="-0.7"/>'
    else:
        fixed = '<joint joint="j1" coef="-0.7"/>'
    tendon = ('  <tendon>\n    <fixed name="tf"%s>%s</fixed>\n'
              '    <spatial name="ts"%s><site site="sw"/><site site="s0"/><site site="s1"/></spatial>\n  </tendon>\n'
              % (tclampattr, fixed, tclampattr))
    opt = ('  <option timestep="%g" actuatorgroupdisable="2 30" %s/>' % (TIMESTEP, option_extra))
    return A.mjcf(body, option_elem=opt, sections=tendon + sections)


# transmission menu: name -> (root, target attribute string, gear string, descriptor for the reference model)
def transmissions(thorough):
    g3 = "0.5 -1.2 0.8"
    g6 = "0.5 -1.2 0.8 0.3 0.9 -0.4"
    T = []
    for root in ROOTS:
        gear = {"hinge": "1.3", "slide": "1.3", "ball": g3, "free": g6}[root]
        T.append(("joint:" + root, root, 'joint="j0"', gear, dict(kind="joint", inparent=False, jnt="j0")))
        if root in ("ball", "free") or (thorough and root == "hinge"):
            T.append(("jointinparent:" + root, root, 'jointinparent="j0"', gear, dict(kind="joint", inparent=True, jnt="j0")))
    T.append(("joint:childhinge", "ball", 'joint="j1"', "-0.6", dict(kind="joint", inparent=False, jnt="j1")))
    T.append(("tendon:fixed", "hinge", 'tendon="tf"', "0.8", dict(kind="tendon", ten="tf")))
    T.append(("tendon:fixed1", "ball", 'tendon="tf"', "0.8", dict(kind="tendon", ten="tf")))
    T.append(("tendon:spatial", "hinge", 'tendon="ts"', "0.8", dict(kind="tendon", ten="ts")))
    T.append(("tendon:spatialball", "ball", 'tendon="ts"', "-1.1", dict(kind="tendon", ten="ts")))
    T.append(("site", "hinge", 'site="s1"', g6, dict(kind="site", site="s1", ref=None)))
    T.append(("site:free", "free", 'site="s1"', g6, dict(kind="site", site="s1", ref=None)))
    gears = [("trans", "0.5 -1.2 0.8 0 0 0"), ("rot", "0 0 0 0.3 0.9 -0.4"), ("mixed", g6)]
    pairs = [("s1", "s0"), ("s0", "s1"), ("s1", "sw"), ("sw", "s1")]
    for (s, r) in pairs:
        for gn, gear in gears:
            for root in (("ball", "hinge") if thorough else ("ball",)):
                T.append(("refsite:%s-%s:%s:%s" % (s, r, gn, root), root, 'site="%s" refsite="%s"' % (s, r), gear,
                          dict(kind="site", site=s, ref=r)))
    T.append(("crank:world", "hinge", 'cranksite="s1" slidersite="sw" cranklength="0.6"', "1.5",
              dict(kind="crank", crank="s1", slider="sw", rod=0.6)))
    T.append(("crank:moving", "ball", 'cranksite="s1" slidersite="s0" cranklength="0.45"', "1.5",
              dict(kind="crank", crank="s1", slider="s0", rod=0.45)))
    T.append(("body:pyramidal", "free", 'body="b0"', "1", dict(kind="body", body="b0", cone="pyramidal")))
    T.append(("body:elliptic", "free", 'body="b0"', "1", dict(kind="body", body="b0", cone="elliptic")))
    T.append(("body:gear2", "free", 'body="b0"', "2", dict(kind="body", body="b0", cone="pyramidal")))
    return T


def quats():
    return [np.array(q) for q in A.QUATS]


def state_lattice(root, kind, thorough, extreme=None):
    """qpos vectors (root joint alphabet x child hinge alphabet), simplest first."""
    out = []
    hs = [0.0, 0.37, -1.3]
    if root in ("hinge", "slide"):
        rs = [[x] for x in ([0.0, 0.37, -1.3] if root == "hinge" else [0.0, 0.11, -0.23])]
    elif root == "ball":
        rs = [list(q) for q in A.QUATS] + [[0.6, -0.5, 0.1, 0.6164414002968976]]
    else:
        if kind == "body":
            # contacts are detected below margin+gap = 0.03, active below margin = 0.02 (box bottom at z-0.05):
            # penetrating, active margin, in gap, out of reach; tilted: some corners active and others in the gap
            rs = []
            for z in (0.045, 0.06, 0.075, 0.2):
                rs.append([0.2, 0.1, z, 1, 0, 0, 0])
            c, s = math.cos(0.075), math.sin(0.075)
            rs.append([0.2, 0.1, 0.066, c, s, 0, 0])
            rs.append([0.2, 0.1, 0.07, math.cos(0.05), 0.0, math.sin(0.05), 0])
        else:
            rs = [[0.2, 0.1, 0.3] + list(A.QUATS[0]), [0.5, -0.1, 0.8] + list(A.QUATS[2]),
                  [0.1, 0.3, 0.2, 0.6, -0.5, 0.1, 0.6164414002968976]]
    if extreme is not None and root == "ball":
        # rotations by +-0.97 pi about the (ball-joint) gear axis: lengths next to the wrap of the circle
        ax = np.array(extreme, float) / np.linalg.norm(extreme)
        for sgn in (1.0, -1.0):
            ang = 0.97 * math.pi
            rs.append([math.cos(ang / 2)] + list(sgn * math.sin(ang / 2) * ax))
    n = 0
    for i, r in enumerate(rs):
        for j, h in enumerate(hs):
            if not thorough and (i + j) % len(hs) != 0 and not (kind == "body" and j == 0):
                continue                  # quick: a covering diagonal (every root value and every hinge value appears)
            out.append(np.array(r + [h], float))
    return out


def vel_lattice(nv, thorough):
    vs = [np.zeros(nv), np.array([0.7 * ((-1) ** i) * (1 + 0.3 * i) for i in range(nv)])]
    if thorough:
        vs.append(np.array([-1.9 + 0.8 * i for i in range(nv)]))
    return vs
