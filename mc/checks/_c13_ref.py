"""Closed-form geometry for C13: signed distances between primitive pairs, support functions, point SDFs.

Conventions: a geom is (type, size, c, R) with world centre c and rotation R (columns = local axes).
Signed distance d(A,B) = max over unit n of  g(n) = n.(cB-cA) - hA(n) - hB(-n)   (h = support function about the
centre): positive = separation, negative = penetration depth (minimal translation that separates the two).
The closed forms below evaluate that maximum exactly for every pair that MuJoCo's analytic colliders handle.
"""
from __future__ import annotations

import itertools

import numpy as np

PLANE, SPHERE, CAPSULE, CYLINDER, BOX = 0, 2, 3, 5, 6


# ------------------------------------------------------------------ support functions and point SDFs

def support(t, size, R, n):
    """h(n) = max over x in geom of n.(x - c)"""
    if t == SPHERE:
        return size[0]
    a = R[:, 2] @ n
    if t == CAPSULE:
        return size[0] + size[1] * abs(a)
    if t == CYLINDER:   # |n x axis| instead of sqrt(1-a^2): well conditioned when n is (nearly) along the axis
        return size[1] * abs(a) + size[0] * float(np.linalg.norm(np.cross(n, R[:, 2])))
    if t == BOX:
        return float(np.abs(R.T @ n) @ np.asarray(size[:3]))
    if t == PLANE:   # half space z <= 0
        return 0.0 if np.linalg.norm(n - R[:, 2]) < 1e-9 else np.inf
    raise ValueError(t)


def sdf(t, size, c, R, p):
    """Signed distance from world point p to the solid (negative inside)."""
    q = R.T @ (np.asarray(p) - c)
    if t == PLANE:
        return q[2]
    if t == SPHERE:
        return np.linalg.norm(q) - size[0]
    if t == CAPSULE:
        z = np.clip(q[2], -size[1], size[1])
        return np.linalg.norm(q - np.array([0, 0, z])) - size[0]
    if t == CYLINDER:
        dx = np.hypot(q[0], q[1]) - size[0]
        dz = abs(q[2]) - size[1]
        return np.hypot(max(dx, 0.0), max(dz, 0.0)) + min(max(dx, dz), 0.0)
    if t == BOX:
        e = np.abs(q) - np.asarray(size[:3])
        return np.linalg.norm(np.maximum(e, 0.0)) + min(e.max(), 0.0)
    raise ValueError(t)


def gap(gA, gB, n):
    """g(n) for unit n pointing from A to B."""
    tA, sA, cA, RA = gA
    tB, sB, cB, RB = gB
    return float(n @ (cB - cA)) - support(tA, sA, RA, n) - support(tB, sB, RB, -n)


# ------------------------------------------------------------------ elementary distances

def segseg(p1, q1, p2, q2):
    """Distance between segments [p1,q1] and [p2,q2]; arrays broadcast over leading dims (Ericson 5.1.9)."""
    d1 = q1 - p1
    d2 = q2 - p2
    r = p1 - p2
    a = np.sum(d1 * d1, -1)
    e = np.sum(d2 * d2, -1)
    f = np.sum(d2 * r, -1)
    c = np.sum(d1 * r, -1)
    b = np.sum(d1 * d2, -1)
    den = a * e - b * b
    with np.errstate(divide="ignore", invalid="ignore"):
        s = np.where(den > 1e-14 * a * e, np.clip((b * f - c * e) / np.where(den == 0, 1, den), 0, 1), 0.0)
        t = (b * s + f) / e
        s = np.where(t < 0, np.clip(-c / a, 0, 1), np.where(t > 1, np.clip((b - c) / a, 0, 1), s))
        t = np.clip(t, 0, 1)
    w = (p1 + s[..., None] * d1) - (p2 + t[..., None] * d2)
    return np.sqrt(np.sum(w * w, -1))


def point_segment(p, a, b):
    ab = b - a
    t = np.clip(((p - a) @ ab) / (ab @ ab), 0, 1)
    return np.linalg.norm(p - (a + t * ab))


def box_vertices(size, c, R):
    s = np.array(list(itertools.product((-1, 1), repeat=3)), float) * np.asarray(size[:3])
    return c + s @ R.T


_EDGES = [(i, j) for i in range(8) for j in range(i + 1, 8) if bin(i ^ j).count("1") == 1]


def box_edges(size, c, R):
    v = box_vertices(size, c, R)   # index bits: (x,y,z) with product order -> i = 4*x+2*y+z
    a = np.array([v[i] for i, j in _EDGES])
    b = np.array([v[j] for i, j in _EDGES])
    return a, b


def box_out_dist(size, c, R, P):
    """Unsigned distance from points P (N,3) to a solid box (0 inside)."""
    q = np.abs((P - c) @ R) - np.asarray(size[:3])
    return np.linalg.norm(np.maximum(q, 0.0), axis=1)


def seg_clip_box(size, a, b):
    """Parameter interval of the part of the local segment a->b inside the box, or None."""
    t0, t1 = 0.0, 1.0
    d = b - a
    for k in range(3):
        if d[k] == 0:
            if abs(a[k]) > size[k]:
                return None
        else:
            ta = (-size[k] - a[k]) / d[k]
            tb = (size[k] - a[k]) / d[k]
            t0 = max(t0, min(ta, tb))
            t1 = min(t1, max(ta, tb))
    return (t0, t1) if t0 <= t1 else None


# ------------------------------------------------------------------ pair distances (tA <= tB)

def _seg(size, c, R):
    ax = R[:, 2] * size[1]
    return c - ax, c + ax


def _sat(gA, gB, axes):
    best = -np.inf
    for n in axes:
        ln = np.linalg.norm(n)
        if ln < 1e-9:
            continue
        n = n / ln
        best = max(best, gap(gA, gB, n), gap(gA, gB, -n))
    return best


def pair_distance(gA, gB):
    tA, sA, cA, RA = gA
    tB, sB, cB, RB = gB
    if tA == PLANE:
        n = RA[:, 2]
        return float(n @ (cB - cA)) - support(tB, sB, RB, -n)
    if tA == SPHERE:
        if tB == SPHERE:
            return np.linalg.norm(cB - cA) - sA[0] - sB[0]
        if tB == CAPSULE:
            return point_segment(cA, *_seg(sB, cB, RB)) - sA[0] - sB[0]
        return sdf(tB, sB, cB, RB, cA) - sA[0]          # cylinder, box
    if tA == CAPSULE and tB == CAPSULE:
        a1, b1 = _seg(sA, cA, RA)
        a2, b2 = _seg(sB, cB, RB)
        return float(segseg(a1, b1, a2, b2)) - sA[0] - sB[0]
    if tA == CAPSULE and tB == BOX:
        a, b = _seg(sA, cA, RA)
        la, lb = RB.T @ (a - cB), RB.T @ (b - cB)
        if seg_clip_box(sB[:3], la, lb) is not None:
            # the segment crosses the box: depth of the segment (a flat polytope) by the separating-axis theorem
            u = RA[:, 2]
            axes = [RB[:, k] for k in range(3)] + [np.cross(u, RB[:, k]) for k in range(3)]
            seg = (CAPSULE, (0.0, sA[1]), cA, RA)
            return _sat(seg, gB, axes) - sA[0]
        ea, eb = box_edges(sB, cB, RB)
        dmin = min(box_out_dist(sB, cB, RB, np.array([a, b])).min(), segseg(a[None], b[None], ea, eb).min())
        return dmin - sA[0]
    if tA == BOX and tB == BOX:
        axes = [RA[:, k] for k in range(3)] + [RB[:, k] for k in range(3)] + \
               [np.cross(RA[:, i], RB[:, j]) for i in range(3) for j in range(3)]
        s = _sat(gA, gB, axes)
        if s <= 0:
            return s
        va, vb = box_vertices(sA, cA, RA), box_vertices(sB, cB, RB)
        ea, eb = box_edges(sA, cA, RA)
        fa, fb = box_edges(sB, cB, RB)
        dee = segseg(ea[:, None], eb[:, None], fa[None], fb[None]).min()
        return min(box_out_dist(sB, cB, RB, va).min(), box_out_dist(sA, cA, RA, vb).min(), dee)
    raise ValueError((tA, tB))


def sat_separation_boxbox(gA, gB):
    """max of g over the 15 candidate axes only (what a separating-axis collider reports when separated)."""
    tA, sA, cA, RA = gA
    tB, sB, cB, RB = gB
    axes = [RA[:, k] for k in range(3)] + [RB[:, k] for k in range(3)] + \
           [np.cross(RA[:, i], RB[:, j]) for i in range(3) for j in range(3)]
    return _sat(gA, gB, axes)


# ------------------------------------------------------------------ canonical keys of root causes shared by C13 and C15

K_GJK0 = ("mjc_ccd: coincident geom centres give the initial point x0 = c1 - c2 = 0, GJK stops at iteration 0 with an empty simplex "
          "and distance 0 is reported (EPA never runs: no penetration depth, no contact)")
K_EPAW = ("mjc_ccd/EPA: witness points are barycentric extrapolations on one of several coplanar polytope triangles and can lie "
          "outside both geoms (face-face penetration): fromto / contact pos are not on the surfaces although dist is right")
K_EPADEG = ("mjc_ccd/EPA: exactly symmetric configurations produce a degenerate initial simplex/polytope and a penetration depth that is "
            "too small (a 1e-7 perturbation of the pose gives the right depth)")
