"""C28 model + sensor alphabet.  Trees with <= 2 bodies (single, chain, siblings) x joint menu, every body carrying a geom
(off-centre inertial frame), a site and a camera; the sensor list is the product sensor type x legal attachment object x
reference-frame type x cutoff, emitted as MJCF and compiled by the tree's compiler."""
from __future__ import annotations

import itertools

from .. import alphabet as A

FRAME_OBJTYPES = ("body", "xbody", "geom", "site", "camera")
CUTOFF = 0.13          # "small": below most lattice magnitudes, so that the clamp is active
TIMESTEP = 0.002

JOINT_XML = {
    "hinge": '<joint name="%s" type="hinge" axis="%s" pos="0.05 -0.03 0.07" range="-0.2 0.25" margin="0.05" %s/>',
    "slide": '<joint name="%s" type="slide" axis="%s" pos="0.05 -0.03 0.07" range="-0.2 0.25" margin="0.05" %s/>',
    "ball": '<joint name="%s" type="ball" pos="0.05 -0.03 0.07" %s/>',
    "free": '<joint name="%s" type="free" %s/>',
}


def body_block(i, jt, inner="", extra_attr="", small_sites=False):
    pos, quat = [("0.2 0.1 0.3", "0.8 0.2 -0.4 0.4"), ("0.15 -0.2 0.1", "0.6 0.5 -0.3 0.2")][i]
    s = '    <body name="b%d" pos="%s" quat="%s">\n' % (i, pos, quat)
    if jt != "weld":
        x = JOINT_XML[jt]
        jattr = ['armature="0.013"', 'stiffness="1.7" springref="0.11"'][i]
        if jt in ("hinge", "slide"):
            s += "      " + x % ("j%d" % i, A.AXES[2 - i], jattr) + "\n"
        elif jt == "ball":
            s += "      " + x % ("j%d" % i, 'armature="0.013"' if i == 0 else "") + "\n"
        else:
            s += "      " + x % ("j%d" % i, "") + "\n"
    gtype = ['type="box" size="0.05 0.07 0.09"', 'type="capsule" size="0.04 0.1"'][i]
    s += '      <geom name="g%d" %s pos="0.03 0.02 -0.05" quat="0.9 0.1 0.3 -0.2" density="900" %s/>\n' % (i, gtype, extra_attr)
    s += '      <geom name="h%d" type="sphere" size="0.03" pos="-0.06 0.05 0.04" density="2500" %s/>\n' % (i, extra_attr)
    if small_sites and i == 0:
        # thin slab just outside the -z face of g0 (geom frame): contacts on that face lie behind it -> re-projection along the normal
        import numpy as np
        from ..mjutil import quat2mat
        qg = np.array([0.9, 0.1, 0.3, -0.2])
        Rg = quat2mat(qg / np.linalg.norm(qg))
        p = np.array([0.03, 0.02, -0.05]) + Rg @ np.array([0, 0, -0.11])
        s += '      <site name="st0" type="box" size="0.08 0.1 0.005" pos="%.17g %.17g %.17g" quat="0.9 0.1 0.3 -0.2"/>\n' % tuple(p)
    if small_sites:
        s += '      <site name="s%d" type="%s" size="0.06 0.09 0.05" pos="0.03 0.02 -0.1" quat="0.9 0.1 0.3 -0.2"/>\n' % (i, ["box", "ellipsoid"][i])
    else:
        s += '      <site name="s%d" type="%s" size="0.2 0.15 0.1" pos="0.02 -0.04 0.06" quat="0.7 -0.1 0.5 0.3"/>\n' % (i, ["box", "ellipsoid"][i])
    s += '      <camera name="c%d" pos="-0.1 0.05 0.12" quat="0.5 0.6 -0.2 0.3" resolution="64 48" fovy="%d"/>\n' % (i, [50, 70][i])
    s += inner
    s += "    </body>\n"
    return s


def model_menu(thorough):
    """(shape, j0, j1): shape in single/chain/sib."""
    out = []
    for j0 in ("hinge", "slide", "ball", "free"):
        out.append(("single", j0, None))
    j1s = ("hinge", "slide", "ball", "weld")
    if thorough:
        for j0 in ("hinge", "slide", "ball", "free"):
            for j1 in j1s:
                out.append(("chain", j0, j1))
        for j0 in ("hinge", "ball", "free"):
            for j1 in ("hinge", "slide", "ball", "free"):
                out.append(("sib", j0, j1))
    else:
        out += [("chain", "hinge", "ball"), ("chain", "slide", "hinge"), ("chain", "ball", "slide"), ("chain", "free", "weld"),
                ("chain", "free", "hinge"), ("sib", "hinge", "free"), ("sib", "ball", "slide")]
    return out


def objects(nb):
    """(objtype, name) of every object with a spatial frame on the moving bodies."""
    out = []
    for i in range(nb):
        out += [("body", "b%d" % i), ("xbody", "b%d" % i), ("geom", "g%d" % i), ("site", "s%d" % i), ("camera", "c%d" % i)]
    return out


def refs(nb, objtype, objname):
    """reference frames: none + one object of every reftype on another body (or the same body when single) + world-fixed ones."""
    other = (int(objname[1]) + 1) % nb if nb > 1 else 0
    out = [None, ("body", "b%d" % other), ("xbody", "b%d" % other), ("geom", "g%d" % other), ("site", "s%d" % other),
           ("camera", "c%d" % other), ("site", "sw"), ("geom", "gw"), ("camera", "cw")]
    return [r for r in out if r != (objtype, objname)]


class Sensors:
    def __init__(self):
        self.items = []
        self.pruned = 0

    def add(self, tag, attrs, cutoffs=(0.0, CUTOFF), **kw):
        for c in cutoffs:
            d = dict(tag=tag, attrs=attrs, cutoff=c, **kw)
            self.items.append(d)

    def xml(self, subset=None, trailing=True):
        s = "  <sensor>\n"
        for k, it in enumerate(self.items):
            if subset is not None and k not in subset:
                continue
            s += '    <%s name="x%d" %s%s%s/>\n' % (it["tag"], k, it["attrs"], ' cutoff="%g"' % it["cutoff"] if it["cutoff"] else "",
                                                     it.get("extra", ""))
        if trailing:
            s += '    <clock name="canary"/>\n'
        return s + "  </sensor>\n"


def build(shape, j0, j1, contact=False):
    nb = 1 if shape == "single" else 2
    jts = [j0, j1][:nb]
    gattr = 'contype="1" conaffinity="1" condim="3"' if contact else 'contype="0" conaffinity="0"'
    ss = contact
    if shape == "chain":
        body = body_block(0, j0, inner=body_block(1, j1, extra_attr=gattr, small_sites=ss), extra_attr=gattr, small_sites=ss)
    elif shape == "sib":
        body = body_block(0, j0, extra_attr=gattr, small_sites=ss) + body_block(1, j1, extra_attr=gattr, small_sites=ss).replace(
            'pos="0.15 -0.2 0.1"', 'pos="-0.25 0.3 0.45"')
    else:
        body = body_block(0, j0, extra_attr=gattr, small_sites=ss)
    world = ('    <site name="sw" type="box" size="0.6 0.5 0.45" pos="0.1 0.25 0.3" quat="1 0.3 0.2 0.1"/>\n'
             '    <geom name="floor" type="plane" size="3 3 0.1" %s/>\n'
             '    <geom name="gw" type="sphere" size="0.12" pos="0.6 -0.3 0.5" contype="0" conaffinity="0"/>\n'
             '    <camera name="cw" pos="-0.8 -1.1 0.9" xyaxes="1 -0.7 0 0.3 0.4 1" resolution="80 60" fovy="45"/>\n'
             % ('contype="1" conaffinity="1" condim="3"' if contact else 'contype="0" conaffinity="0"'))
    scal = ["j%d" % i for i, t in enumerate(jts) if t in ("hinge", "slide")]
    tendon = "  <tendon>\n"
    if scal:
        tendon += '    <fixed name="tf" range="-0.15 0.2" margin="0.03">%s</fixed>\n' % "".join(
            '<joint joint="%s" coef="%g"/>' % (j, c) for j, c in zip(scal, (1.3, -0.7)))
    sp = ["sw", "s0"] + (["s1"] if nb > 1 else [])
    tendon += '    <spatial name="ts" range="%s" margin="0.02">%%s</spatial>\n' % ("0.01 5" if contact else "0.1 0.24" if nb == 1 else "0.3 0.52") % "".join(
        '<site site="%s"/>' % x for x in sp)
    tendon += "  </tendon>\n"
    act = "  <actuator>\n"
    acts = []
    for i, t in enumerate(jts):
        if t in ("hinge", "slide"):
            act += '    <motor name="a%d" joint="j%d" gear="%g"/>\n' % (len(acts), i, 1.3 - 0.5 * i)
            acts.append(("joint", "j%d" % i))
        elif t == "ball":
            act += '    <position name="a%d" joint="j%d" gear="0.5 -1.2 0.8" kp="0.7"/>\n' % (len(acts), i)
            acts.append(("joint", "j%d" % i))
    if scal:
        act += '    <motor name="a%d" tendon="tf" gear="0.8"/>\n    <general name="a%d" tendon="tf" gainprm="-0.6" biastype="affine" biasprm="0.1 -0.2 -0.05"/>\n' % (
            len(acts), len(acts) + 1)
        acts += [("tendon", "tf"), ("tendon", "tf")]
    act += "  </actuator>\n"
    if not acts:
        act = ""
    opt = '  <option timestep="%g" magnetic="0.1 -0.5 0.3"/>' % TIMESTEP
    info = dict(nb=nb, jts=jts, scal=scal, acts=acts, tendons=(["tf"] if scal else []) + ["ts"], spatial_sites=sp, contact=contact)
    return world + body, opt, tendon + act, info


def sensor_list(info):
    S = Sensors()
    nb, jts = info["nb"], info["jts"]
    # --- frame sensors: type x object x reference x cutoff
    for (ot, on) in objects(nb):
        for r in refs(nb, ot, on):
            ra = "" if r is None else ' reftype="%s" refname="%s"' % r
            base = 'objtype="%s" objname="%s"%s' % (ot, on, ra)
            S.add("framepos", base, kind="framepos", obj=(ot, on), ref=r)
            S.add("framelinvel", base, kind="framelinvel", obj=(ot, on), ref=r)
            S.add("frameangvel", base, kind="frameangvel", obj=(ot, on), ref=r)
            S.add("framequat", base, cutoffs=(0.0,), kind="framequat", obj=(ot, on), ref=r)
            for k, ax in enumerate("xyz"):
                S.add("frame%saxis" % ax, base, cutoffs=(0.0,), kind="frameaxis", axis=k, obj=(ot, on), ref=r)
            S.pruned += 4          # cutoff on quaternion / axis sensors is a compile error
        base = 'objtype="%s" objname="%s"' % (ot, on)
        S.add("framelinacc", base, kind="framelinacc", obj=(ot, on))
        S.add("frameangacc", base, kind="frameangacc", obj=(ot, on))
    # --- site-mounted sensors
    for i in range(nb):
        site = 'site="s%d"' % i
        for tag in ("accelerometer", "velocimeter", "gyro", "magnetometer", "force", "torque"):
            S.add(tag, site, kind=tag, site="s%d" % i, body=i)
        S.add("touch", site, kind="touch", site="s%d" % i, body=i)
        S.add("rangefinder", site, kind="rangefinder", site="s%d" % i, body=i)
        for cam in ["c%d" % k for k in range(nb)] + ["cw"]:
            S.add("camprojection", 'site="s%d" camera="%s"' % (i, cam), kind="camprojection", site="s%d" % i, cam=cam)
    S.add("rangefinder", 'site="sw"', kind="rangefinder", site="sw", body=-1)
    if info["contact"]:
        S.add("touch", 'site="st0"', kind="touch", site="st0", body=0)
    # --- joints
    for i, t in enumerate(jts):
        j = 'joint="j%d"' % i
        if t in ("hinge", "slide"):
            for tag in ("jointpos", "jointvel", "jointactuatorfrc", "jointlimitpos", "jointlimitvel", "jointlimitfrc"):
                S.add(tag, j, kind=tag, jnt="j%d" % i)
        elif t == "ball":
            S.add("ballquat", j, cutoffs=(0.0,), kind="ballquat", jnt="j%d" % i)
            S.pruned += 1
            S.add("ballangvel", j, kind="ballangvel", jnt="j%d" % i)
    # --- tendons, actuators
    for t in info["tendons"]:
        for tag in ("tendonpos", "tendonvel", "tendonactuatorfrc", "tendonlimitpos", "tendonlimitvel", "tendonlimitfrc"):
            S.add(tag, 'tendon="%s"' % t, kind=tag, ten=t)
    for k, a in enumerate(info["acts"]):
        for tag in ("actuatorpos", "actuatorvel", "actuatorfrc"):
            S.add(tag, 'actuator="a%d"' % k, kind=tag, act=k)
    # --- subtrees, global
    for i in range(nb):
        for tag in ("subtreecom", "subtreelinvel", "subtreeangmom"):
            S.add(tag, 'body="b%d"' % i, kind=tag, body=i)
    S.add("e_potential", "", kind="e_potential")
    S.add("e_kinetic", "", kind="e_kinetic")
    S.add("clock", "", kind="clock")
    S.add("user", 'dim="2" needstage="vel" datatype="real"', cutoffs=(0.0,), kind="user", dim=2)
    # --- geometric relations
    for (ot, on) in objects(nb):
        for site in ("s0", "sw") + (("s1",) if nb > 1 else ()):
            if (ot, on) == ("site", site):
                continue
            S.add("insidesite", 'objtype="%s" objname="%s" site="%s"' % (ot, on, site), kind="insidesite", obj=(ot, on), site=site)
    pairs = [(("geom", "g0"), ("geom", "gw")), (("geom", "h0"), ("geom", "floor")), (("body", "b0"), ("geom", "gw"))]
    if nb > 1:
        pairs += [(("geom", "g0"), ("geom", "g1")), (("geom", "h1"), ("geom", "h0")), (("body", "b0"), ("body", "b1")),
                  (("geom", "g1"), ("body", "b0"))]
    if info["contact"]:
        crit = [dict(geom1="g0"), dict(geom2="g0"), dict(body1="b0"), dict(subtree1="b0"), dict(site="s0"), dict(),
                dict(geom1="floor", geom2="g0"), dict(geom1="g0", geom2="floor"), dict(site="s0", geom2="floor"), dict(body2="b0")]
        if nb > 1:
            crit += [dict(subtree1="b1"), dict(body1="b1", geom2="floor"), dict(subtree1="b0", subtree2="b0")]
        for c in crit:
            at = " ".join('%s="%s"' % kv for kv in c.items())
            for red in ("none", "mindist", "maxforce"):
                S.add("contact", at + ' num="3" data="found force torque dist pos normal tangent" reduce="%s"' % red, cutoffs=(0.0,),
                      kind="contact", crit=c, reduce=red, num=3)
    for (a, b) in pairs:
        at = '%s1="%s" %s2="%s"' % (a[0], a[1], b[0], b[1])
        for tag in ("distance", "normal", "fromto"):
            S.add(tag, at, cutoffs=(0.0, 0.4, 2.5), kind=tag, o1=a, o2=b)
    return S


def mjcf(world_body, opt, sections, sensors_xml):
    return A.mjcf(world_body, option_elem=opt, sections=sections + sensors_xml)
