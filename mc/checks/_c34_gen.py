"""C34 helpers: a model generator that contains K objects of EVERY nameable mjtObj type with caller-chosen
names, the dictionary the generator wrote (the oracle), and brute-force search of hash-collision names.

Nothing here reads names back from the compiled model: `expected[typekey]` is the list of names in id order
that follows from the MJCF that was emitted ("" = unnamed)."""
from __future__ import annotations

import ctypes
import itertools
import os
import re

from .. import build

# (key, size field, name address field, MJCF allows the element to be unnamed)
# listed in the order of the mjtObj enum (mjOBJ_XBODY aliases body; mjOBJ_DOF has no names)
TYPES = [
    ("body", "nbody", "name_bodyadr", True),
    ("joint", "njnt", "name_jntadr", True),
    ("geom", "ngeom", "name_geomadr", True),
    ("site", "nsite", "name_siteadr", True),
    ("camera", "ncam", "name_camadr", True),
    ("light", "nlight", "name_lightadr", True),
    ("flex", "nflex", "name_flexadr", True),
    ("mesh", "nmesh", "name_meshadr", False),
    ("skin", "nskin", "name_skinadr", True),
    ("hfield", "nhfield", "name_hfieldadr", False),
    ("texture", "ntex", "name_texadr", False),
    ("material", "nmat", "name_matadr", False),
    ("pair", "npair", "name_pairadr", True),
    ("exclude", "nexclude", "name_excludeadr", True),
    ("equality", "neq", "name_eqadr", True),
    ("tendon", "ntendon", "name_tendonadr", True),
    ("actuator", "nactuator", "name_actuatoradr", True),
    ("sensor", "nsensor", "name_sensoradr", True),
    ("numeric", "nnumeric", "name_numericadr", False),
    ("text", "ntext", "name_textadr", False),
    ("tuple", "ntuple", "name_tupleadr", False),
    ("key", "nkey", "name_keyadr", True),
    ("plugin", "nplugin", "name_pluginadr", False),
]
TYPE_KEYS = [t[0] for t in TYPES]
NEED_ANCHOR = {"flex", "pair", "exclude", "equality", "tendon", "actuator"}
UNNAMED_OK = {t[0]: t[3] for t in TYPES}

_ENUM_NAME = {"body": "BODY", "joint": "JOINT", "geom": "GEOM", "site": "SITE", "camera": "CAMERA", "light": "LIGHT",
              "flex": "FLEX", "mesh": "MESH", "skin": "SKIN", "hfield": "HFIELD", "texture": "TEXTURE",
              "material": "MATERIAL", "pair": "PAIR", "exclude": "EXCLUDE", "equality": "EQUALITY", "tendon": "TENDON",
              "actuator": "ACTUATOR", "sensor": "SENSOR", "numeric": "NUMERIC", "text": "TEXT", "tuple": "TUPLE",
              "key": "KEY", "plugin": "PLUGIN"}


def obj_enum():
    """mjtObj enumerators parsed from the tree's header: name -> value."""
    path = None
    for cand in ("include/mujoco/mjtype.h", "include/mujoco/mjmodel.h"):
        p = os.path.join(build.REPO, cand)
        if os.path.exists(p) and "typedef enum mjtObj" in open(p).read():
            path = p
            break
    txt = open(path).read()
    body = txt[txt.index("typedef enum mjtObj"):]
    body = body[:body.index("} mjtObj;")]
    out, val = {}, -1
    for line in body.splitlines()[1:]:
        line = line.split("//")[0].strip().rstrip(",")
        if not line:
            continue
        mm = re.match(r"^(mj\w+)\s*(?:=\s*(-?\d+))?$", line)
        if not mm:
            continue
        val = int(mm.group(2)) if mm.group(2) is not None else val + 1
        out[mm.group(1)] = val
    return out


def type_codes():
    """typekey -> mjtObj code, plus the full enum."""
    e = obj_enum()
    return {k: e["mjOBJ_" + _ENUM_NAME[k]] for k in TYPE_KEYS}, e


# ----------------------------------------------------------------------------------------------- hashing

def py_hash64(b: bytes) -> int:
    """djb2-xor as documented in engine_name.c (http://www.cse.yorku.ca/~oz/hash.html), plain char (signed) bytes."""
    h = 5381
    for c in b:
        if c >= 128:
            c -= 256
        h = (((h << 5) + h) ^ (c & 0xFFFFFFFFFFFFFFFF)) & 0xFFFFFFFFFFFFFFFF
    return h


class Hasher:
    """slot = hash(name) % T using the TREE's mj_hashString when the library exports it (falls back to py_hash64)."""

    def __init__(self, lib):
        self.fn = None
        try:
            fn = lib.c.mj_hashString
            fn.restype = ctypes.c_uint64
            fn.argtypes = [ctypes.c_char_p, ctypes.c_uint64]
            self.fn = fn
        except AttributeError:
            pass
        self.cache = {}

    def slot(self, name: bytes, T: int) -> int:
        k = (name, T)
        v = self.cache.get(k)
        if v is None:
            v = self.fn(name, T) if self.fn else py_hash64(name) % T
            self.cache[k] = v
        return v


def candidates():
    """deterministic stream of short lower-case strings: a..z, aa..zz, aaa.."""
    al = "abcdefghijklmnopqrstuvwxyz"
    for n in range(1, 5):
        for t in itertools.product(al, repeat=n):
            yield "".join(t)


_CAND = None


def colliders(hasher: Hasher, T: int, slot: int, count: int, prefix: str = "", avoid=()):
    """first `count` candidate strings prefix+s (not in avoid) with hash % T == slot.  djb2 with a modulus that shares a
    factor with 33 cannot reach every slot from every string family; if the requested slot has too few candidates the next
    lower slot is used (the cluster still crosses the end of the table when it is long enough)."""
    global _CAND
    if _CAND is None:
        _CAND = list(itertools.islice(candidates(), 26 + 676 + 17576))
    avoid = set(avoid)
    for k in range(T):
        want = (slot - k) % T
        out = []
        for s in _CAND:
            full = prefix + s
            if full in avoid:
                continue
            if hasher.slot(full.encode(), T) == want:
                out.append(full)
                if len(out) == count:
                    return out
    raise RuntimeError("not enough colliders for T=%d slot=%d" % (T, slot))


# ----------------------------------------------------------------------------------------------- MJCF

def esc(s: str) -> str:
    return (s.replace("&", "&amp;").replace("<", "&lt;").replace(">", "&gt;").replace('"', "&quot;")
            .replace("\t", "&#9;").replace("\n", "&#10;"))


def _nm(s: str) -> str:
    return ' name="%s"' % esc(s) if s != "" else ""


def extras(profile: int, ti: int) -> int:
    """filler objects appended to type number ti: three profiles such that any two types get different object counts in at
    least one profile (a swapped / skipped count in the table-offset arithmetic then moves a table)."""
    return (ti // (3 ** profile)) % 3


def counts(K: int, anchor: bool, profile: int = 0):
    """number of generator-named objects of each type (anchors and the world body come on top)."""
    n = {}
    for ti, k in enumerate(TYPE_KEYS):
        if k in NEED_ANCHOR and not anchor:
            n[k] = 0
        else:
            n[k] = K + extras(profile, ti)
    return n


def table_counts(K: int, anchor: bool, profile: int = 0):
    """number of objects of each type in the compiled model (decides the table size T = 2 n)."""
    n = counts(K, anchor, profile)
    n["body"] += 1 + (1 if anchor else 0)
    if anchor:
        n["joint"] += 1
        n["geom"] += 2
        n["site"] += 2
    return n


def build_model(names: dict, anchor: bool = True, modelname: str = "a", compiler: str = ""):
    """names[typekey] = list of names ("" = unnamed, only where MJCF allows), any length >= 0 (body >= 1).
    Returns (xml, expected) where expected[typekey] is the id-ordered name list of the compiled model."""
    g = lambda k: list(names.get(k, []))  # noqa: E731
    for k in TYPE_KEYS:
        if not UNNAMED_OK[k]:
            assert all(x != "" for x in g(k)), k
        if k in NEED_ANCHOR and not anchor:
            assert not g(k), k
    exp = {k: [] for k in TYPE_KEYS}
    x = ['<mujoco model="%s">' % esc(modelname)]
    if compiler:
        x.append("  <compiler %s/>" % compiler)
    if g("plugin"):
        x.append('  <extension><plugin plugin="mujoco.sdf.torus">')
        for s in g("plugin"):
            x.append("    <instance%s/>" % _nm(s))
            exp["plugin"].append(s)
        x.append("  </plugin></extension>")
    x.append("  <custom>")
    for i, s in enumerate(g("numeric")):
        x.append('    <numeric%s data="%d"/>' % (_nm(s), i))
        exp["numeric"].append(s)
    for i, s in enumerate(g("text")):
        x.append('    <text%s data="t%d"/>' % (_nm(s), i))
        exp["text"].append(s)
    for s in g("tuple"):
        x.append('    <tuple%s><element objtype="body" objname="world"/></tuple>' % _nm(s))
        exp["tuple"].append(s)
    x.append("  </custom>")
    x.append("  <asset>")
    for s in g("texture"):
        x.append('    <texture%s type="2d" builtin="flat" width="2" height="2"/>' % _nm(s))
        exp["texture"].append(s)
    for s in g("material"):
        x.append('    <material%s rgba="1 0 0 1"/>' % _nm(s))
        exp["material"].append(s)
    for s in g("mesh"):
        x.append('    <mesh%s vertex="0 0 0 .1 0 0 0 .1 0 0 0 .1"/>' % _nm(s))
        exp["mesh"].append(s)
    for s in g("hfield"):
        x.append('    <hfield%s nrow="2" ncol="2" size="1 1 1 1"/>' % _nm(s))
        exp["hfield"].append(s)
    x.append("  </asset>")
    x.append("  <worldbody>")
    exp["body"].append("world")
    bn = g("body")
    nb = len(bn)
    assert nb >= 1
    elems = {"joint": '<joint%s type="hinge"/>', "geom": '<geom%s size=".1" contype="0" conaffinity="0"/>',
             "site": "<site%s/>", "camera": "<camera%s/>", "light": "<light%s/>"}
    for i in range(nb):
        x.append('    <body%s pos="%d 0 0"><inertial pos="0 0 0" mass="1" diaginertia="1 1 1"/>' % (_nm(bn[i]), i))
        exp["body"].append(bn[i])
        for ek, fmt in elems.items():
            lst = g(ek)
            # element j lives in body min(j, nb-1): a monotone map, so ids follow the list order
            for j, s in enumerate(lst):
                if min(j, nb - 1) == i:
                    x.append("      " + fmt % _nm(s))
                    exp[ek].append(s)
        x.append("    </body>")
    if anchor:
        x.append('    <body name="REFB" pos="0 1 0"><joint name="REFJ" type="hinge"/>'
                 '<geom name="REFG1" size=".1"/><geom name="REFG2" size=".1" pos="1 0 0"/>'
                 '<site name="REFS1"/><site name="REFS2" pos="1 0 0"/></body>')
        exp["body"].append("REFB")
        exp["joint"].append("REFJ")
        exp["geom"] += ["REFG1", "REFG2"]
        exp["site"] += ["REFS1", "REFS2"]
    x.append("  </worldbody>")
    x.append("  <deformable>")
    if anchor:
        for s in g("flex"):
            x.append('    <flex%s dim="1" body="world REFB" vertex="0 0 0 0 0 0" element="0 1"/>' % _nm(s))
            exp["flex"].append(s)
    for s in g("skin"):
        x.append('    <skin%s vertex="0 0 0 1 0 0 0 1 0" face="0 1 2"><bone body="world" bindpos="0 0 0" '
                 'bindquat="1 0 0 0" vertid="0 1 2" vertweight="1 1 1"/></skin>' % _nm(s))
        exp["skin"].append(s)
    x.append("  </deformable>")
    if anchor:
        x.append("  <contact>")
        for s in g("pair"):
            x.append('    <pair%s geom1="REFG1" geom2="REFG2"/>' % _nm(s))
            exp["pair"].append(s)
        for s in g("exclude"):
            x.append('    <exclude%s body1="world" body2="REFB"/>' % _nm(s))
            exp["exclude"].append(s)
        x.append("  </contact>")
        x.append("  <equality>")
        for s in g("equality"):
            x.append('    <connect%s body1="REFB" anchor="0 0 0" active="false"/>' % _nm(s))
            exp["equality"].append(s)
        x.append("  </equality>")
        x.append("  <tendon>")
        for s in g("tendon"):
            x.append('    <fixed%s><joint joint="REFJ" coef="1"/></fixed>' % _nm(s))
            exp["tendon"].append(s)
        x.append("  </tendon>")
        x.append("  <actuator>")
        for s in g("actuator"):
            x.append('    <motor%s joint="REFJ"/>' % _nm(s))
            exp["actuator"].append(s)
        x.append("  </actuator>")
    x.append("  <sensor>")
    for s in g("sensor"):
        x.append("    <clock%s/>" % _nm(s))
        exp["sensor"].append(s)
    x.append("  </sensor>")
    x.append("  <keyframe>")
    for i, s in enumerate(g("key")):
        x.append('    <key%s time="%d"/>' % (_nm(s), i))
        exp["key"].append(s)
    x.append("  </keyframe>")
    x.append("</mujoco>")
    return "\n".join(x) + "\n", exp
