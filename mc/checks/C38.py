"""C38 The asset cache behaves as a bounded priority cache.

E2: ALL operation histories of the tree's real mjCCache (src/user/user_cache.{h,cc}) up to a depth bound over
65 operations (Insert 2 models x 3 ids x sizes {1,2,3} x timestamps {t0,t1}; PopulateData 3 ids x resource
{t0, t1, no provider} x callback {accepts, rejects}; HasAsset; RemoveModel; Reset(model); Reset(); SetCapacity
{0,3,5}; DeleteAsset), breadth-first with de-duplication on an exact packing of the cache's REAL internal state
(read through `#define private public` in the driver TU only), every transition compared with a dictionary
reference model (access counts, insertion numbers, model references) and with the structural invariants.

E3: src/user/user_cache.cc compiled UNMODIFIED under the controlled scheduler (vsched); 2 threads x <=2
operations each on colliding ids after a sequential prefix, all interleavings with <= 2 preemptions; every
complete history (all return values + final internal state) must equal SOME sequential order of the operations
that respects each thread's program order, executed on the reference model (brute-force linearizability).

Companion (not deciding): the same concurrent scenarios free-running on real threads in a TSan build.
"""
import json
import os
import subprocess

from .. import build, core

LEVEL = "model_checking"
META = dict(
    category=LEVEL,
    technique="explicit-state exploration of all operation histories of the real mjCCache up to a depth bound (BFS, exact "
              "de-duplication on the internal state) against a dictionary reference model + stateless model checking of the "
              "unmodified user_cache.cc under a controlled scheduler (preemption-bounded) with brute-force linearizability",
    text="Every history of <=6 (thorough 8) operations out of 65 over 2 models, 3 asset ids, sizes {1,2,3}, timestamps "
         "{t0,t1}, capacities {0,3,5} is executed on a fresh mjCCache; after the last operation of each history the return value, "
         "Size()/Capacity(), and for each id presence, timestamp, size, data identity, access count, model references, insertion "
         "rank and the eviction order are compared with the reference model, and the invariants Size()==sum of held sizes<=capacity, "
         "priority queue == lookup table ordered by (access count, insertion number), per-model index == references (no dangling "
         "pointers) are checked. Concurrent: all schedules with <=2 preemptions of 2 threads x <=2 operations (insert/update, "
         "lookup, capacity change, model removal, resets, deletion, size) on colliding ids; each execution must be linearizable.",
    note="The reference model is written from the statement and the comments of user_cache.h: a full cache REFUSES a new asset "
         "(Insert never evicts; eviction happens only in SetCapacity), which satisfies the statement literally; 'most recently "
         "inserted data' is read with the header's rule that data is replaced only when the timestamps disagree; an updated asset "
         "keeps the insertion number and access count of its first insertion (undocumented, taken from the code); re-insertion "
         "with an unchanged timestamp whose nominal size would not fit may be refused or accepted (undocumented; counted as "
         "'open'). De-duplication abstracts insertion numbers to their rank (the comparator only uses their order). The "
         "controlled scheduler switches threads only at mutex operations, so a missing lock is invisible to E3 and is left to "
         "the TSan companion (sampling). The pointer returned by HasAsset refers into the cache and is not dereferenced in "
         "concurrent scenarios.",
    design_ref="DESIGN.md §3 C38")

PREFIX = "I0020.I1110.P10a"   # id0: size 2, t0, model 0; id1: size 1, t0, model 1, accessed once; capacity 5, size 3
# concurrent operation alphabet on colliding ids (see the driver header for the notation)
CONC_ALL = ["I1031", "I0220", "P00a", "C3", "R0", "X1", "D0", "S", "Z", "H0", "P10a"]
TWO_BY_TWO = ["I1031.P00a|I0220.C3", "I1031.S|R0.I0220", "P00a.C3|D0.I0220", "I0220.R0|I1031.X1", "Z.I0220|P00a.S",
              "C3.I1031|P00a.P00a"]


def scenarios(thorough):
    """quick: the 6 hand-picked two-by-two scenarios + all unordered pairs of single operations; thorough adds all
    <a.b | c> over 4 operations and all unordered pairs of 2-operation scripts over 4 operations."""
    sc = ["%s|%s" % (PREFIX, s) for s in TWO_BY_TWO]
    for i, a in enumerate(CONC_ALL):
        for b in CONC_ALL[i:]:
            sc.append("%s|%s|%s" % (PREFIX, a, b))
    if thorough:
        four = ["I1031", "I0220", "P00a", "C3"]
        scripts = ["%s.%s" % (a, b) for a in four for b in four]
        for s1 in scripts:
            for c in four:
                sc.append("%s|%s|%s" % (PREFIX, s1, c))
        for i, s1 in enumerate(scripts):
            for s2 in scripts[i:]:
                sc.append("%s|%s|%s" % (PREFIX, s1, s2))
    out = []
    for s in sc:
        if s not in out:
            out.append(s)
    return out


def exe_seq():
    return build.ensure_exe("c38_cache", ["drivers/c38_cache.cc"])


def exe_sched():
    return build.ensure_exe("c38_cache_sched", ["drivers/c38_cache.cc"], extra=("-DC38_SCHED",),
                            sched=("src/user/user_cache.cc",), static=True)


def exe_tsan():
    return build.ensure_exe("c38_cache_tsan", ["drivers/c38_cache.cc"], variant="tsan", extra=("-DC38_TSAN",),
                            per_source={"src/user/user_cache.cc": ()}, link_lib=False)


def _e2(ctx, depth):
    x = exe_seq()
    r = subprocess.run([x, "bfs", str(depth), str(max(1, core.NCPU))], capture_output=True, text=True)
    if r.returncode not in (0, 1) or "STATS" not in r.stdout:
        ctx.violation("harness c38 bfs", "driver failed rc=%d: %s" % (r.returncode, r.stderr[-400:]), {"cmd": "c38_cache bfs %d" % depth})
        return
    for line in r.stdout.splitlines():
        f = line.split("\t")
        if f[0] == "FAIL":
            ctx.violation("cache: " + f[1], "history %s: %s" % (f[2], f[3]),
                          {"history": f[2], "cmd": "c38_cache replay %s" % f[2], "rule": f[1]})
        elif f[0] == "SAMPLE":
            if len(ctx.samples) < 4:
                ctx.samples.append({"history": f[1]})
        elif f[0] == "OUTCOME":
            ctx.outcomes.add("seq:" + f[1])
        elif line.startswith("PERDEPTH"):
            ctx.extra["e2_new_states_per_depth"] = [int(v) for v in line.split()[1:]]
        elif line.startswith("STATS"):
            kv = dict(p.split("=") for p in line.split()[1:])
            ctx.states += int(kv["states"])
            ctx.transitions += int(kv["transitions"])
            ctx.traces += int(kv["transitions"])
            ctx.evaluations += int(kv["transitions"])
            ctx.nontrivial_extra += int(kv["states"]) - 1
            ctx.extra["e2_states"] = int(kv["states"])
            ctx.extra["e2_histories_executed"] = int(kv["transitions"])
            ctx.extra["e2_state_changing_transitions"] = int(kv["changed"])
            ctx.extra["e2_open_same_timestamp_oversize_reinsertions"] = int(kv["open"])
            ctx.extra["e2_operations"] = int(kv["ops"])
            if int(kv["capped"]):
                ctx.exhaustive = False
    ctx.extra["e2_depth"] = depth


def _e3_chunk(chunk):
    part = core.Part()
    for x, bound, cap, shard, nshards, sc in chunk:
        r = subprocess.run([x, "explore", str(bound), str(cap), str(shard), str(nshards), sc], capture_output=True, text=True)
        line = [ln for ln in r.stdout.splitlines() if ln.startswith("SCENARIO\t")]
        if r.returncode not in (0, 1) or not line:
            part.violation("harness c38 explore %s" % sc, "driver failed rc=%d: %s" % (r.returncode, r.stderr[-400:]), {"scenario": sc})
            continue
        res = json.loads(line[0].split("\t")[2])
        part["evaluations"] += res["executions"]
        part["traces"] += res["executions"]
        part["states"] += res["distinct_prefixes"]
        part["transitions"] += res["points"]
        for o in res["outcome_samples"]:
            part["outcomes"].add("%s:%s" % (sc, o))
            part["nontrivial"].add("%s:%s" % (sc, o))
        part.add("e3_executions", res["executions"])
        part.add("e3_distinct_outcomes_sum", res["distinct_outcomes"])
        if res["capped"] or res["completed_bound"] < bound:
            part["capped"] = True
        if res["failures"]:
            what = res["first_failure"]
            part.violation(what.split(";")[0].replace("fail: ", "").replace("deadlock: ", "cache (concurrent): deadlock ")[:160],
                           "scenario %s schedule %s: %s" % (sc, res["first_failure_schedule"], what[:1500]),
                           {"scenario": sc, "schedule": res["first_failure_schedule"],
                            "cmd": "c38_cache_sched replaysched '%s' %s" % (sc, res["first_failure_schedule"])})
        if res["schedule_samples"] and len(part["samples"]) < 1:
            part["samples"].append({"scenario": sc, "schedule": res["schedule_samples"][-1][:120],
                                    "outcome": (res["outcome_samples"] or [""])[-1][:160]})
    return part


BOUND = 2                 # preemption bound
CAP = (4000, 20000)       # executions per (scenario, shard): quick, thorough


def _e3(ctx):
    x = exe_sched()
    scs = scenarios(ctx.thorough)
    cap = ctx.q(*CAP)
    nsh = 2
    jobs = [(x, BOUND, cap, sh, nsh, sc) for sc in scs for sh in range(nsh)]
    core.pmap(ctx, _e3_chunk, jobs, nchunks=min(len(jobs), core.NCPU * 8))
    per_sc = {}
    for o in ctx.outcomes:
        if not o.startswith("seq:"):
            per_sc.setdefault(o.split(":", 1)[0], set()).add(o)
    ctx.extra["e3_order_sensitive_scenarios"] = sum(1 for v in per_sc.values() if len(v) > 1)
    ctx.extra["preemption_bound"] = BOUND
    ctx.extra["e3_scenario_count"] = len(scs)


def _tsan(ctx, scs):
    """Companion pass: free-running threads in the TSan build (sampling; reported separately)."""
    try:
        x = exe_tsan()
    except SystemExit:
        ctx.extra["tsan_companion"] = "build failed"
        return
    env = dict(os.environ, TSAN_OPTIONS="halt_on_error=0:exitcode=66:report_signal_unsafe=0")
    reps = ctx.q(3, 20)     # thread creation is slow under TSan in this sandbox
    r = subprocess.run([x, "free", str(reps)] + scs, capture_output=True, text=True, env=env)
    reports = r.stderr.count("WARNING: ThreadSanitizer")
    runs = bad = 0
    for line in r.stdout.splitlines():
        if line.startswith("FREESTATS"):
            runs, bad = int(line.split()[1]), int(line.split()[2])
        elif line.startswith("FREEFAIL"):
            f = line.split("\t")
            ctx.violation("cache: %s" % f[2], "free-running threads, scenario %s: %s" % (f[1], f[2]), {"scenario": f[1]})
    if reports:
        ctx.violation("tsan: data race in mjCCache", "ThreadSanitizer report (free-running scenarios):\n%s" % r.stderr[:2000],
                      {"cmd": "c38_cache_tsan free %d <scenarios>" % reps})
    if r.returncode not in (0, 66) and not runs:
        ctx.extra["tsan_companion"] = "run failed rc=%d" % r.returncode
    ctx.extra["tsan_companion_runs"] = runs
    ctx.extra["tsan_companion_reports"] = reports
    ctx.extra["tsan_companion_nonlinearizable"] = bad


def run(ctx):
    depth = ctx.q(6, 8)
    phases = os.environ.get("VERIF_C38_PHASES", "e2,e3,tsan").split(",")   # debugging aid; a skipped phase is recorded
    if phases != ["e2", "e3", "tsan"]:
        ctx.exhaustive = False
        ctx.extra["phases_run"] = phases
    if "e2" in phases:
        _e2(ctx, depth)
    if "e3" in phases:
        _e3(ctx)
    if "tsan" in phases:
        _tsan(ctx, scenarios(ctx.thorough))
    scs = scenarios(ctx.thorough)
    bound = BOUND
    cap = ctx.q(*CAP)
    ctx.rule = ("E2: BFS over all histories of <=%d operations out of 65 (I<model><id><size><ts>, P<id><resource><callback>, H<id>, "
                "R<model>, X<model>, Z, C<0|3|5>, D<id>) on a fresh mjCCache(5) per history, de-duplicated on the exact internal state "
                "(capacity; per id presence, timestamp, size, references, insertion rank, access count); E3: prefix %s then two threads "
                "running the scripts of each of %d scenarios (%s), all "
                "schedules with <=%d preemptions, linearizability by brute force over all program-order-respecting sequential orders on "
                "the reference model. states = E2 distinct internal states + E3 distinct schedule prefixes; transitions = E2 operations "
                "judged (one replayed history each) + E3 scheduling decisions; distinct_nontrivial = E2 distinct non-initial states + "
                "E3 distinct (scenario, outcome) pairs among the <=3 outcome samples kept per shard" %
                (depth, PREFIX, len(scs),
                 "the 6 two-by-two scenarios %s, all 66 unordered pairs of single operations out of %s%s" %
                 (TWO_BY_TWO, CONC_ALL, ", all scenarios <a.b | c> (64) and all unordered pairs of 2-operation scripts (136) over "
                                        "{I1031,I0220,P00a,C3}" if ctx.thorough else ""), bound))
    ctx.assumptions = ["sequentially consistent, mutex-granular scheduling (threads switch only at lock/unlock of the cache mutex)",
                       "cap %d executions per scenario (reported if hit)" % cap,
                       "insertion numbers are abstracted to ranks in the de-duplication key",
                       "plain data races are covered only by the TSan companion (sampling)"]


def replay(ctx, path):
    """./check C38 --replay <file>: re-run one recorded history (E2) or schedule (E3), printing the trace."""
    rec = json.load(open(path))["replay"]
    if "history" in rec:
        r = subprocess.run([exe_seq(), "replay", rec["history"]], capture_output=True, text=True)
    else:
        r = subprocess.run([exe_sched(), "replaysched", rec["scenario"], rec.get("schedule", "")], capture_output=True, text=True)
    print(r.stdout)
    return 1 if r.returncode == 1 else (0 if r.returncode == 0 else 2)
