"""C37 document generators: minimal corpus per schema edge, single / pair deviations, truncations,
schema-derived conforming / violating documents with their expected verdict."""
from __future__ import annotations

import itertools
import os
import re

from .. import build, mj
from . import _c32_gen as G

HOSTILE = [
    ("empty", ""), ("space", " "), ("nan", "nan"), ("inf", "-inf"), ("1e999", "1e999"), ("-1", "-1"), ("0", "0"), ("x", "x"),
    ("300digits", "9" * 300), ("20numbers", " ".join(str(i) for i in range(1, 21))), ("one", "1"),
    ("intmax", "2147483647"), ("intmin-1", "-2147483649"), ("format", "%s%s%s%s%s%s%s%s%s%s%n"), ("1e", "1e"),
    ("501numbers", " ".join(["1"] * 501)), ("denormal", "1e-320"), ("tabnl", "\t\n"),
]
HUGE = {"intmax", "300digits", "1e999", "501numbers"}     # may legitimately ask for unbounded resources
HOSTILE_QUICK = ["empty", "nan", "-1", "x", "20numbers", "intmax", "format", "501numbers"]


def loads(lib, xml, vfs):
    try:
        m = lib.load_xml(xml, vfs)
        m.free()
        return True
    except mj.MjError:
        return False


def minimize(lib, vfs, doc, target):
    """Greedy top-down deletion of nodes that are neither the target nor its ancestors, keeping the document loadable."""
    keep = set()
    for n, p, i in doc.walk():
        pass
    # ancestors of target
    anc = []

    def find(n, path):
        if n is target:
            anc.extend(path + [n])
            return True
        for c in n.kids:
            if find(c, path + [n]):
                return True
        return False
    find(doc, [])
    keep = set(id(x) for x in anc)

    def descend(node):
        for c in list(node.kids):
            if id(c) in keep:
                continue
            idx = node.kids.index(c)
            node.kids.pop(idx)
            if not loads(lib, doc.xml(), vfs):
                node.kids.insert(idx, c)
        for c in list(node.kids):
            if c is not target:
                descend(c)
    descend(doc)
    return doc


def path_of(doc, node):
    def find(n, path):
        if n is node:
            return path
        for i, c in enumerate(n.kids):
            r = find(c, path + [i])
            if r is not None:
                return r
        return None
    return find(doc, [])


def node_at(doc, path):
    n = doc
    for i in path:
        n = n.kids[i]
    return n


def corpus_item(lib, vfs, edge):
    """Minimal valid document for one schema edge -> dict(name, xml, path of target) or None."""
    parent, child, ctx = edge
    r = G.scaffold(parent, child, ctx)
    if r is None:
        return None
    doc, t, par = r
    if not loads(lib, doc.xml(), vfs):
        return None
    minimize(lib, vfs, doc, t)
    return dict(name="%s/%s[%s]" % edge, xml=doc.xml(), path=path_of(doc, t), child=child, parent=parent, ctx=ctx)


def urdf_corpus():
    """URDF documents shipped in the tree (string literals of test/xml/xml_urdf_test.cc)."""
    p = os.path.join(build.REPO, "test", "xml", "xml_urdf_test.cc")
    out = []
    if os.path.exists(p):
        src = open(p).read()
        for m in re.finditer(r'R"\((.*?)\)"', src, re.S):
            txt = m.group(1).strip()
            if "<robot" in txt and len(txt) < 3000 and txt not in out:
                out.append(txt)
    return out


def shipped_small(limit_bytes=2000, nmax=40):
    import glob
    fs = sorted(glob.glob(os.path.join(build.REPO, "model", "**", "*.xml"), recursive=True) +
                glob.glob(os.path.join(build.REPO, "test", "**", "*.xml"), recursive=True))
    out = []
    for f in fs:
        if os.path.getsize(f) <= limit_bytes:
            t = open(f, errors="replace").read()
            if "<include" in t or "file=" in t or "memory=" in t or re.search(r'(width|height|nrow|ncol)="\d{3,}"', t):
                continue      # no external files; no large arenas / textures (seconds per document under ASan)
            out.append((os.path.relpath(f, build.REPO), t))
    return out[:nmax]


# ------------------------------------------------------------------ deviations


def attr_deviations(doc, path, schema_attrs, hostile, all_nodes=True):
    """Single deviations at attributes: for the target element every schema attribute (present or not) x hostile
    values; delete / duplicate every present attribute of every element; hostile values on the present
    attributes of the other elements."""
    hv = [(k, v) for k, v in HOSTILE if k in hostile]
    tgt = node_at(doc, path)
    base = doc
    # target: every schema attribute
    for a in schema_attrs:
        for hk, v in hv:
            d = base.clone()
            node_at(d, path).set(a, v)
            yield ("attr-hostile", "%s=%s" % (a, hk), hk, d.xml())
    for n, p, i in list(base.walk()):
        pth = path_of(base, n)
        for k, v in n.attrs:
            d = base.clone()
            node_at(d, pth).delete(k)
            yield ("attr-delete", "%s.%s" % (n.tag, k), None, d.xml())
            d = base.clone()
            node_at(d, pth).attrs.append((k, v))
            yield ("attr-duplicate", "%s.%s" % (n.tag, k), None, d.xml())
            if n is not tgt and all_nodes:
                for hk, hvv in hv:
                    d = base.clone()
                    node_at(d, pth).set(k, hvv)
                    yield ("attr-hostile", "%s.%s=%s" % (n.tag, k, hk), hk, d.xml())


def elem_deviations(doc, path, rename_tags, reparent=True, only=None):
    """only=path: rename / re-parent only the target element and its parent (delete/duplicate still at every element)."""
    base = doc
    nodes = [(n, path_of(base, n)) for n in base.nodes()]
    for n, pth in nodes:
        focus = only is None or pth == list(only) or pth == list(only)[:-1]
        if not pth:
            # root: rename only
            for t in rename_tags:
                if t != n.tag:
                    d = base.clone()
                    d.tag = t
                    yield ("elem-rename", "%s->%s" % (n.tag, t), None, d.xml())
            continue
        d = base.clone()
        par = node_at(d, pth[:-1])
        par.kids.pop(pth[-1])
        yield ("elem-delete", n.tag, None, d.xml())
        d = base.clone()
        par = node_at(d, pth[:-1])
        par.kids.insert(pth[-1], par.kids[pth[-1]].clone())
        yield ("elem-duplicate", n.tag, None, d.xml())
        for t in rename_tags:
            if t != n.tag and focus:
                d = base.clone()
                node_at(d, pth).tag = t
                yield ("elem-rename", "%s->%s" % (n.tag, t), None, d.xml())
        if reparent and (only is None or pth == list(only)):
            for m, mp in nodes:
                if m is n or mp[:len(pth)] == pth or mp == pth[:-1]:
                    continue      # not under itself, not its current parent
                d = base.clone()
                moved = node_at(d, pth)
                node_at(d, pth[:-1]).kids.pop(pth[-1])
                # recompute destination (indices may shift when the removed node precedes it)
                dest = d
                q = list(mp)
                if len(q) >= len(pth) and q[:len(pth) - 1] == pth[:-1] and q[len(pth) - 1] > pth[-1]:
                    q[len(pth) - 1] -= 1
                dest = node_at(d, q)
                dest.kids.append(moved)
                yield ("elem-reparent", "%s under %s" % (n.tag, m.tag), None, d.xml())


def truncations(xml):
    b = xml
    for k in range(len(b)):
        yield ("truncate", "at %d" % k, None, b[:k])


# ------------------------------------------------------------------ schema-derived documents

SCHEMA_MSG = re.compile(r"Schema violation|unrecognized attribute|unrecognized element|invalid keyword|problem reading attribute|"
                        r"bad format in attribute|has too much data|does not have enough data|number is too large in attribute|"
                        r"required attribute missing|must have exactly|may have at most|duplicate keyword|unrecognized model element")


def satisfies(kind, bundles, present):
    comp = [all(a in present for a in b) for b in bundles]
    anyp = [any(a in present for a in b) for b in bundles]
    if kind == "exclusive":
        return sum(anyp) <= 1
    if kind == "variant":
        return sum(anyp) <= 1
    if kind == "together":
        names = [a for b in bundles for a in b]
        n = sum(a in present for a in names)
        return n == 0 or n == len(names)
    if kind == "requires":
        return (bundles[0][0] not in present) or (bundles[1][0] in present)
    if kind == "oneof":
        return any(comp)
    raise ValueError(kind)


def constraint_docs(item):
    """All presence subsets of the attributes of each constraint of the target element.  Yields
    (desc, xml, expected) with expected 'reject' if some constraint of the element is violated by the
    resulting attribute set, else 'noschema' (must not be rejected for a schema reason)."""
    child = item["child"]
    cons = G.constraints_of(child)
    if item["ctx"] == "default":
        pa = {a.name for a in G.projected_attrs(child)}
        cons = [(k, b) for k, b in cons if all(n in pa for bb in b for n in bb)]
        attrs = {a.name: a for a in G.projected_attrs(child)}
    else:
        attrs = {a.name: a for a in G.attrs_of(child)}
    base = G.parse(item["xml"])
    for kind, bundles in cons:
        names = [a for b in bundles for a in b]
        if len(names) > 7:
            continue
        for mask in range(1 << len(names)):
            want = {n for i, n in enumerate(names) if mask >> i & 1}
            d = base.clone()
            t = node_at(d, item["path"])
            for n in names:
                if n in want:
                    if t.get(n) is None:
                        t.set(n, G.default_value(child, attrs[n]))
                else:
                    t.delete(n)
            present = {a for a, _ in t.attrs}
            ok = all(satisfies(k, b, present) for k, b in cons)
            req_ok = all((not a.facets.get("required")) or a.name in present for a in attrs.values())
            yield ("constraint %s %s present=%s" % (kind, "|".join("+".join(b) for b in bundles), sorted(want)), d.xml(),
                   "noschema" if (ok and req_ok) else "reject")
    # required facet: delete each required attribute
    for a in attrs.values():
        if a.facets.get("required") and item["ctx"] != "default":
            d = base.clone()
            t = node_at(d, item["path"])
            if t.get(a.name) is not None:
                t.delete(a.name)
                yield ("required %s absent" % a.name, d.xml(), "reject")


def cardinality_docs(item, card):
    """0 / 1 / 2 occurrences of the target element under its parent."""
    base = G.parse(item["xml"])
    pth = item["path"]
    if not pth:
        return
    for n in (0, 2):
        d = base.clone()
        par = node_at(d, pth[:-1])
        if n == 0:
            par.kids.pop(pth[-1])
            exp = "reject" if card == "!" else "noschema"
        else:
            par.kids.insert(pth[-1], par.kids[pth[-1]].clone())
            exp = "reject" if card in ("!", "?") else "noschema"
        yield ("cardinality %s x%d" % (card, n), d.xml(), exp)


def typed_docs(item):
    for desc, xml, exp in _typed_docs(item):
        if xml is not None:
            yield desc, xml, exp


def _typed_docs(item):
    """For every attribute of the target: every enum keyword + a non-keyword; a right-typed value and
    wrong type / arity values."""
    S, sc = G.schema()
    child = item["child"]
    attrs = G.projected_attrs(child) if item["ctx"] == "default" else G.attrs_of(child)
    base = G.parse(item["xml"])

    cons = G.constraints_of(child)
    if item["ctx"] == "default":
        pa = {a.name for a in attrs}
        cons = [(k, b) for k, b in cons if all(n in pa for bb in b for n in bb)]

    def doc_with(name, value):
        """the document with attribute `name` set; attributes of the base document that would now violate a presence
        constraint together with `name` (other bundles of an exclusive / variant group) are removed, and the partners a
        `together` / `requires` constraint demands are added, so that only the value under test decides the verdict."""
        d = base.clone()
        t = node_at(d, item["path"])
        t.set(name, value)
        amap = {a.name: a for a in attrs}
        for kind, bundles in cons:
            mine = [b for b in bundles if name in b]
            if not mine:
                continue
            if kind in ("exclusive", "variant"):
                for b in bundles:
                    if name not in b:
                        for n in b:
                            t.delete(n)
            elif kind == "together":
                for b in bundles:
                    for n in b:
                        if t.get(n) is None and n in amap:
                            t.set(n, G.default_value(child, amap[n]))
            elif kind == "requires" and bundles[0][0] == name:
                n = bundles[1][0]
                if t.get(n) is None and n in amap:
                    t.set(n, G.default_value(child, amap[n]))
        present = {a for a, _ in t.attrs}
        if not all(satisfies(k, b, present) for k, b in cons):
            return None
        return d.xml()
    for a in attrs:
        lo, hi = G.arity(a)
        t = a.type
        if t == "enum":
            for kw in sc.enums[a.target].keywords():
                yield ("enum %s=%s" % (a.name, kw), doc_with(a.name, kw), "noschema")
            yield ("enum %s=notakeyword" % a.name, doc_with(a.name, "notakeyword"), "reject")
        elif t == "flags":
            kws = sc.enums[a.target].keywords()
            for kw in kws:
                yield ("flags %s=%s" % (a.name, kw), doc_with(a.name, kw), "noschema")
            yield ("flags %s=notakeyword" % a.name, doc_with(a.name, "notakeyword"), "reject")
        elif t == "bool":
            for kw in ("true", "false"):
                yield ("bool %s=%s" % (a.name, kw), doc_with(a.name, kw), "noschema")
            for bad in ("1", "True", "yes"):
                yield ("bool %s=%s" % (a.name, bad), doc_with(a.name, bad), "reject")
        elif t in ("double", "float", "int"):
            one = "1" if t == "int" else "0.5"
            n_ok = hi if hi is not None else 3
            yield ("%s[%s..%s] %s right type" % (t, lo, hi, a.name), doc_with(a.name, " ".join([one] * max(n_ok, 1))), "noschema")
            if lo >= 1 and lo != hi:
                yield ("%s %s min arity" % (t, a.name), doc_with(a.name, " ".join([one] * lo)), "noschema")
            yield ("%s %s=word" % (t, a.name), doc_with(a.name, "abc"), "reject")
            yield ("%s %s=mixed" % (t, a.name), doc_with(a.name, one + " abc"), "reject")
            if t == "int":
                yield ("int %s=1.5" % a.name, doc_with(a.name, "1.5"), "reject")
            if hi is not None:
                yield ("%s %s too many (%d)" % (t, a.name, hi + 1), doc_with(a.name, " ".join([one] * (hi + 1))), "reject")
            if lo >= 2:
                yield ("%s %s too few (%d)" % (t, a.name, lo - 1), doc_with(a.name, " ".join([one] * (lo - 1))), "reject")
        elif t == "chars":
            yield ("chars %s too long" % a.name, doc_with(a.name, "x" * (hi + 1)), "reject")
        # unknown attribute on the element
    yield ("unknown attribute", doc_with("notanattribute", "1"), "reject")


# ------------------------------------------------------------------ sanitizer library for C37

C37_EXTRA = ("-fno-sanitize=nonnull-attribute,pointer-overflow",)


def ensure_asan_lib():
    """The tree library built like build.ensure('asan') plus -fno-sanitize=nonnull-attribute: UBSan's nonnull-attribute
    check fires on *valid* models (memset/memcpy(NULL, ., 0) in mju_zero <- mj_transmission, mj_resetData with
    nplugin state 0) and -fno-sanitize-recover would end every process there; everything else of ASan/UBSan stays on."""
    import subprocess
    import sys
    from .. import gen_wrappers
    with build._lock:
        srcs = build.lib_sources()
        wcc, _ = gen_wrappers.ensure()
        srcs = srcs + [os.path.join(build.NATIVE, "support.cc"), wcc]
        objs = build.compile_many(srcs, "asan", C37_EXTRA)
        key = build._sha("asan-c37", *objs)
        outdir = os.path.join(build.CACHE, "lib", "asan-c37", key)
        out = os.path.join(outdir, "libmujoco_verif.so")
        if os.path.exists(out):
            return out
        os.makedirs(outdir, exist_ok=True)
        tmp = out + ".%d.tmp" % os.getpid()
        cmd = [build.CXX, "-shared", "-Wl,-Bsymbolic", "-o", tmp] + objs + build._link_flags("asan")
        r = subprocess.run(cmd, capture_output=True, text=True)
        if r.returncode != 0:
            sys.stderr.write("LINK ERROR\n%s\n" % r.stderr[-4000:])
            raise SystemExit(2)
        os.replace(tmp, out)
        return out
