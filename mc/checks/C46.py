"""C46 Bounded least squares respects bounds and never gets worse.

Exhaustive lattice: residual family x bounds x x_scale x start points (all
decimal values chosen so that ``x + (b - x)`` does not round to ``b``) through
the tree's ``python/mujoco/minimize.py: least_squares``.

Oracle per run
  * an instrumented residual records every column it is asked to evaluate and
    each is compared *exactly* with the bounds;
  * the returned point is inside the bounds (exact);
  * objective(returned x) <= objective(clip(x0)) (exact; the same arithmetic
    as minimize.Quadratic.value on a fresh evaluation);
  * the trace starts at clip(x0), ends at the returned x, reports the true
    objective of each candidate and is non-increasing (exact);
  * for linear residuals the bounded global minimum is computed by enumerating
    all 3^n active sets (fixed-at-lower / fixed-at-upper / free, free part by
    lstsq, infeasible combinations dropped) and the objective gap is compared
    with a fixed tolerance.
"""
from __future__ import annotations

import importlib
import io
import itertools
import math
import sys

import numpy as np

from .. import build, core

LEVEL = "exploration"
META = dict(
    category=LEVEL,
    technique="exhaustive enumeration of a finite lattice (residual family x bounds x x_scale x start points) through "
              "least_squares with an instrumented residual; exact bound comparison; active-set enumeration as reference "
              "optimiser for linear residuals",
    text="Every combination of 27 (thorough 46) residual functions (linear Ax-b incl. rank-deficient / zero-column / "
         "over-determined, separable quadratic, Rosenbrock-like), 6 (8) boxes (wide, shifted, tight 1e-6, one-sided 1e6), "
         "6 (8) x_scale settings (None, scalars, vectors, 'jac') and every start point of a per-axis decimal grid "
         "(inside, on each bound, outside) is run through the tree's least_squares. Each argument the residual ever "
         "receives is compared exactly with the bounds, the returned point and the trace are checked exactly, and for "
         "linear residuals the result is compared with the brute-force bounded optimum. Exhaustive within the stated "
         "lattice; the bound violations the property is about are rounding events at specific (x, bound) pairs, which "
         "a dense decimal lattice reaches and random floats practically never do.",
    note="Trusted base: the wheel's mujoco.mju_boxQP binding (3.13.0) that minimize.py calls, numpy. minimize.py itself "
         "is imported from the tree (asserted by __file__). Bounds are at least 64 finite-difference steps wide; "
         "analytic-jacobian / custom-norm paths are exercised only through one analytic-jacobian variant per family.",
    design_ref="DESIGN.md §3 C46")

KEY_STEP = "least_squares: residual evaluated outside bounds (unclipped candidate step)"
KEY_STEP_GROSS = "least_squares: candidate step leaves the bounds by more than rounding"
KEY_INIT = "least_squares: initial point evaluated outside bounds"
KEY_FD = "jacobian_fd: finite-difference point outside bounds"
KEY_RET = "least_squares: returned x outside bounds"
KEY_WORSE = "least_squares: objective at returned x larger than at clip(x0)"
KEY_TRACE_MONO = "least_squares: trace objective increases"
KEY_TRACE_START = "least_squares: trace does not start at clip(x0)"
KEY_TRACE_END = "least_squares: last trace candidate is not the returned x"
KEY_TRACE_OBJ = "least_squares: trace objective is not the objective of its candidate"
KEY_GLOBAL = "least_squares: linear residual does not reach the bounded global minimum"
KEY_EXC = "least_squares: unexpected exception"

# objective gap tolerated for linear residuals, see gap_tolerance()
GAP_ATOL = 1e-12
GAP_RTOL = 1e-12
GAP_K = 100.0
GTOL = 1e-8     # least_squares default gtol
XTOL = 1e-8     # least_squares default xtol
ULP_ROUNDING = 16   # an excursion of at most this many ulp of max(|x|,|bound|) is "rounding size"


# ------------------------------------------------------------------ tree import
def tree_minimize():
    import mujoco
    p = build.REPO + "/python/mujoco"
    if p not in mujoco.__path__:
        mujoco.__path__.insert(0, p)
    m = sys.modules.get("mujoco.minimize")
    if m is not None and not str(getattr(m, "__file__", "")).startswith(build.REPO + "/"):
        del sys.modules["mujoco.minimize"]
        if hasattr(mujoco, "minimize"):
            delattr(mujoco, "minimize")
    mz = importlib.import_module("mujoco.minimize")
    assert mz.__file__.startswith(build.REPO + "/"), "minimize imported from %s, not the tree" % mz.__file__
    return mz


# ------------------------------------------------------------------ the lattice
LIN_A = {
    "I2": [[1.0, 0.0], [0.0, 1.0]],
    "cor": [[1.0, 2.0], [3.0, 4.0]],
    "tall": [[1.0, 0.0], [0.0, 1.0], [1.0, 1.0]],
    "tall2": [[2.0, -1.0], [1.0, 3.0], [-1.0, 1.0]],
    "rank1": [[1.0, 1.0], [1.0, 1.0]],
    "rank1tall": [[1.0, 2.0], [2.0, 4.0], [-1.0, -2.0]],
    "zerocol": [[1.0, 0.0], [2.0, 0.0]],
}
LIN_A_THOROUGH = {
    "wide": [[1.0, -1.0]],
    "scaled": [[100.0, 0.0], [0.0, 0.01]],
    "I3": [[1.0, 0.0, 0.0], [0.0, 1.0, 0.0], [0.0, 0.0, 1.0]],
    "tall3": [[1.0, 0.0, 0.0], [0.0, 1.0, 0.0], [0.0, 0.0, 1.0], [1.0, 1.0, 1.0]],
    "rank2_3": [[1.0, 1.0, 0.0], [0.0, 1.0, 1.0], [1.0, 2.0, 1.0]],
}
LIN_T = [(-1.0, -1.0, -1.0), (0.25, 2.0, 0.1), (0.1, 0.2, 0.3)]
LIN_E = (0.1, -0.2, 0.3, -0.1)

QUAD = [((0.1, 0.2), (0.0, 0.0)), ((-1.0, 2.0), (0.0, 0.0)), ((0.2, 0.1), (0.25, 0.25)), ((0.6, -0.5), (0.25, 0.0))]
ROSEN = [1.0, 10.0]

# (lower, upper) per axis, axis 2 only used by the n=3 families
BOUNDS = {
    "wide": ((-0.3, -0.3, -0.3), (0.5, 0.5, 0.5)),
    "shift": ((-0.7, 0.1, -0.1), (0.3, 1.1, 0.7)),
    "tight": ((0.1, -0.3, 0.7), (0.1 + 1e-6, -0.3 + 1e-6, 0.7 + 1e-6)),
    "onesided_up": ((-0.3, -0.7, 0.1), (1e6, 1e6, 1e6)),
    "onesided_mixed": ((-1e6, 0.2, -1e6), (0.6, 1e6, 0.3)),
    "thin_axis": ((-0.3, 0.2, -0.1), (0.7, 0.2 + 1e-6, 0.9)),
}
BOUNDS_THOROUGH = {
    "wide2": ((-1.1, -0.9, -0.6), (1.3, 0.7, 1.9)),
    "tight7": ((0.3, 0.7, -0.1), (0.3 + 1e-7, 0.7 + 1e-7, -0.1 + 1e-7)),
}
SCALES = [None, 1.0, 0.5, (0.1, 10.0, 3.0), (3.0, 0.7, 0.3), "jac"]
SCALES_THOROUGH = [1e-3, (1e3, 1e-3, 1.0)]
GRID_QUICK = (-0.7, -0.3, 0.1, 0.2, 0.5, 1.1)
GRID_THOROUGH = (-1.3, -0.7, -0.3, -0.1, 0.0, 0.1, 0.2, 0.3, 0.5, 0.7, 1.1, 2.3)


# smallest members of the lattice, tried first (identity A, b=(-1,-1), box [-0.3,0.5]^2, no scaling)
WITNESSES = [(("lin", "I2", 0), "wide", None, (0.1, 0.2)),
             (("lin", "I2", 0), "wide", None, (0.1, 0.1)),
             (("lin", "I2", 0), "wide", None, (0.5, 0.5))]


def families(thorough):
    fams = []
    amenu = dict(LIN_A)
    if thorough:
        amenu.update(LIN_A_THOROUGH)
    for an in amenu:
        for ti in range(len(LIN_T)):
            fams.append(("lin", an, ti))
    for qi in range(len(QUAD)):
        fams.append(("quad", qi, 0))
    for k in ROSEN:
        fams.append(("rosen", k, 0))
    if thorough:
        fams.append(("rosen", 100.0, 0))
        # analytic-jacobian variants (jacobian= argument instead of finite differences)
        fams += [("lin", "cor", 1, "ajac"), ("lin", "rank1", 0, "ajac"), ("rosen", 10.0, 0, "ajac")]
    return fams, amenu


def make_family(fam, amenu):
    """-> (n, residual(x: (n,k)) -> (m,k), jacobian(x (n,1)) -> (m,n) or None, A, b)"""
    kind = fam[0]
    if kind == "lin":
        A = np.array(amenu[fam[1]], dtype=np.float64)
        m, n = A.shape
        t = np.array(LIN_T[fam[2]][:n]).reshape(n, 1)
        b = A @ t + np.array(LIN_E[:m]).reshape(m, 1) * (1.0 if m > n else 0.0)

        def res(x):
            return A @ x - b

        def jac(x):
            return A.copy()
        return n, res, jac, A, b
    if kind == "quad":
        c = np.array(QUAD[fam[1]][0]).reshape(2, 1)
        d = np.array(QUAD[fam[1]][1]).reshape(2, 1)

        def res(x):
            return (x - c) ** 2 - d

        def jac(x):
            return np.diag((2.0 * (x - c)).flatten())
        return 2, res, jac, None, None
    if kind == "rosen":
        k = float(fam[1])

        def res(x):
            return np.stack([1.0 - x[0, :], k * (x[1, :] - x[0, :] ** 2)])

        def jac(x):
            return np.array([[-1.0, 0.0], [-2.0 * k * x[0, 0], k]])
        return 2, res, jac, None, None
    raise ValueError(fam)


def start_points(n, lo, hi, grid):
    axes = []
    for i in range(n):
        vals = set(grid)
        vals.update((lo[i], hi[i], 0.5 * lo[i] + 0.5 * hi[i]))
        axes.append(sorted(vals))
    if n == 3:   # keep the 3-D product affordable: thin the grid on the third axis
        axes[2] = sorted({lo[2], hi[2], 0.5 * lo[2] + 0.5 * hi[2], grid[0], grid[len(grid) // 2], grid[-1]})
    return itertools.product(*axes)


def objective(r):
    """Same arithmetic as minimize.Quadratic.value."""
    return 0.5 * (r.T @ r).item()


def bounded_linear_optimum(A, b, lo, hi):
    """Global minimum of 0.5*|Ax-b|^2 over the box by enumeration of all 3^n active sets."""
    n = A.shape[1]
    best, bestx, nfeas = math.inf, None, 0
    for pattern in itertools.product((0, 1, 2), repeat=n):   # 0 free, 1 at lower, 2 at upper
        x = np.zeros(n)
        free = [i for i in range(n) if pattern[i] == 0]
        for i in range(n):
            if pattern[i] == 1:
                x[i] = lo[i]
            elif pattern[i] == 2:
                x[i] = hi[i]
        if free:
            rhs = b[:, 0] - A @ x
            sol = np.linalg.lstsq(A[:, free], rhs, rcond=None)[0]
            # min-norm free solution may be infeasible while the face still contains a minimiser; that minimiser
            # then also lies on a smaller face, which is enumerated too (see DESIGN / module docstring)
            x[free] = sol
            if np.any(x < lo) or np.any(x > hi):
                continue
        nfeas += 1
        f = objective((A @ x.reshape(n, 1)) - b)
        if f < best:
            best, bestx = f, x.copy()
    return best, bestx, nfeas


def ulps_outside(p, lo, hi, mag=None):
    """largest excursion of p outside [lo, hi] in ulp of the largest magnitude involved on that axis: the point, the
    bound and `mag` (the largest |coordinate| the solver had visited on that axis before, i.e. the size of the operands
    of the step ``x + D*dx`` whose rounding is being measured).  0 if inside."""
    worst = 0.0
    for i, (v, l, h) in enumerate(zip(p, lo, hi)):
        m = max(abs(v), abs(l if v < l else h), np.finfo(float).tiny, 0.0 if mag is None else mag[i])
        if v < l:
            worst = max(worst, (l - v) / np.spacing(m))
        elif v > h:
            worst = max(worst, (v - h) / np.spacing(m))
    return worst


def gap_tolerance(A, scale, n, fstar, status="G_TOL", mu=0.0, xnorm=0.0):
    """Objective gap the documented termination rule itself allows, with head-room.

    least_squares stops when the free gradient *in scaled coordinates* has norm <= gtol (1e-8).  For a linear residual
    the objective is then within gtol^2 / (2*lambda_min+) of the optimum, lambda_min+ the smallest non-zero eigenvalue
    of the scaled Gauss-Newton Hessian D A^T A D restricted to the free variables (minimum over all free sets).  GAP_K times that, plus a floor for rounding."""
    if scale is None:
        D = np.ones(n)
    elif isinstance(scale, str):
        D = 1.0 / np.maximum(np.linalg.norm(A, axis=0), np.finfo(np.float64).eps ** 0.5)
    else:
        D = np.ones(n) * np.asarray(scale if not isinstance(scale, tuple) else scale[:n], dtype=np.float64)
    H = (A * D).T @ (A * D)
    lam = math.inf
    for k in range(1, n + 1):            # any subset of the variables may be the free set at termination
        for S in itertools.combinations(range(n), k):
            ev = np.linalg.eigvalsh(H[np.ix_(S, S)])
            lam = min([lam] + [e for e in ev if e > 1e-12 * max(ev[-1], np.finfo(float).tiny)])
    g = GTOL
    if status == "DX_TOL":
        # documented relative-step rule: the last step D*dz is shorter than xtol*(xtol+|x|) where dz solves
        # (H + mu I) dz = -g on the free set, hence |g_free| <= (lambda_max + mu) * |dz|.
        dz = XTOL * (XTOL + xnorm) / float(np.min(D))
        g = max(g, (float(np.linalg.eigvalsh(H)[-1]) + mu) * dz)
    return GAP_ATOL + GAP_RTOL * fstar + GAP_K * g ** 2 / (2.0 * lam)


def run_one(mz, fam, amenu, bname, bounds_menu, scale, x0, part, calib=None):
    n, res, jac, A, b = make_family(fam, amenu)
    lo = np.array(bounds_menu[bname][0][:n], dtype=np.float64)
    hi = np.array(bounds_menu[bname][1][:n], dtype=np.float64)
    x0 = np.array(x0, dtype=np.float64)
    xs = scale
    if isinstance(scale, tuple):
        xs = np.array(scale[:n], dtype=np.float64)
    calls = []   # (ncols, array copy)

    def residual(x):
        calls.append(np.array(x, dtype=np.float64, copy=True))
        return res(x)

    use_ajac = len(fam) > 3 and fam[3] == "ajac"
    replay = {"family": list(fam), "A": A, "b": b, "lower": lo, "upper": hi, "x0": x0, "x_scale": scale,
              "analytic_jacobian": use_ajac,
              "call": "minimize.least_squares(x0, residual, [lower, upper], x_scale=x_scale, verbose=1, output=StringIO())"}
    out = io.StringIO()
    lo_in, hi_in, x0_in = lo.copy(), hi.copy(), x0.copy()
    try:
        x, trace = mz.least_squares(x0, residual, [lo, hi], jacobian=(lambda xx, rr: jac(xx)) if use_ajac else None,
                                    x_scale=xs, verbose=mz.Verbosity.FINAL, output=out)
    except Exception as e:   # noqa: BLE001 - any escape is a finding for a valid input
        part.violation(KEY_EXC + ": " + type(e).__name__, "least_squares raised %r on a valid bounded problem" % (e,), replay)
        return
    part.count(1)
    text = out.getvalue()
    status = "?"
    for s in mz.Status:
        if mz._STATUS_MESSAGE[s] in text:
            status = s.name
    part.add("status_" + status)
    part.add("residual_calls", len(calls))
    # inputs must not be modified either (bounds are documented to be copied)
    if not (np.array_equal(lo, lo_in) and np.array_equal(hi, hi_in) and np.array_equal(x0, x0_in)):
        part.violation("least_squares: modifies its x0 / bounds arguments", "x0 or bounds changed by the call", replay)

    # ---- 1. every evaluation point inside the bounds, exactly.  Only the first excursion of a run is classified
    # (later ones are consequences of the iterate having left the box).
    x_clip = np.clip(x0, lo, hi)
    n_out = 0
    first = None
    for ci, c in enumerate(calls):
        for j in range(c.shape[1]):
            p = c[:, j]
            part.add("points_checked")
            if np.any(p < lo) or np.any(p > hi) or not np.all(np.isfinite(p)):
                n_out += 1
                if first is None:
                    first = (ci, j, p.copy(), c.shape[1])
    if first is not None:
        ci, j, p, ncols = first
        mag = np.max(np.abs(np.concatenate([x_clip.reshape(n, 1)] + calls[:ci], axis=1)), axis=1)
        u = ulps_outside(p, lo, hi, mag)
        rep = dict(replay, first_point_outside=p, call_index=ci, column=j, ulps_outside=u, points_outside=n_out)
        if ci == 0:
            key = KEY_INIT
        elif ncols == 1 or use_ajac:
            key = KEY_STEP if u <= ULP_ROUNDING else KEY_STEP_GROSS
        else:
            key = KEY_FD
        part.add("runs_with_point_outside")
        part.violation(key, "residual evaluated at %s which is outside [%s, %s] by %.3g ulp (call #%d, %d such points in "
                       "this run); family=%s bounds=%s x_scale=%r x0=%s" % (p.tolist(), lo.tolist(), hi.tolist(), u, ci,
                                                                            n_out, fam, bname, scale, x0.tolist()), rep)

    # ---- 2. returned point inside
    xr = np.asarray(x, dtype=np.float64)
    ret_out = bool(np.any(xr < lo) or np.any(xr > hi))
    if ret_out:
        mag = np.max(np.abs(np.concatenate([x_clip.reshape(n, 1)] + calls, axis=1)), axis=1)
        u = ulps_outside(xr, lo, hi, mag)
        # same root cause if the returned point is one of the unclipped candidates evaluated outside
        same = first is not None and any(c.shape[1] == 1 and np.array_equal(c[:, 0], xr) for c in calls[1:])
        key = (KEY_STEP if u <= ULP_ROUNDING else KEY_STEP_GROSS) if same else KEY_RET
        part.add("runs_returning_outside")
        part.violation(key, "returned x=%s outside [%s, %s] by %.3g ulp; family=%s bounds=%s x_scale=%r x0=%s"
                       % (xr.tolist(), lo.tolist(), hi.tolist(), u, fam, bname, scale, x0.tolist()),
                       dict(replay, returned=xr, ulps_outside=u))

    # ---- 3. never worse than the clipped start (fresh evaluations, exact)
    f0 = objective(res(x_clip.reshape(n, 1)))
    fr = objective(res(xr.reshape(n, 1)))
    if not fr <= f0:
        part.violation(KEY_WORSE, "objective %r at returned x=%s > %r at clip(x0)=%s; family=%s bounds=%s x_scale=%r"
                       % (fr, xr.tolist(), f0, x_clip.tolist(), fam, bname, scale), dict(replay, returned=xr, f_ret=fr, f0=f0))

    # ---- 4. trace
    objs = [float(t.objective) for t in trace]
    if not np.array_equal(np.asarray(trace[0].candidate).flatten(), x_clip):
        part.violation(KEY_TRACE_START, "trace[0].candidate=%s but clip(x0)=%s" % (np.asarray(trace[0].candidate).flatten().tolist(),
                                                                                  x_clip.tolist()), replay)
    if not np.array_equal(np.asarray(trace[-1].candidate).flatten(), xr):
        part.violation(KEY_TRACE_END, "trace[-1].candidate=%s but returned %s" % (np.asarray(trace[-1].candidate).flatten().tolist(),
                                                                               xr.tolist()), replay)
    for k in range(len(objs) - 1):
        if not objs[k + 1] <= objs[k]:
            part.violation(KEY_TRACE_MONO, "trace objective rises %r -> %r at iteration %d; family=%s bounds=%s x_scale=%r x0=%s"
                           % (objs[k], objs[k + 1], k, fam, bname, scale, x0.tolist()), dict(replay, objectives=objs))
            break
    for k, t in enumerate(trace):
        fk = objective(res(np.asarray(t.candidate, dtype=np.float64).reshape(n, 1)))
        if fk != objs[k]:
            part.violation(KEY_TRACE_OBJ, "trace[%d].objective=%r but the objective of its candidate %s is %r"
                           % (k, objs[k], np.asarray(t.candidate).flatten().tolist(), fk), dict(replay, objectives=objs))
            break
    part.add("trace_entries", len(trace))

    # ---- 5. linear: bounded global optimum
    if A is not None:
        fstar, xstar, nfeas = bounded_linear_optimum(A, b, lo, hi)
        part.add("active_sets_feasible", nfeas)
        if status == "MAX_ITER":
            part.add("boundary_excluded")   # solver did not converge within max_iter: excluded from the optimum oracle
        else:
            gap = fr - fstar
            xnorm = max(float(np.linalg.norm(np.asarray(t.candidate))) for t in trace[-2:])
            tol = gap_tolerance(A, scale, n, fstar, status, float(trace[-1].regularizer), xnorm)
            part.add("linear_optimum_compared")
            part.add("linear_gap_within_100x_of_tolerance", 1 if gap > 0.01 * tol else 0)
            if calib is not None:
                calib.append((gap / tol, gap, fstar, f0, fam, bname, scale, x0.tolist(), status))
            if not gap <= tol:
                part.violation(KEY_GLOBAL, "objective %r at returned x=%s exceeds the bounded optimum %r (at %s) by %.3g > tol %.3g "
                               "(status %s); family=%s bounds=%s x_scale=%r x0=%s"
                               % (fr, xr.tolist(), fstar, xstar.tolist(), gap, tol, status, fam, bname, scale, x0.tolist()),
                               dict(replay, returned=xr, f_ret=fr, f_star=fstar, x_star=xstar, status=status))

    # ---- non-trivial: at least one accepted step and (start was clipped or a bound is active at the result)
    moved = len(trace) >= 2 and not np.array_equal(xr, x_clip)
    active = bool(np.any(xr <= lo) or np.any(xr >= hi))
    clipped = not np.array_equal(x_clip, x0)
    if moved and (active or clipped):
        part["nontrivial_count"] += 1
        if len(part["samples"]) < 1:
            part["samples"].append(core.jsonable({"family": list(fam), "bounds": [lo, hi], "x_scale": scale, "x0": x0,
                                                  "returned": xr, "objectives": objs, "status": status,
                                                  "residual_calls": len(calls)}))
    if moved:
        part.add("runs_with_progress")
    if active:
        part.add("runs_ending_on_a_bound")


_STATE = {}


def _chunk(chunk):
    part = core.Part()
    mz = tree_minimize()
    thorough = _STATE["thorough"]
    fams, amenu = families(thorough)
    bmenu = dict(BOUNDS)
    if thorough:
        bmenu.update(BOUNDS_THOROUGH)
    grid = GRID_THOROUGH if thorough else GRID_QUICK
    for fam, bname, scale in chunk:
        n = make_family(fam, amenu)[0]
        lo, hi = bmenu[bname][0][:n], bmenu[bname][1][:n]
        for x0 in start_points(n, lo, hi, grid):
            run_one(mz, fam, amenu, bname, bmenu, scale, x0, part)
    return part


def run(ctx):
    mz = tree_minimize()
    _STATE["thorough"] = ctx.thorough
    fams, amenu = families(ctx.thorough)
    bmenu = dict(BOUNDS)
    scales = list(SCALES)
    if ctx.thorough:
        bmenu.update(BOUNDS_THOROUGH)
        scales += SCALES_THOROUGH
    # canonical minimal witnesses first, in the parent and in a fixed order, so that the replay recorded for a root-cause
    # key does not depend on the dispatch order (the same cases are part of the lattice; only violations are kept)
    wpart = core.Part()
    for fam, bn, sc, x0 in WITNESSES:
        run_one(mz, fam, amenu, bn, bmenu, sc, x0, wpart)
    for v in wpart["violations"]:
        ctx.violation(v["key"], v["what"], v.get("replay"))
    items = [(f, bn, s) for f in fams for bn in bmenu for s in scales]
    core.pmap(ctx, _chunk, items, nchunks=min(len(items), core.NCPU * 8))
    grid = GRID_THOROUGH if ctx.thorough else GRID_QUICK
    ctx.extra["families"] = len(fams)
    ctx.extra["boxes"] = len(bmenu)
    ctx.extra["x_scales"] = len(scales)
    ctx.extra["tree_module"] = mz.__file__
    ctx.extra.setdefault("boundary_excluded", 0)
    ctx.rule = ("every (residual family, box, x_scale, start point): %d families (linear A in %s x 3 right-hand sides; "
                "separable quadratic r_i=(x_i-c_i)^2-d_i x %d; Rosenbrock-like k in %s%s) x %d boxes %s x %d x_scale %r x "
                "start points = product over axes of (decimal grid %r + lower + upper + mid of that axis). One evaluation "
                "= one least_squares run with all oracles. non-trivial = the solver accepted at least one step AND "
                "(x0 was outside the box OR a bound is active at the returned point). boundary_excluded = linear runs "
                "ending with status MAX_ITER, excluded from the global-optimum oracle only."
                % (len(fams), sorted(amenu), len(QUAD), ROSEN + ([100.0] if ctx.thorough else []),
                   "; 3 analytic-jacobian variants" if ctx.thorough else "", len(bmenu), sorted(bmenu), len(scales), scales,
                   list(grid)))
    ctx.assumptions = [
        "minimize.py is the tree's file (asserted); mujoco.mju_boxQP comes from the installed 3.13.0 binding (trusted base)",
        "boxes are >= 64 finite-difference steps wide (property: 'bounds wider than the finite-difference step')",
        "objective comparisons are exact because the check recomputes 0.5*r.T@r with the same numpy arithmetic as "
        "minimize.Quadratic.value on the same points",
        "global-optimum oracle for linear residuals: gap <= %g + %g*f* + %g*g^2/(2*lambda) where g = gtol (or the gradient "
        "bound implied by the xtol rule for runs ending in DX_TOL) and lambda the smallest non-zero eigenvalue of the scaled "
        "Gauss-Newton Hessian over all free sets, i.e. %gx what the documented termination rules allow; on the unchanged "
        "lattice no run comes within 100x of it (coverage.linear_gap_within_100x_of_tolerance); runs ending in MAX_ITER are "
        "counted as boundary_excluded" % (GAP_ATOL, GAP_RTOL, GAP_K, GAP_K),
    ]


def replay(ctx, path):
    """./check C46 --replay <file>: re-run the single recorded (family, box, x_scale, x0) case; no evidence is written."""
    import json
    rep = json.load(open(path))["replay"]
    mz = tree_minimize()
    amenu = families(True)[1]
    fam = tuple(rep["family"])
    n = make_family(fam, amenu)[0]
    pad = [0.0] * (3 - n)
    menu = {"replay": (tuple(rep["lower"]) + tuple(pad), tuple(rep["upper"]) + tuple(pad))}
    scale = rep["x_scale"]
    if isinstance(scale, list):
        scale = tuple(scale) + tuple([1.0] * (3 - len(scale)))
    part = core.Part()
    run_one(mz, fam, amenu, "replay", menu, scale, tuple(rep["x0"]), part)
    for v in part["violations"]:
        print("VIOLATION property=C46 replay=%s\n  [%s] %s" % (path, v["key"], v["what"][:600]))
    print("replayed 1 case against %s: %d violation(s)" % (mz.__file__, len(part["violations"])))
    return 1 if part["violations"] else 0
