"""C16 Ray casting returns the nearest intersection.

Part A (one geom): every geom type (plane, sphere, capsule, ellipsoid, cylinder, box, mesh, hfield) x 2 sizes x
3 poses (body frame o geom frame) x an origin lattice in the geom frame (centre, half way, on the surface -/+ eps,
outside near/far along 8 local directions) x the 26 cube directions + generic + aimed directions x 3 vector lengths.
mj_ray, the per-geom function (mju_rayGeom / mj_rayMesh / mj_rayHfield) and mj_multiRay are compared with a numpy
reference (convex-interval arithmetic for the solids, Moller-Trumbore for triangles).
Part B (scenes): 6 geoms on 5 bodies (world, static child, hinge body with two geoms, its welded child, free body) x
3 configurations x 4 visibility variants (alpha through rgba / material) x every geomgroup mask over the used groups
(+ NULL) x flg_static x bodyexclude x rays; answer = min over the geoms that pass the documented filters.
"""
import itertools
import math

import numpy as np

from .. import alphabet as A
from .. import core, mj
from ..mjutil import quat2mat, quat_mul
from . import _c16_ref as R

LEVEL = "exploration"
META = dict(
    category=LEVEL,
    technique="exhaustive finite lattice of (geom, pose, origin, direction, filter) with an independent numpy ray caster",
    text="All rays of a stated lattice are cast through mj_ray, mj_multiRay and the per-geom functions of the tree build "
         "and compared with closed-form intersections; filters (geomgroup, flg_static, bodyexclude, alpha, group clamp) "
         "are enumerated as a full product on multi-body scenes.  Exhaustive over the lattice, so edge/vertex hits, rays "
         "from inside, rays along axes and culling shortcuts of mj_multiRay that only some origins reach cannot hide.",
    note="Planes are taken as one-sided (front face, rendered rectangle) as in the renderer; height-field origins are "
         "outside the solid only (interior faces between base box and terrain are not specified).  Rays on a "
         "discontinuity of the specification (oracle answer changes within a 1e-9 neighbourhood: grazing, plane rim) are "
         "boundary-excluded and counted.  SDF geoms and flex/skin rays are out of scope (plugins / not in statement).",
    design_ref="DESIGN.md §3 C16")

EPS = 1e-6
TOL = 1e-8          # doubles: |x_eng - x_ref| * |v| <= TOL * (1 + x|v|); observed noise <= 1e-13
TOL_F = 2e-5        # meshes / hfields (float32 vertex data, re-centred by the compiler); observed noise <= 3e-8
NTOL = 1e-6         # normals
NTOL_F = 1e-4
BIG = 1e10

S14 = math.sqrt(14.0)
QX90 = (math.sqrt(0.5), math.sqrt(0.5), 0.0, 0.0)
QZ90 = (math.sqrt(0.5), 0.0, 0.0, math.sqrt(0.5))


def nq(q):
    q = np.array(q, float)
    return q / np.linalg.norm(q)


POSES = [  # (body pos, body quat, geom pos, geom quat)
    ((0.0, 0.0, 0.0), (1.0, 0.0, 0.0, 0.0), (0.0, 0.0, 0.0), (1.0, 0.0, 0.0, 0.0)),
    ((0.3, -0.2, 0.5), QX90, (0.05, 0.0, -0.1), QZ90),
    ((-0.4, 0.1, 0.2), tuple(nq((0.8, 0.2, -0.4, 0.4))), (0.1, -0.05, 0.02), tuple(nq((0.9, 0.1, 0.3, -0.2)))),
]

CUBE = [np.array(c, float) for c in itertools.product((-1, 0, 1), repeat=3) if any(c)]
GENERIC = [np.array([1.0, 2.0, 3.0]) / S14, np.array([-0.3, 0.5, -0.81]), np.array([0.62, -0.75, 0.23]),
           np.array([-0.05, -0.02, 1.0]), np.array([0.7, 0.71, -0.004]), np.array([-0.9, 0.1, 0.42])]
NEARAXIS = [np.array([1.0, -1e-4, 2e-4]), np.array([3e-4, -1.0, 1e-4]), np.array([-2e-4, 1e-4, 1.0])]   # tiny but non-zero components
SCALES = [1.0, 0.5, 3.0]
LOCALDIRS = [np.array(u, float) for u in ((1, 0, 0), (-1, 0, 0), (0, 1, 0), (0, -1, 0), (0, 0, 1), (0, 0, -1))] + \
            [np.array([1.0, 2.0, 3.0]) / S14, np.array([-2.0, 1.0, -1.0]) / math.sqrt(6.0)]
FRACS = [0.5, 1 - EPS, 1 + EPS, 1.6, 4.0]

HF_A = dict(nrow=3, ncol=4, size=(0.5, 0.4, 0.3, 0.1), elev=[[0, 1, 2, 3], [1, 1, 1, 1], [3, 2, 1, 0]])
HF_B = dict(nrow=4, ncol=3, size=(0.3, 0.6, 0.2, 0.05), elev=[[0, 0, 0], [0, 2, 1], [1, 3, 0], [0, 0, 0]])

TNAME = {R.PLANE: "plane", R.HFIELD: "hfield", R.SPHERE: "sphere", R.CAPSULE: "capsule", R.ELLIPSOID: "ellipsoid",
         R.CYLINDER: "cylinder", R.BOX: "box", R.MESH: "mesh"}


def fmt(v):
    return " ".join("%.17g" % x for x in v)


def mesh_menu(thorough):
    tet = np.array(A.TETRA)
    octa = np.array(A.OCTA)
    v0, f0 = A.icosphere(0, 0.2)
    v1, f1 = A.icosphere(1, 0.15)
    cube = np.array([[sx * 0.1, sy * 0.15, sz * 0.2] for sx in (-1, 1) for sy in (-1, 1) for sz in (-1, 1)])
    menu = [("tetra", tet, R.hull_faces(tet)), ("ico0", v0, f0), ("ico1", v1, f1), ("cube", cube, R.hull_faces(cube))]
    if thorough:
        v2, f2 = A.icosphere(2, 0.25)
        menu += [("octa", octa, R.hull_faces(octa)), ("ico2", v2, f2)]
    return menu


def geom_menu(thorough):
    """(type, label, size tuple, extra)"""
    out = [
        (R.PLANE, "inf", (0.0, 0.0, 0.1), None), (R.PLANE, "rect", (0.5, 0.3, 0.1), None),
        (R.SPHERE, "a", (0.3, 0, 0), None), (R.SPHERE, "b", (0.07, 0, 0), None),
        (R.CAPSULE, "a", (0.1, 0.25, 0), None), (R.CAPSULE, "b", (0.2, 0.05, 0), None),
        (R.ELLIPSOID, "a", (0.1, 0.2, 0.3), None), (R.ELLIPSOID, "b", (0.3, 0.12, 0.05), None),
        (R.CYLINDER, "a", (0.15, 0.25, 0), None), (R.CYLINDER, "b", (0.3, 0.05, 0), None),
        (R.BOX, "a", (0.1, 0.2, 0.3), None), (R.BOX, "b", (0.25, 0.25, 0.05), None),
        (R.HFIELD, "a", (0, 0, 0), HF_A), (R.HFIELD, "b", (0, 0, 0), HF_B),
    ]
    for name, v, f in mesh_menu(thorough):
        out.append((R.MESH, name, (0, 0, 0), (v, f)))
    return out


def hf_ref(hf):
    e = np.array(hf["elev"], float)
    e = (e - e.min()) / (e.max() - e.min())
    e = e[::-1]                       # XML rows are top-to-bottom, mjModel rows bottom-to-top
    top, walls = R.hfield_triangles(hf["nrow"], hf["ncol"], hf["size"], e)
    return dict(size=hf["size"], top=top, walls=walls)


def geom_xml(gtype, size, extra, name="g", attrs=""):
    """(asset xml, geom attribute string, oracle extra)"""
    if gtype == R.MESH:
        v, f = extra
        tri = np.asarray(v, np.float32).astype(float)[np.asarray(f)]
        return A.mesh_asset("mesh_" + name, v, f), 'type="mesh" mesh="mesh_%s"' % name, tri
    if gtype == R.HFIELD:
        hf = extra
        el = " ".join(str(x) for row in hf["elev"] for x in row)
        asset = '    <hfield name="hf_%s" nrow="%d" ncol="%d" size="%s" elevation="%s"/>' % (
            name, hf["nrow"], hf["ncol"], fmt(hf["size"]), el)
        return asset, 'type="hfield" hfield="hf_%s"' % name, hf_ref(hf)
    n = {R.PLANE: 3, R.SPHERE: 1, R.CAPSULE: 2, R.ELLIPSOID: 3, R.CYLINDER: 2, R.BOX: 3}[gtype]
    return "", 'type="%s" size="%s"' % (TNAME[gtype], fmt(size[:n])), None


def compose(pose):
    pb, qb, pg, qg = pose
    Rb = quat2mat(qb)
    return np.array(pb) + Rb @ np.array(pg), Rb @ quat2mat(qg)


def outer_point(gtype, size, extra, c0, u, far):
    """Surface point met first when approaching c0 from far away along -u (local frame)."""
    P = (c0 + far * u)[None]
    x, _ = R.ray_geom(gtype, P, (-u)[None], size, extra)
    if x[0] < 0:
        return None
    return P[0] - x[0] * u


def origins_local(gtype, size, extra):
    """Origin lattice in the geom frame: list of (label, point)."""
    out = []
    if gtype == R.PLANE:
        for xy in ((0.0, 0.0), (0.4, -0.2), (0.7, 0.1)):
            for z in (-0.3, -EPS, EPS, 0.3, 2.0):
                out.append(("xy=%s z=%g" % (xy, z), np.array([xy[0], xy[1], z])))
        return out
    if gtype == R.HFIELD:
        c0 = np.array([0.0, 0.0, -extra["size"][3] / 2])
        fr = [1 + 1e-4, 1.6, 4.0]
    else:
        c0 = np.zeros(3)
        fr = FRACS if gtype != R.MESH else [0.5, 1 - 1e-4, 1 + 1e-4, 1.6, 4.0]
        out.append(("centre", c0.copy()))
    for ui, u in enumerate(LOCALDIRS):
        s = outer_point(gtype, size, extra, c0, u, 10.0)
        if s is None:
            continue
        for f in fr:
            out.append(("u%d f=%g" % (ui, f), c0 + (s - c0) * f))
    return out



K_SLAB = ("mesh: mju_raySlab culls the BVH node of the hit triangle when the ray lies exactly in a face plane of its AABB "
          "(zero direction component: 0*inf = NaN fails tmin < tmax)")
K_TRI = ("ray_triangle is not watertight: a ray through an edge/vertex shared by triangles is rejected by all of them "
         "(mesh and hfield surfaces leak)")
K_MULTI_SPHERE = ("mj_multiRay: body bounding-sphere centre is bvh_aabb centre + xipos without rotating by ximat, "
                  "so bodies whose inertial frame is rotated are culled although the ray hits them")


def classify_tri_miss(m, d, tri, pl, vl, pw, vw, is_mesh):
    """Attribute a miss / far-side answer on a triangle surface to BVH culling or to the triangle test."""
    tri = np.asarray(tri, float)
    v0 = tri[:, 0]
    e1 = tri[:, 1] - v0
    e2 = tri[:, 2] - v0
    h = np.cross(vl[None], e2)
    a = np.einsum("fk,fk->f", e1, h)
    ok = a != 0
    inv = 1.0 / np.where(ok, a, 1.0)
    sv = pl[None] - v0
    u = inv * np.einsum("fk,fk->f", sv, h)
    q = np.cross(sv, e1)
    w = inv * np.einsum("fk,fk->f", vl[None].repeat(len(tri), 0), q)
    t = inv * np.einsum("fk,fk->f", e2, q)
    e = 1e-7
    cand = ok & (u >= -e) & (w >= -e) & (u + w <= 1 + e) & (t >= 0)
    if not cand.any():
        return None
    tmin = t[cand].min()
    faces = [int(k) for k in np.nonzero(cand & (t <= tmin + 1e-7 * (1 + tmin)))[0]]
    if not is_mesh:
        return K_TRI
    culled = [R.bvh_path_culled(m, d, 0, k, pw, vw) for k in faces]
    if any(cx is None for cx in culled):
        return None
    if all(culled):
        return K_SLAB
    return K_TRI


K_BOX = ("ray_box is not watertight: a ray crossing the box surface exactly on an edge can be rejected by both adjacent "
         "faces (box geoms; the bounding-box pre-test of mj_rayMesh then drops the whole mesh)")


def box_edge_crossing(size, pl, vl):
    """True if every crossing (x >= 0) of the local ray with the box surface lies on a box edge (within 1e-9)."""
    size = np.asarray(size[:3], float)
    t0, t1 = -np.inf, np.inf
    for k in range(3):
        if vl[k] == 0:
            if abs(pl[k]) > size[k]:
                return False
            continue
        ta, tb = (-size[k] - pl[k]) / vl[k], (size[k] - pl[k]) / vl[k]
        t0, t1 = max(t0, min(ta, tb)), min(t1, max(ta, tb))
    if t0 > t1:
        return False
    ts = [t for t in (t0, t1) if t >= 0 and np.isfinite(t)]
    if not ts:
        return False
    for t in ts[:1]:      # the nearest crossing decides what the engine returns first
        h = np.abs(pl + t * vl) / size
        if np.sum(h > 1 - 1e-9) < 2:
            return False
    return True


def classify_multi(m, d, gid, pw, vw):
    """True if mj_multiRay's miss of geom gid is explained by the un-rotated body bounding sphere."""
    b = int(m.geom_bodyid[gid])
    adr = int(m.body_bvhadr[b])
    if adr < 0:
        return False
    aabb = np.array(m.bvh_aabb).reshape(-1, 6)[adr]
    xipos = np.array(d.xipos[b])
    ximat = np.array(d.ximat[b]).reshape(3, 3)
    r2 = float(aabb[3:] @ aabb[3:])

    def hits(c):
        dd = pw - c
        aa = vw @ vw
        bb = vw @ dd
        cc = dd @ dd - r2
        disc = bb * bb - aa * cc
        if disc < 0:
            return False
        return (-bb + math.sqrt(disc)) / aa >= 0
    return (not hits(aabb[:3] + xipos)) and hits(ximat @ aabb[:3] + xipos)


class Caster:
    """Thin wrapper with preallocated buffers around the engine's ray API."""

    def __init__(self, lib, m, d, nmax):
        self.lib, self.m, self.d = lib, m, d
        self.gid = np.zeros(1, np.int32)
        self.nrm = np.zeros(3)
        self.mg = np.zeros(nmax, np.int32)
        self.md = np.zeros(nmax)
        self.mn = np.zeros((nmax, 3))

    def ray(self, p, v, group, fs, be):
        self.gid[0] = 77
        self.nrm[:] = 9.0
        x = self.lib.mj_ray(self.m, self.d, p, v, group, fs, be, self.gid, self.nrm)
        return x, int(self.gid[0]), self.nrm.copy()

    def multi(self, p, V, group, fs, be, cutoff):
        n = len(V)
        self.mg[:n] = 77
        self.md[:n] = 55.0
        self.mn[:n] = 9.0
        self.lib.mj_multiRay(self.m, self.d, p, np.ascontiguousarray(V), group, fs, be, self.mg, self.md, self.mn, n, cutoff)
        return self.md[:n].copy(), self.mg[:n].copy(), self.mn[:n].copy()


def directions(extra_dirs, ngen):
    dirs = [c for c in CUBE] + GENERIC[:ngen] + NEARAXIS + list(extra_dirs)
    out = []
    for dvec in dirs:
        for s in SCALES:
            out.append(dvec * s)
    return np.array(out)


# ======================================================================= part A

def single_item(lib, part, item, thorough):
    gtype, label, size, extra0, pi = item
    pose = POSES[pi]
    asset, gattr, extra = geom_xml(gtype, size, extra0)
    pb, qb, pg, qg = pose
    body = ('<body name="b" pos="%s" quat="%s"><geom name="g" %s pos="%s" quat="%s"/></body>'
            % (fmt(pb), fmt(qb), gattr, fmt(pg), fmt(qg)))
    xml = A.mjcf(body, asset=asset)
    m = lib.load_xml(xml)
    d = lib.make_data(m)
    lib.mj_kinematics(m, d)
    pos, Rm = compose(pose)
    isf = gtype in (R.MESH, R.HFIELD)
    tol, ntol = (TOL_F, NTOL_F) if isf else (TOL, NTOL)
    delta, jump = (1e-6, 1e-4) if isf else (1e-9, 1e-5)
    if gtype == R.HFIELD:
        size = extra["size"]
    ngen = 6 if thorough else 3
    tag = "%s/%s" % (TNAME[gtype], label)
    org = origins_local(gtype, size, extra)
    c = Caster(lib, m, d, 400)
    mat = np.ascontiguousarray(Rm.reshape(9))
    gsize = np.array(list(size[:3]) + [0.0] * (3 - len(size[:3])), float)
    centre_w = pos.copy()

    def bad(cls, what, rp):
        part.violation("single %s: %s" % (TNAME[gtype], cls), "%s [%s pose %d] %s" % (cls, tag, pi, what),
                       dict(rp, xml=xml, geom=tag, pose=pi))

    for (olab, ol) in org:
        ow = pos + Rm @ ol
        aims = []
        tc = centre_w - ow
        if np.linalg.norm(tc) > 1e-9:
            aims.append(tc / np.linalg.norm(tc))
        # aim at an off-centre interior point (generic incidence)
        if gtype not in (R.PLANE,):
            so = outer_point(gtype, size, extra, np.zeros(3) if gtype != R.HFIELD else np.array([0, 0, -size[3] / 2]),
                             LOCALDIRS[7], 10.0)
            if so is not None:
                tgt = pos + Rm @ (0.5 * so)
                ta = tgt - ow
                if np.linalg.norm(ta) > 1e-9:
                    aims.append(ta / np.linalg.norm(ta))
        V = directions(aims, ngen)
        P = np.repeat(ow[None], len(V), axis=0)
        Pl, Vl = R.to_local(pos, Rm, P, V)
        xr, Nl, ok, nok = R.stable(gtype, Pl, Vl, size, extra, delta, jump)
        Nw = Nl @ Rm.T
        vn = np.linalg.norm(V, axis=1)
        # mesh / hfield: barycentric slack of the winning triangle (edge / vertex hit classification)
        slack = None
        tritab = None
        if gtype == R.MESH:
            tritab = extra
            _, _, slack = R.ray_triangles(Pl, Vl, extra)
        elif gtype == R.HFIELD:
            tritab = np.concatenate([extra["top"], extra["walls"]]) if len(extra["walls"]) else extra["top"]
            xt, _, sl = R.ray_triangles(Pl, Vl, tritab)
            slack = np.where(np.abs(xt - xr) < 1e-12, sl, np.inf)
        md, mgid, mnr = c.multi(ow, V, None, 1, -1, BIG)
        for i in range(len(V)):
            if not ok[i]:
                part.add("boundary_excluded")
                continue
            v = np.ascontiguousarray(V[i])
            x, gid, nrm = c.ray(ow, v, None, 1, -1)
            hit = xr[i] >= 0
            part.count(1, key=(tag, pi, olab, i) if hit else None,
                       sample={"geom": tag, "pose": pi, "origin": ow, "vec": v, "dist": float(xr[i])}
                       if (hit and i == 5 and olab.startswith("u6")) else None)
            rp = {"pnt": ow, "vec": v, "expected": float(xr[i]), "mj_ray": x, "origin_label": olab}
            edge = slack is not None and hit and slack[i] < 1e-7
            wrong = None
            if hit != (x >= 0):
                wrong = "miss" if hit else "phantom hit"
            elif hit and abs(x - xr[i]) * vn[i] > tol * (1 + xr[i] * vn[i]):
                wrong = "wrong distance"
            if wrong:
                what = "mj_ray=%.17g expected %.17g pnt=%s vec=%s" % (x, xr[i], ow, v)
                key = None
                if edge and (x < 0 or x > xr[i]):
                    key = classify_tri_miss(m, d, tritab, Pl[i], Vl[i], ow, v, gtype == R.MESH)
                elif gtype == R.BOX and box_edge_crossing(size, Pl[i], Vl[i]):
                    key = K_BOX
                elif gtype == R.MESH and x < 0:
                    # bounding-box pre-test in the compiled geom frame (mesh AABB, re-centred by the compiler)
                    gp, gm = np.array(d.geom_xpos[0]), np.array(d.geom_xmat[0]).reshape(3, 3)
                    if box_edge_crossing(np.array(m.geom_size[0]), (ow - gp) @ gm, v @ gm):
                        key = K_BOX
                if key:
                    part.violation(key, "%s [%s pose %d] %s" % (wrong, tag, pi, what), dict(rp, xml=xml, geom=tag, pose=pi))
                else:
                    bad(wrong, what, rp)
            if (gid == 0) != (x >= 0) or (x < 0 and (gid != -1 or x != -1)):
                bad("geomid/-1 convention", "mj_ray=%.17g geomid=%d" % (x, gid), rp)
            if x >= 0 and hit and nok[i] and not edge:
                part.add("normals_checked")
                if np.linalg.norm(nrm - Nw[i]) > ntol:
                    bad("normal", "normal=%s expected %s pnt=%s vec=%s" % (nrm, Nw[i], ow, v), rp)
            if x < 0 and np.any(nrm != 0):
                bad("normal not cleared on miss", "normal=%s" % nrm, rp)
            # per-geom function
            if gtype == R.MESH:
                xg = lib.mj_rayMesh(m, d, 0, ow, v, c.nrm)
            elif gtype == R.HFIELD:
                xg = lib.mj_rayHfield(m, d, 0, ow, v, c.nrm)
            else:
                xg = lib.mju_rayGeom(pos, mat, gsize, ow, v, gtype, c.nrm)
            gtol = 0.0 if isf else 1e-9 * (1 + abs(x))   # mju_rayGeom gets the reference pose, not the compiled one
            if (xg >= 0) != (x >= 0) or abs(xg - x) > gtol:
                bad("per-geom function != mj_ray", "per-geom=%.17g mj_ray=%.17g pnt=%s vec=%s" % (xg, x, ow, v), rp)
            # multiRay
            if md[i] != x or mgid[i] != gid or np.any(mnr[i] != nrm):
                what = "multiRay=(%.17g,%d,%s) mj_ray=(%.17g,%d,%s) pnt=%s vec=%s" % (md[i], mgid[i], mnr[i], x, gid, nrm, ow, v)
                if md[i] < 0 and gid >= 0 and classify_multi(m, d, gid, ow, v):
                    part.violation(K_MULTI_SPHERE, "[%s pose %d] %s" % (tag, pi, what), dict(rp, xml=xml))
                else:
                    bad("mj_multiRay != mj_ray", what, rp)
    d.free()
    m.free()


# ======================================================================= part B

SCENE_GEOMS = [  # name, body, type, size, local pos, local quat, group
    ("gw", 0, R.BOX, (0.3, 0.3, 0.05), (0.0, 0.0, -0.5), (1, 0, 0, 0), 0),
    ("gs", 1, R.SPHERE, (0.2, 0, 0), (0.0, 0.0, 0.0), (1, 0, 0, 0), 5),
    ("gd1", 2, R.CAPSULE, (0.1, 0.3, 0), (0.5, 0.0, 0.0), QX90, 2),
    ("gd2", 2, R.ELLIPSOID, (0.05, 0.08, 0.06), (-0.1, 0.0, 0.0), (1, 0, 0, 0), 0),
    ("gc", 3, R.CYLINDER, (0.15, 0.1, 0), (0.0, 0.0, 0.0), tuple(nq((0.9, 0.1, 0.3, -0.2))), 5),
    ("gf", 4, R.BOX, (0.1, 0.15, 0.2), (0.0, 0.0, 0.0), (1, 0, 0, 0), 2),
]
# bodies: 0 world; 1 static child of world; 2 hinge (z) at (-0.6,0.2,0.1); 3 welded child of 2; 4 free body
VARIANTS = ["opaque", "rgba0:gs", "mat0:gd1", "mat1+rgba0:gc"]
QPOS = [  # hinge angle, free pos, free quat
    (0.0, (0.2, -0.7, 0.3), (1.0, 0.0, 0.0, 0.0)),
    (math.pi / 2, (0.2, -0.7, 0.3), QX90),
    (2.6, (-0.1, 0.6, -0.2), tuple(nq((0.8, 0.2, -0.4, 0.4)))),
]


def scene_xml(variant):
    ga = {}
    for (name, *_r) in SCENE_GEOMS:
        ga[name] = ""
    asset = '    <material name="m0" rgba="0.5 0.5 0.5 0"/>\n    <material name="m1" rgba="0.5 0.5 0.5 1"/>'
    if variant == "rgba0:gs":
        ga["gs"] = 'rgba="1 0 0 0"'
    elif variant == "mat0:gd1":
        ga["gd1"] = 'material="m0" rgba="1 0 0 1"'
    elif variant == "mat1+rgba0:gc":
        ga["gc"] = 'material="m1" rgba="1 0 0 0"'

    def g(name):
        for (n, b, t, size, p, q, grp) in SCENE_GEOMS:
            if n == name:
                _, attr, _ = geom_xml(t, size, None)
                return '<geom name="%s" %s pos="%s" quat="%s" group="%d" %s/>' % (n, attr, fmt(p), fmt(q), grp, ga[n])
    body = (g("gw") + "\n"
            '<body name="b1" pos="0.8 0 0" quat="%s">%s</body>\n' % (fmt(QZ90), g("gs")) +
            '<body name="b2" pos="-0.6 0.2 0.1"><joint name="h" type="hinge" axis="0 0 1"/>%s%s'
            '<body name="b3" pos="0 0.5 0.3" quat="%s">%s</body></body>\n' % (g("gd1"), g("gd2"), fmt(QX90), g("gc")) +
            '<body name="b4"><freejoint/>%s</body>' % g("gf"))
    return A.mjcf(body, asset=asset)


def scene_poses(qi):
    """World pose (pos, R) of every scene geom from the documented kinematics (independent of the engine)."""
    ang, fp, fq = QPOS[qi]
    bodies = {0: (np.zeros(3), np.eye(3)), 1: (np.array([0.8, 0, 0]), quat2mat(QZ90))}
    R2 = quat2mat((math.cos(ang / 2), 0, 0, math.sin(ang / 2)))
    p2 = np.array([-0.6, 0.2, 0.1])
    bodies[2] = (p2, R2)
    bodies[3] = (p2 + R2 @ np.array([0, 0.5, 0.3]), R2 @ quat2mat(QX90))
    bodies[4] = (np.array(fp), quat2mat(fq))
    out = []
    for (n, b, t, size, p, q, grp) in SCENE_GEOMS:
        bp, bR = bodies[b]
        out.append((bp + bR @ np.array(p), bR @ quat2mat(q)))
    return out


def visible(variant):
    """alpha rule: geom rgba alpha counts only without a material; otherwise the material's alpha."""
    vis = [True] * len(SCENE_GEOMS)
    names = [g[0] for g in SCENE_GEOMS]
    if variant == "rgba0:gs":
        vis[names.index("gs")] = False
    elif variant == "mat0:gd1":
        vis[names.index("gd1")] = False
    # mat1+rgba0:gc -> material alpha 1 wins: visible
    return vis


STATIC_BODY = {0: True, 1: True, 2: False, 3: False, 4: False}


def scene_item(lib, part, item, thorough):
    variant, qi, groups_override = item
    xml = scene_xml(variant)
    m = lib.load_xml(xml)
    d = lib.make_data(m)
    ang, fp, fq = QPOS[qi]
    d.qpos[:] = [ang] + list(fp) + list(fq)
    lib.mj_kinematics(m, d)
    groups = [g[6] for g in SCENE_GEOMS]
    if groups_override:
        for k, v in groups_override.items():
            m.geom_group[k] = v
            groups[k] = v
    poses = scene_poses(qi)
    vis = visible(variant)
    ng = len(SCENE_GEOMS)
    c = Caster(lib, m, d, 400)
    # origins: between / around the geoms
    cent = np.array([p for p, _ in poses])
    origins = [cent.mean(axis=0), np.array([0.0, 0.0, 1.5]), np.array([2.0, 0.1, 0.05]), np.array([-1.5, -1.0, -0.6]),
               0.5 * (cent[1] + cent[2]), cent[3] + np.array([0.0, 0.0, 0.3]), cent[5] + np.array([0.02, 0.01, 0.03])]
    if thorough:
        origins += [cent[2] + np.array([0.0, 0.0, 0.101]), np.array([0.0, 0.0, -2.0]), cent[4] + np.array([0.4, 0.0, 0.0])]
    used = sorted(set(min(5, max(0, g)) for g in groups))
    masks = [None]
    for bits in itertools.product((0, 1), repeat=len(used)):
        mk = np.zeros(6, np.uint8)
        for u, b in zip(used, bits):
            mk[u] = b
        masks.append(mk)
    ngen = 6 if thorough else 2
    for oi, ow in enumerate(origins):
        aims = []
        for k in range(ng):
            t = cent[k] - ow
            if np.linalg.norm(t) > 1e-6:
                aims.append(t / np.linalg.norm(t))
        dirs = [cc for cc in CUBE] + GENERIC[:ngen] + NEARAXIS + aims
        V = np.array([dv * SCALES[i % 3] for i, dv in enumerate(dirs)])
        P = np.repeat(ow[None], len(V), axis=0)
        vn = np.linalg.norm(V, axis=1)
        X = np.full((ng, len(V)), -1.0)
        OK = np.ones(len(V), bool)
        for k, (n, b, t, size, p, q, grp) in enumerate(SCENE_GEOMS):
            Pl, Vl = R.to_local(poses[k][0], poses[k][1], P, V)
            xk, _, ok, _ = R.stable(t, Pl, Vl, size, None, 1e-9, 1e-5)
            X[k] = xk
            OK &= ok
        for mk in masks:
            for fs in (0, 1):
                for be in (-1, 0, 1, 2, 3, 4):
                    passf = np.array([vis[k] and (SCENE_GEOMS[k][1] != be) and (fs or not STATIC_BODY[SCENE_GEOMS[k][1]])
                                      and (mk is None or mk[min(5, max(0, groups[k]))] != 0) for k in range(ng)])
                    Xf = np.where(passf[:, None] & (X >= 0), X, np.inf)
                    xr = Xf.min(axis=0)
                    kr = np.where(np.isfinite(xr), Xf.argmin(axis=0), -1)
                    xr = np.where(np.isfinite(xr), xr, -1.0)
                    # tie between two geoms (either id is right)
                    srt = np.sort(Xf, axis=0)
                    with np.errstate(invalid="ignore"):
                        tie = np.isfinite(srt[1]) & ((srt[1] - srt[0]) * vn < 1e-7)
                    md, mgid, mnr = c.multi(ow, V, mk, fs, be, BIG)
                    fkey = "mask=%s static=%d exclude=%d" % (None if mk is None else mk.tolist(), fs, be)
                    for i in range(len(V)):
                        if not OK[i]:
                            part.add("boundary_excluded")
                            continue
                        v = np.ascontiguousarray(V[i])
                        x, gid, nrm = c.ray(ow, v, mk, fs, be)
                        nontriv = kr[i] >= 0 and not passf.all()
                        part.count(1, key=(variant, qi, oi, i, fkey) if nontriv else None,
                                   sample={"variant": variant, "qpos": qi, "pnt": ow, "vec": v, "filter": fkey,
                                           "geom": int(kr[i]), "dist": float(xr[i])} if (nontriv and i == 3 and be == 2) else None)
                        part["outcomes"].add(int(kr[i]))
                        rp = {"xml": xml, "qpos": [ang] + list(fp) + list(fq), "pnt": ow, "vec": v, "filter": fkey,
                              "geom_group": groups, "expected": [float(xr[i]), int(kr[i])], "mj_ray": [x, gid]}
                        what = "mj_ray=(%.17g,%d) expected (%.17g,%d) [%s q%d %s] pnt=%s vec=%s" % (
                            x, gid, xr[i], kr[i], variant, qi, fkey, ow, v)
                        if (xr[i] >= 0) != (x >= 0):
                            part.violation("scene: hit/miss differs from min over geoms passing the filters (%s)"
                                           % ("engine misses" if xr[i] >= 0 else "engine hits a filtered/absent geom"), what, rp)
                        elif xr[i] >= 0 and abs(x - xr[i]) * vn[i] > TOL * (1 + xr[i] * vn[i]):
                            part.violation("scene: wrong distance", what, rp)
                        elif xr[i] >= 0 and gid != kr[i] and not tie[i]:
                            part.violation("scene: wrong geomid", what, rp)
                        if x < 0 and (gid != -1 or x != -1):
                            part.violation("scene: miss must be (-1, geomid -1)", what, rp)
                        if md[i] != x or mgid[i] != gid or np.any(mnr[i] != nrm):
                            sphere = gid >= 0 and (md[i] < 0 or md[i] > x) and classify_multi(m, d, gid, ow, v)
                            part.violation(K_MULTI_SPHERE if sphere else "scene: mj_multiRay != mj_ray",
                                           "multiRay=(%.17g,%d) mj_ray=(%.17g,%d) [%s q%d %s] pnt=%s vec=%s"
                                           % (md[i], mgid[i], x, gid, variant, qi, fkey, ow, v), dict(rp, multiRay=[md[i], int(mgid[i])]))
        # finite cutoff: geoms farther than cutoff may be ignored, nearer ones may not
        for cutoff in (0.7, 1.5):
            md, mgid, _ = c.multi(ow, V, None, 1, -1, cutoff)
            Xf = np.where(np.array(vis)[:, None] & (X >= 0), X, np.inf)
            xr = Xf.min(axis=0)
            for i in range(len(V)):
                if not OK[i]:
                    continue
                part.count(1)
                rp = {"xml": xml, "qpos": [ang] + list(fp) + list(fq), "pnt": ow, "vec": V[i], "cutoff": cutoff}
                if np.isfinite(xr[i]) and xr[i] * vn[i] <= cutoff * (1 - 1e-9):
                    if abs(md[i] - xr[i]) * vn[i] > TOL * (1 + xr[i] * vn[i]):
                        kw = int(Xf[:, i].argmin())
                        sphere = (md[i] < 0 or md[i] > xr[i]) and classify_multi(m, d, kw, ow, np.ascontiguousarray(V[i]))
                        part.violation(K_MULTI_SPHERE if sphere else "scene: mj_multiRay with cutoff drops/changes a hit nearer than cutoff",
                                       "multiRay=%.17g expected %.17g cutoff=%g pnt=%s vec=%s" % (md[i], xr[i], cutoff, ow, V[i]), rp)
                elif md[i] >= 0 and md[i] * vn[i] < cutoff * (1 - 1e-9):
                    part.violation("scene: mj_multiRay with cutoff reports a hit nearer than any geom",
                                   "multiRay=%.17g but nearest is %s" % (md[i], xr[i]), rp)
    d.free()
    m.free()


def zero_vec_probe(lib, part):
    """mj_multiRay with a zero-length direction among the rays: (-1, geomid -1) is the only admissible answer."""
    xml = A.mjcf('<geom name="g" type="sphere" size="0.3" pos="0 0 1"/>')
    m = lib.load_xml(xml)
    d = lib.make_data(m)
    lib.mj_kinematics(m, d)
    c = Caster(lib, m, d, 8)
    V = np.array([[0, 0, 1.0], [0, 0, 0.0], [0, 0, 1.0]])
    md, mg, mn = c.multi(np.zeros(3), V, None, 1, -1, BIG)
    part.count(1)
    if not (md[1] == -1 and mg[1] == -1 and np.all(mn[1] == 0)):
        part.violation("mj_multiRay: zero-length vec leaves geomid/normal unset",
                       "ray 1 has zero length: dist=%g geomid=%d (prefilled 77) normal=%s (prefilled 9)" % (md[1], mg[1], mn[1]),
                       {"xml": xml, "pnt": [0, 0, 0], "vec": V})
    if not (abs(md[0] - 0.7) < 1e-12 and mg[0] == 0 and md[2] == md[0]):
        part.violation("mj_multiRay: rays next to a zero-length vec are wrong", "dist=%s geomid=%s" % (md, mg), {"xml": xml})
    d.free()
    m.free()


class DPart(core.Part):
    """Part that keeps only the first violation per key (a worker may see thousands of instances of one root cause)."""

    def violation(self, key, what, replay=None):
        if any(v["key"] == key for v in self["violations"]):
            self.add("violating_cases")
            return
        self.add("violating_cases")
        core.Part.violation(self, key, what, replay)


def _chunk(chunk):
    lib = mj.load()
    part = DPart()
    for kind, item, thorough in chunk:
        try:
            if kind == "single":
                single_item(lib, part, item, thorough)
            elif kind == "scene":
                scene_item(lib, part, item, thorough)
            else:
                zero_vec_probe(lib, part)
        except mj.MjError as e:
            part.violation("engine error (%s)" % kind, "unexpected mju_error / compile error: %s on %r" % (e, item if kind != "single" else item[:2]),
                           {"item": repr(item)[:500]})
    part["outcomes"] = set(part["outcomes"])
    return part


def run(ctx):
    mj.load()
    items = []
    for (gtype, label, size, extra) in geom_menu(ctx.thorough):
        for pi in range(len(POSES)):
            items.append(("single", (gtype, label, size, extra, pi), ctx.thorough))
    nsingle = len(items)
    for variant in VARIANTS:
        for qi in range(len(QPOS)):
            items.append(("scene", (variant, qi, None), ctx.thorough))
    # group id clamp: ids outside [0, mjNGROUP-1] written into the compiled model
    items.append(("scene", ("opaque", 1, {1: 7, 3: -2, 5: 6}), ctx.thorough))
    items.append(("zero", None, ctx.thorough))
    core.pmap(ctx, _chunk, items, nchunks=len(items))
    ctx.extra["single_geom_models"] = nsingle
    ctx.extra["scene_models"] = len(items) - nsingle - 1
    ctx.extra["distinct_scene_winners"] = len(ctx.outcomes)
    ctx.rule = ("A: {plane inf/rect, sphere, capsule, ellipsoid, cylinder, box} x 2 sizes, hfield x 2, meshes %s, each x 3 poses "
                "(identity; 90deg body o 90deg geom; generic o generic) x origins {centre, 8 local directions x fractions "
                "{.5, 1-eps, 1+eps, 1.6, 4} of the surface radius} (plane: 3 xy x 5 heights; hfield: outside only) x "
                "{26 cube directions, %d generic, 3 near-axis (components 1e-4), aimed at centre, aimed off-centre} x |vec| in {1, .5, 3}; "
                "B: 6-geom 5-body scene x 3 configurations x 4 alpha variants (+1 group-clamp variant) x all geomgroup masks over "
                "used groups + NULL x flg_static x bodyexclude in {-1,0..4} x 7 (10) origins x {26 + generic + aimed at each geom}; "
                "mj_multiRay vs mj_ray on every batch, cutoff in {.7,1.5}. non-trivial = the reference reports a hit "
                "(A) / a hit while at least one geom is filtered (B)" % ([n for n, _, _ in mesh_menu(ctx.thorough)], 6 if ctx.thorough else 3))
    ctx.assumptions = [
        "plane: one-sided, limited to its rendered rectangle when a half-size is positive (renderer convention; undocumented for rays)",
        "static geom = geom of a body welded to the world (no joint up to the world)",
        "hfield origins outside the solid only; reference = base box + top triangles + side walls",
        "tolerance 1e-8 (doubles) / 2e-5 (float32 mesh & hfield data) relative to 1+distance; normals 1e-6 / 1e-4",
        "a ray is boundary-excluded when the reference answer changes (hit<->miss, or by >1e-5 / 1e-4) within a 1e-9 / 1e-6 "
        "perturbation of origin or direction"]
