"""C06 Inertia, bias force and inverse dynamics are mutually consistent.

Enumerates ALL rooted ordered forests with <= N bodies x the joint menu per body
(full product) x armature on/off x a tendon with armature, each at a covering
lattice of configurations / velocities, and compares the engine with an
independent numpy reference:  M == sum_b Jp_b' m_b Jp_b + Jr_b' I_b Jr_b
+ diag(armature) + Jten' a Jten ; M symmetric positive definite; L'DL solve
inverts M; mulM/fullM agree; qfrc_bias == rne(acc=0); rne(acc=a) == M a + bias.
"""
import itertools

import numpy as np

from .. import alphabet as A
from .. import core, mj
from ..mjutil import dense, relerr

LEVEL = "exploration"
META = dict(
    category=LEVEL,
    technique="exhaustive enumeration of all kinematic forests <= N bodies x joint menu (small-scope lattice), numpy reference model",
    text="Every rooted ordered forest with <=3 (thorough 4) bodies x every assignment of the 7-entry joint menu "
         "x armature/tendon-armature toggles is compiled by the tree's compiler and evaluated on a configuration/velocity "
         "lattice; the joint-space inertia, its factorisation, bias forces and recursive Newton-Euler are compared with an "
         "independent dense reference built from body Jacobians. Exhaustive over the lattice: branching/sparsity-pattern "
         "errors that only appear for some tree shapes cannot hide.",
    note="Reference uses the engine's own Jacobians (their consistency with positions is C07) and body inertias from the "
         "compiled model; tolerance 1e-9 relative (observed noise ~1e-15).",
    design_ref="DESIGN.md §3 C06")

TOL = 1e-9


def models(nmax, menu):
    for par in A.all_forests(nmax):
        roots = [p == -1 for p in par]
        doms = [A.joint_menu(r, menu) for r in roots]
        for js in itertools.product(*doms):
            if all(j == "none" for j in js):
                continue
            yield par, js


def check_model(lib, part, par, js, variant):
    arm, tenarm = variant[:2]
    simple = variant[2] if len(variant) > 2 else 0
    n = len(par)
    # distinct armature per body: an armature read through the wrong index (joint id vs dof id) must show
    jattr = ['armature="%g"' % (0.013 * (i + 1)) for i in range(n)] if arm else ""
    sections = ""
    # fixed tendon over the first two scalar joints (if any) with armature
    scal = []
    for i, j in enumerate(js):
        for k, (jt, _) in enumerate(A.JOINTS[j]):
            if jt in ("hinge", "slide"):
                scal.append("j%d_%d" % (i, k))
    if tenarm:
        if len(scal) < 2:
            return
        sections = ('<tendon><fixed name="t0" armature="0.021"><joint joint="%s" coef="1.3"/><joint joint="%s" coef="-0.7"/>'
                    '</fixed></tendon>\n' % (scal[0], scal[1]))
    if simple:
        # layout that the compiler classifies as "simple" (body_simple / dof_simplenum fast paths of mj_crb, mj_setM0,
        # mj_factorM): inertial frame == body frame, joint at the body origin, axis-aligned joint axes
        xml = A.tree_mjcf(par, list(js), axis=[i % 2 for i in range(n)], anchor=0,
                          frame=[1 + i % 2 for i in range(n)], geom=["sphere", "box", "ellipsoid"][simple % 3],
                          jattr=jattr, sections=sections, gpose="")
    else:
        xml = A.tree_mjcf(par, list(js), axis=[i % 3 for i in range(n)], anchor=[(i + 1) % 2 for i in range(n)],
                          frame=[1 + i % 2 for i in range(n)], geom=[A.GEOM_ORDER[i % 5] for i in range(n)],
                          jattr=jattr, sections=sections)
    m = lib.load_xml(xml)
    d = lib.make_data(m)
    nv = m.nv
    qs = A.qpos_lattice(m, limit=12)
    vs = A.qvel_lattice(nv, units=False)
    key = (par, js, variant)
    if simple:
        part.add("models_with_simple_bodies", int(np.any(np.array(m.body_simple) > 0)))
        part.add("dofs_with_simplenum", int(np.sum(np.array(m.dof_simplenum) > 0)))
    branching = len(set(par)) < len(par) and nv >= 3
    for qi, q in enumerate(qs):
        for vi, v in enumerate(vs):
            d.qpos[:] = q
            d.qvel[:] = v
            lib.mj_forward(m, d)
            part.count(1, key=(key, qi, vi) if (branching or nv >= 4) else None,
                       sample={"parents": par, "joints": js, "armature": arm, "tendon_armature": tenarm, "qpos": q} if qi == 1 and vi == 1 else None)
            M = np.zeros((nv, nv))
            lib.mj_fullM(m, d, M)
            # reference inertia
            Mref = np.diag(np.array(m.dof_armature, float))
            for b in range(1, m.nbody):
                jp = np.zeros((3, nv))
                jr = np.zeros((3, nv))
                lib.mj_jacBodyCom(m, d, jp, jr, b)
                R = d.ximat[b].reshape(3, 3)
                Iw = R @ np.diag(m.body_inertia[b]) @ R.T
                Mref += m.body_mass[b] * jp.T @ jp + jr.T @ Iw @ jr
            Mref_inpattern = None
            if m.ntendon:
                Jt = dense(m.ten_J_rownnz, m.ten_J_rowadr, m.ten_J_colind, d.ten_J, m.ntendon, nv)
                Mten = Jt.T @ np.diag(m.tendon_armature) @ Jt
                # sparsity pattern of the engine's M (ancestor chains), symmetrised
                pat = dense(m.M_rownnz, m.M_rowadr, m.M_colind, np.ones(m.nC), nv, nv) > 0
                pat = pat | pat.T
                Mref_inpattern = Mref + np.where(pat, Mten, 0.0)
                Mref = Mref + Mten
            ctx = "parents=%s joints=%s armature=%s tendon=%s simple=%s state=(%d,%d)" % (par, js, arm, tenarm, simple, qi, vi)
            rp = {"xml": xml, "qpos": q, "qvel": v}

            def bad(name, err):
                part.violation("%s parents=%s joints=%s arm=%s ten=%s%s" % (name, par, js, arm, tenarm, " simple=%d" % simple if simple else ""),
                               "%s: rel err %.3g at %s" % (name, err, ctx), rp)
            e = relerr(M, M.T)
            if e > TOL:
                bad("M not symmetric", e)
            e = relerr(M, Mref)
            if e > TOL:
                if Mref_inpattern is not None and relerr(M, Mref_inpattern) <= TOL:
                    # one root cause, one key: the sparse M cannot hold the coupling, mj_tendonArmature drops it
                    part.violation("tendon armature: cross terms between dofs that are not ancestor-related are dropped from M",
                                   "M lacks armature*J_ten'J_ten entries outside its ancestor sparsity pattern (rel err %.3g) at %s" % (e, ctx), rp)
                else:
                    bad("M != sum J'IJ + armature", e)
            try:
                np.linalg.cholesky(M)
            except np.linalg.LinAlgError:
                bad("M not positive definite", float("inf"))
            # mulM vs fullM, solveM inverts
            I = np.eye(nv)
            MM = np.zeros((nv, nv))
            for i in range(nv):
                r = np.zeros(nv)
                lib.mj_mulM(m, d, r, np.ascontiguousarray(I[i]))
                MM[:, i] = r
            e = relerr(MM, M)
            if e > TOL:
                bad("mulM != fullM", e)
            X = np.zeros((nv, nv))
            lib.mj_solveM(m, d, X, np.ascontiguousarray(MM.T), nv)
            e = relerr(X, I, atol=1.0)
            if e > 1e-7:
                bad("solveM(mulM(e_i)) != e_i", e)
            # bias == rne(0); rne(acc) == M a + bias
            bias = np.array(d.qfrc_bias)
            r0 = np.zeros(nv)
            lib.mj_rne(m, d, 0, r0)
            e = relerr(r0, bias)
            if e > TOL:
                bad("qfrc_bias != rne(acc=0)", e)
            qacc_save = np.array(d.qacc)
            Mrne = np.zeros((nv, nv))
            for i in range(nv):
                d.qacc[:] = I[i]
                r1 = np.zeros(nv)
                lib.mj_rne(m, d, 1, r1)
                Mrne[:, i] = r1 - bias
            d.qacc[:] = qacc_save
            # rne does not include armature / tendon armature
            Mnoarm = Mref - np.diag(np.array(m.dof_armature, float))
            if m.ntendon:
                Mnoarm = Mnoarm - Jt.T @ np.diag(m.tendon_armature) @ Jt
            e = relerr(Mrne, Mnoarm, atol=1e-9)
            if e > 1e-8:
                bad("rne(acc=e_i) - bias != M e_i (without armature)", e)
    d.free()
    m.free()


def _chunk(chunk):
    lib = mj.load()
    part = core.Part()
    for par, js, variant in chunk:
        try:
            check_model(lib, part, par, js, variant)
        except mj.MjError as e:
            part.violation("engine error parents=%s joints=%s" % (par, js), "unexpected mju_error/compile error: %s" % e,
                           {"parents": par, "joints": js, "variant": variant})
    return part


def run(ctx):
    mj.load()
    nmax = ctx.q(3, 4)
    menu = None if not ctx.thorough else ["none", "hinge", "slide", "ball", "free", "hinge2"]
    items = []
    for par, js in models(nmax, menu):
        for variant in ((0, 0), (1, 0), (1, 1), (1, 0, 1), (0, 0, 2)):
            items.append((par, js, variant))
    core.pmap(ctx, _chunk, items, nchunks=64)
    ctx.extra["models"] = len(items)
    ctx.rule = ("all rooted ordered forests with <=%d bodies x full product of the joint menu %s per body (free only on roots) x "
                "{no armature, per-body distinct joint armature, joint+tendon armature, 'simple' layout (inertial frame = body "
                "frame, joints at the origin, axis-aligned: body_simple / dof_simplenum fast paths) with and without armature}; per model a covering lattice of <=12 configurations "
                "(scalars {0,.37,-1.3}, quaternions {id, 90deg, (.5,.5,.5,.5), pi-1e-9}) x {zero, mixed} velocity. "
                "non-trivial = (model,state) with a branching tree and nv>=3, or nv>=4" % (nmax, menu or list(A.JOINTS)))
    ctx.assumptions = ["reference built from mj_jacBodyCom and compiled body_mass/body_inertia (C07/C35 cover those)",
                       "tolerance 1e-9 relative; 1e-7 for solveM round trip"]


def replay(ctx, path):
    """Re-evaluate one recorded model: ./check C06 --replay <file>"""
    import json as _json
    import re as _re
    rec = _json.load(open(path))
    mm = _re.search(r"parents=(\(.*?\)) joints=(\(.*?\)) arm(?:ature)?=(\d) ten(?:don)?=(\d)(?: simple=(\d))?", rec["key"] + " " + rec["what"])
    if not mm:
        print("cannot parse the case from", path)
        return 2
    par, js = eval(mm.group(1)), eval(mm.group(2))
    part = core.Part()
    check_model(mj.load(), part, par, js, (int(mm.group(3)), int(mm.group(4)), int(mm.group(5) or 0)))
    for v in part["violations"]:
        print("VIOLATION", v["key"], "|", v["what"])
    return 1 if part["violations"] else 0
