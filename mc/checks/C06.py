"""C06 Inertia, bias force and inverse dynamics are mutually consistent.

Enumerates ALL rooted ordered forests with <= N bodies x the joint menu per body
(full product) x armature on/off x a tendon with armature, each at a covering
lattice of configurations / velocities, and compares the engine with an
independent numpy reference:  M == sum_b Jp_b' m_b Jp_b + Jr_b' I_b Jr_b
+ diag(armature) + Jten' a Jten ; M symmetric positive definite; L'DL solve
inverts M; mulM/fullM agree; qfrc_bias == rne(acc=0); rne(acc=a) == M a + bias.

Spatial-tendon part.  Tendon armature a adds the kinetic energy 1/2 a (J v)^2 (XMLreference, tendon/spatial/armature), hence
a J'J to M and -- because J depends on the configuration -- the bias force a J' (Jdot v) on top of Newton-Euler.  A fixed tendon
has a constant J, so the family above never exercises that term.  The family is therefore extended by site-routed tendons with
armature: path {w0-s_a-s_b, w0-s_a-<pulley divisor 1.7>-w1-s_b} over body pairs (a, b) (w0, w1 world sites, s_i the site of
body i; thorough: every ordered pair, quick: the covering set of spatial_pairs) x Jacobian {dense, sparse} x armature source {tendon attribute, tendon attribute + actuator armature
reflected through gear^2}, on all forests with <= N-1 bodies x the full joint menu product and on all forests with N bodies x a
covering joint assignment.  Oracle: M == sum J'IJ + armature + a_eff J_ten'J_ten (a_eff from the documented sum), symmetric
positive definite, mulM / solveM agree with it, and qfrc_bias == rne(acc=0) + sum_t a_eff J_t' (Jdot_t v) where Jdot_t v is the
central difference of J_t(q (+) h v) v along the flow of the lattice velocity (own quaternion exponential), h = 1e-6.
"""
import itertools

import numpy as np

from .. import alphabet as A
from .. import core, mj
from ..mjutil import dense, relerr
from . import _c05_util as U

LEVEL = "exploration"
META = dict(
    category=LEVEL,
    technique="exhaustive enumeration of all kinematic forests <= N bodies x joint menu (small-scope lattice), numpy reference model",
    text="Every rooted ordered forest with <=3 (thorough 4) bodies x every assignment of the 7-entry joint menu "
         "x armature/tendon-armature toggles is compiled by the tree's compiler and evaluated on a configuration/velocity "
         "lattice; the joint-space inertia, its factorisation, bias forces and recursive Newton-Euler are compared with an "
         "independent dense reference built from body Jacobians. Exhaustive over the lattice: branching/sparsity-pattern "
         "errors that only appear for some tree shapes cannot hide. A second family of site-routed (spatial) tendons with armature "
         "(with/without pulley, dense/sparse Jacobian, armature from the tendon or reflected from an actuator) covers the "
         "configuration-dependent tendon Jacobian: inertia term a J'J and the velocity-dependent bias a J'(Jdot v), the latter against "
         "central differences of J v along the velocity flow.",
    note="Reference uses the engine's own Jacobians (their consistency with positions is C07) and body inertias from the "
         "compiled model; tolerance 1e-9 relative (observed noise ~1e-15).",
    design_ref="DESIGN.md §3 C06")

TOL = 1e-9
FD_H = 1e-6              # step of the central difference of J_ten v along the velocity flow
TOL_TENBIAS = 1e-6        # observed noise of the finite-difference reference <= 2e-9 (relative, atol 1e-3)
PULLEY_DIV = 1.7
MIN_SEGMENT = 1e-2        # m; states in which a tendon segment is shorter are on the discontinuity of the tendon Jacobian
TEN_ARM = 0.35            # spatial tendon armature (source "tendon")
TEN_ARM_SPLIT = (0.15, 0.09, 1.5)   # source "actuator": tendon attribute, actuator armature, actuator gear
WORLD_SITES = '    <site name="w0" pos="-0.3 0.2 0.4"/>\n    <site name="w1" pos="0.5 -0.3 0.6"/>\n'
SPATIAL_VARIANTS = [(kind, jac, src) for kind in ("open", "pulley") for jac in ("dense", "sparse") for src in ("tendon", "actuator")]
# quick tier: the armature source only scales one scalar shared by M and the bias, independent of the path and of the Jacobian
# layout -- it is paired with the other two dimensions by a covering design instead of the full product
SPATIAL_VARIANTS_QUICK = [(kind, jac, "tendon") for kind in ("open", "pulley") for jac in ("dense", "sparse")] + [
    ("pulley", "dense", "actuator"), ("open", "sparse", "actuator")]


def models(nmax, menu):
    for par in A.all_forests(nmax):
        roots = [p == -1 for p in par]
        doms = [A.joint_menu(r, menu) for r in roots]
        for js in itertools.product(*doms):
            if all(j == "none" for j in js):
                continue
            yield par, js


def check_model(lib, part, par, js, variant):
    arm, tenarm = variant[:2]
    simple = variant[2] if len(variant) > 2 else 0
    n = len(par)
    # distinct armature per body: an armature read through the wrong index (joint id vs dof id) must show
    jattr = ['armature="%g"' % (0.013 * (i + 1)) for i in range(n)] if arm else ""
    sections = ""
    # fixed tendon over the first two scalar joints (if any) with armature
    scal = []
    for i, j in enumerate(js):
        for k, (jt, _) in enumerate(A.JOINTS[j]):
            if jt in ("hinge", "slide"):
                scal.append("j%d_%d" % (i, k))
    if tenarm:
        if len(scal) < 2:
            return
        sections = ('<tendon><fixed name="t0" armature="0.021"><joint joint="%s" coef="1.3"/><joint joint="%s" coef="-0.7"/>'
                    '</fixed></tendon>\n' % (scal[0], scal[1]))
    if simple:
        # layout that the compiler classifies as "simple" (body_simple / dof_simplenum fast paths of mj_crb, mj_setM0,
        # mj_factorM): inertial frame == body frame, joint at the body origin, axis-aligned joint axes
        xml = A.tree_mjcf(par, list(js), axis=[i % 2 for i in range(n)], anchor=0,
                          frame=[1 + i % 2 for i in range(n)], geom=["sphere", "box", "ellipsoid"][simple % 3],
                          jattr=jattr, sections=sections, gpose="")
    else:
        xml = A.tree_mjcf(par, list(js), axis=[i % 3 for i in range(n)], anchor=[(i + 1) % 2 for i in range(n)],
                          frame=[1 + i % 2 for i in range(n)], geom=[A.GEOM_ORDER[i % 5] for i in range(n)],
                          jattr=jattr, sections=sections)
    m = lib.load_xml(xml)
    d = lib.make_data(m)
    nv = m.nv
    qs = A.qpos_lattice(m, limit=12)
    vs = A.qvel_lattice(nv, units=False)
    key = (par, js, variant)
    if simple:
        part.add("models_with_simple_bodies", int(np.any(np.array(m.body_simple) > 0)))
        part.add("dofs_with_simplenum", int(np.sum(np.array(m.dof_simplenum) > 0)))
    branching = len(set(par)) < len(par) and nv >= 3
    for qi, q in enumerate(qs):
        for vi, v in enumerate(vs):
            d.qpos[:] = q
            d.qvel[:] = v
            lib.mj_forward(m, d)
            part.count(1, key=(key, qi, vi) if (branching or nv >= 4) else None,
                       sample={"parents": par, "joints": js, "armature": arm, "tendon_armature": tenarm, "qpos": q} if qi == 1 and vi == 1 else None)
            M = np.zeros((nv, nv))
            lib.mj_fullM(m, d, M)
            # reference inertia
            Mref = np.diag(np.array(m.dof_armature, float))
            for b in range(1, m.nbody):
                jp = np.zeros((3, nv))
                jr = np.zeros((3, nv))
                lib.mj_jacBodyCom(m, d, jp, jr, b)
                R = d.ximat[b].reshape(3, 3)
                Iw = R @ np.diag(m.body_inertia[b]) @ R.T
                Mref += m.body_mass[b] * jp.T @ jp + jr.T @ Iw @ jr
            Mref_inpattern = None
            if m.ntendon:
                Jt = dense(m.ten_J_rownnz, m.ten_J_rowadr, m.ten_J_colind, d.ten_J, m.ntendon, nv)
                Mten = Jt.T @ np.diag(m.tendon_armature) @ Jt
                # sparsity pattern of the engine's M (ancestor chains), symmetrised
                pat = dense(m.M_rownnz, m.M_rowadr, m.M_colind, np.ones(m.nC), nv, nv) > 0
                pat = pat | pat.T
                Mref_inpattern = Mref + np.where(pat, Mten, 0.0)
                Mref = Mref + Mten
            ctx = "parents=%s joints=%s armature=%s tendon=%s simple=%s state=(%d,%d)" % (par, js, arm, tenarm, simple, qi, vi)
            rp = {"xml": xml, "qpos": q, "qvel": v}

            def bad(name, err):
                part.violation("%s parents=%s joints=%s arm=%s ten=%s%s" % (name, par, js, arm, tenarm, " simple=%d" % simple if simple else ""),
                               "%s: rel err %.3g at %s" % (name, err, ctx), rp)
            e = relerr(M, M.T)
            if e > TOL:
                bad("M not symmetric", e)
            e = relerr(M, Mref)
            if e > TOL:
                if Mref_inpattern is not None and relerr(M, Mref_inpattern) <= TOL:
                    # one root cause, one key: the sparse M cannot hold the coupling, mj_tendonArmature drops it
                    part.violation("tendon armature: cross terms between dofs that are not ancestor-related are dropped from M",
                                   "M lacks armature*J_ten'J_ten entries outside its ancestor sparsity pattern (rel err %.3g) at %s" % (e, ctx), rp)
                else:
                    bad("M != sum J'IJ + armature", e)
            try:
                np.linalg.cholesky(M)
            except np.linalg.LinAlgError:
                bad("M not positive definite", float("inf"))
            # mulM vs fullM, solveM inverts
            I = np.eye(nv)
            MM = np.zeros((nv, nv))
            for i in range(nv):
                r = np.zeros(nv)
                lib.mj_mulM(m, d, r, np.ascontiguousarray(I[i]))
                MM[:, i] = r
            e = relerr(MM, M)
            if e > TOL:
                bad("mulM != fullM", e)
            X = np.zeros((nv, nv))
            lib.mj_solveM(m, d, X, np.ascontiguousarray(MM.T), nv)
            e = relerr(X, I, atol=1.0)
            if e > 1e-7:
                bad("solveM(mulM(e_i)) != e_i", e)
            # bias == rne(0); rne(acc) == M a + bias
            bias = np.array(d.qfrc_bias)
            r0 = np.zeros(nv)
            lib.mj_rne(m, d, 0, r0)
            e = relerr(r0, bias)
            if e > TOL:
                bad("qfrc_bias != rne(acc=0)", e)
            qacc_save = np.array(d.qacc)
            Mrne = np.zeros((nv, nv))
            for i in range(nv):
                d.qacc[:] = I[i]
                r1 = np.zeros(nv)
                lib.mj_rne(m, d, 1, r1)
                Mrne[:, i] = r1 - bias
            d.qacc[:] = qacc_save
            # rne does not include armature / tendon armature
            Mnoarm = Mref - np.diag(np.array(m.dof_armature, float))
            if m.ntendon:
                Mnoarm = Mnoarm - Jt.T @ np.diag(m.tendon_armature) @ Jt
            e = relerr(Mrne, Mnoarm, atol=1e-9)
            if e > 1e-8:
                bad("rne(acc=e_i) - bias != M e_i (without armature)", e)
    d.free()
    m.free()


def spatial_xml(par, js, sp):
    a, b, kind, jac, src = sp
    n = len(par)
    if kind == "open":
        path = '<site site="w0"/><site site="s%d"/>' % a + ('<site site="s%d"/>' % b if b != a else "")
    else:
        path = '<site site="w0"/><site site="s%d"/><pulley divisor="%g"/><site site="w1"/><site site="s%d"/>' % (a, PULLEY_DIV, b)
    if src == "tendon":
        sections = '<tendon><spatial name="t0" armature="%g">%s</spatial></tendon>\n' % (TEN_ARM, path)
    else:
        sections = ('<tendon><spatial name="t0" armature="%g">%s</spatial></tendon>\n'
                    '<actuator><general name="a0" tendon="t0" gear="%g" armature="%g"/></actuator>\n' % (
                        TEN_ARM_SPLIT[0], path, TEN_ARM_SPLIT[2], TEN_ARM_SPLIT[1]))
    return A.tree_mjcf(par, list(js), axis=[i % 3 for i in range(n)], anchor=[(i + 1) % 2 for i in range(n)],
                       frame=[1 + i % 2 for i in range(n)], geom=[A.GEOM_ORDER[i % 5] for i in range(n)],
                       jattr=['armature="%g"' % (0.013 * (i + 1)) for i in range(n)], sections=sections,
                       world_extra=WORLD_SITES, option=A.option_elem(jacobian=jac))


def check_spatial(lib, part, par, js, sp):
    """one model of the spatial-tendon part: inertia with the tendon-armature term and the velocity-dependent tendon bias"""
    a, b, kind, jac, src = sp
    xml = spatial_xml(par, js, sp)
    m = lib.load_xml(xml)
    d = lib.make_data(m)
    mi = U.MInfo(m)
    nv = m.nv
    # documented effective armature: tendon attribute + sum over actuators on the tendon of armature * gear^2
    a_eff = np.array(m.tendon_armature, float).copy()
    if src == "actuator":
        a_eff[0] += TEN_ARM_SPLIT[1] * TEN_ARM_SPLIT[2] ** 2
    pat = dense(m.M_rownnz, m.M_rowadr, m.M_colind, np.ones(m.nC), nv, nv) > 0
    pat = pat | pat.T
    vmix = A.qvel_lattice(nv, units=False)[-1]
    tag = "spatial=(%d,%d,%s,%s,%s)" % sp
    part.add("spatial_models")
    part.add("spatial_models_pulley_dense", int(kind == "pulley" and jac == "dense"))

    def tenJ():
        return dense(m.ten_J_rownnz, m.ten_J_rowadr, m.ten_J_colind, d.ten_J, m.ntendon, nv)
    # site ids of the path segments, read back from the compiled wrap arrays (mjWRAP_SITE = 3; a pulley separates branches)
    wt, wo = [int(x) for x in m.wrap_type], [int(x) for x in m.wrap_objid]
    segs = [(wo[i], wo[i + 1]) for i in range(len(wt) - 1) if wt[i] == 3 and wt[i + 1] == 3]
    for qi, q in enumerate(A.qpos_lattice(m, limit=12)):
        d.qpos[:] = q
        d.qvel[:] = 0
        lib.mj_forward(m, d)
        sx = np.array(d.site_xpos).reshape(-1, 3)
        if min(float(np.linalg.norm(sx[i] - sx[j])) for i, j in segs) < MIN_SEGMENT:
            # a segment of zero length has no direction: the tendon Jacobian is discontinuous there (two bodies of the lattice
            # share a frame, so their sites coincide in some configurations)
            part.add("boundary_excluded")
            continue
        # Jdot v by central differences of J(q (+) h v) v along the flow of v
        jv = []
        for sgn in (1, -1):
            d.qpos[:] = U.integrate_pos(mi, q, vmix, sgn * FD_H)
            d.qvel[:] = vmix
            lib.mj_forward(m, d)
            jv.append(tenJ() @ vmix)
        jdotv = (jv[0] - jv[1]) / (2 * FD_H)
        for vi, v in enumerate((np.zeros(nv), vmix)):
            d.qpos[:] = q
            d.qvel[:] = v
            lib.mj_forward(m, d)
            Jt = tenJ()
            moving = bool(vi) and float(np.max(np.abs(Jt.T @ (a_eff * jdotv)))) > 1e-3
            part.count(1, key=(par, js, sp, qi) if moving else None,
                       sample={"parents": par, "joints": js, "spatial": sp, "qpos": q, "qvel": v} if qi == 1 and vi == 1 else None)
            part.add("spatial_states")
            part.add("spatial_states_nonzero_tendon_bias", int(moving))
            ctx = "parents=%s joints=%s %s state=(%d,%d)" % (par, js, tag, qi, vi)
            rp = {"xml": xml, "qpos": q, "qvel": v}

            def bad(name, err):
                part.violation("%s parents=%s joints=%s arm=1 ten=1 %s" % (name, par, js, tag), "%s: rel err %.3g at %s" % (name, err, ctx), rp)
            if vi == 0:
                # inertia (depends on the configuration only; checked once per configuration)
                M = np.zeros((nv, nv))
                lib.mj_fullM(m, d, M)
                Mref = np.diag(np.array(m.dof_armature, float))
                for bb in range(1, m.nbody):
                    jp = np.zeros((3, nv))
                    jr = np.zeros((3, nv))
                    lib.mj_jacBodyCom(m, d, jp, jr, bb)
                    R = d.ximat[bb].reshape(3, 3)
                    Mref += m.body_mass[bb] * jp.T @ jp + jr.T @ (R @ np.diag(m.body_inertia[bb]) @ R.T) @ jr
                Mten = Jt.T @ np.diag(a_eff) @ Jt
                e = relerr(M, M.T)
                if e > TOL:
                    bad("M not symmetric", e)
                e = relerr(M, Mref + Mten)
                if e > TOL:
                    if relerr(M, Mref + np.where(pat, Mten, 0.0)) <= TOL:
                        part.violation("tendon armature: cross terms between dofs that are not ancestor-related are dropped from M",
                                       "M lacks armature*J_ten'J_ten entries outside its ancestor sparsity pattern (rel err %.3g) at %s" % (e, ctx), rp)
                    else:
                        bad("M != sum J'IJ + armature", e)
                try:
                    np.linalg.cholesky(M)
                except np.linalg.LinAlgError:
                    bad("M not positive definite", float("inf"))
                w = np.ascontiguousarray(vmix)
                r = np.zeros(nv)
                lib.mj_mulM(m, d, r, w)
                e = relerr(r, M @ w)
                if e > TOL:
                    bad("mulM != fullM", e)
                x = np.zeros(nv)
                lib.mj_solveM(m, d, x, np.ascontiguousarray(r), 1)
                e = relerr(x, w, atol=1.0)
                if e > 1e-7:
                    bad("solveM(mulM(e_i)) != e_i", e)
            # bias force: Newton-Euler at zero acceleration + tendon-armature term a J' (Jdot v)
            bias = np.array(d.qfrc_bias)
            r0 = np.zeros(nv)
            lib.mj_rne(m, d, 0, r0)
            ref = r0 + (Jt.T @ (a_eff * jdotv) if vi else 0.0)
            e = relerr(bias, ref, atol=1e-3)
            if e > TOL_TENBIAS:
                bad("qfrc_bias != rne(acc=0) + armature*J_ten'*(Jdot_ten v)", e)
    d.free()
    m.free()


def spatial_pairs(n, kind, full):
    """body pairs (a, b) of a path.  full: every ordered pair.  Otherwise a covering set: the two branches of a pulley path
    contribute independent terms (one per segment), so every body appears once in each branch: (i, i+1 mod n); the open path
    w0-s_a-s_b has the segment s_a-s_b, so every unordered pair a < b, plus a == b (path w0-s_a)."""
    if full:
        return [(a, b) for a in range(n) for b in range(n)]
    if kind == "pulley":
        return [(i, (i + 1) % n) for i in range(n)]
    return [(a, b) for a in range(n) for b in range(a, n)]


def spatial_items(nfull, ncover, menu, variants, full_pairs):
    """(par, js, (a, b, kind, jac, src)): forests with <= nfull bodies x full joint menu product, forests with exactly ncover bodies
    x covering joint assignment (body i takes menu entry (k+i) mod |menu_i|, k = 0..|menu|-1); body pairs (a, b) from spatial_pairs
    x every path/Jacobian/armature-source variant (for a == b the open path is w0-s_a)."""
    fam = list(models(nfull, menu))
    mm = menu or list(A.JOINTS)
    for par in A.forests(ncover):
        doms = [A.joint_menu(p == -1, menu) for p in par]
        seen = set()
        for k in range(len(mm)):
            js = tuple(dm[(k + i) % len(dm)] for i, dm in enumerate(doms))
            if js not in seen and not all(j == "none" for j in js):
                seen.add(js)
                fam.append((par, js))
    for par, js in fam:
        for kind, jac, src in variants:
            for a, b in spatial_pairs(len(par), kind, full_pairs):
                yield par, js, (a, b, kind, jac, src)


def _chunk(chunk):
    lib = mj.load()
    part = core.Part()
    for par, js, variant in chunk:
        if len(variant) == 5:
            try:
                check_spatial(lib, part, par, js, variant)
            except mj.MjError as e:
                part.violation("engine error parents=%s joints=%s spatial=%s" % (par, js, variant), "unexpected mju_error/compile error: %s" % e,
                               {"parents": par, "joints": js, "spatial": variant})
            continue
        try:
            check_model(lib, part, par, js, variant)
        except mj.MjError as e:
            part.violation("engine error parents=%s joints=%s" % (par, js), "unexpected mju_error/compile error: %s" % e,
                           {"parents": par, "joints": js, "variant": variant})
    return part


def run(ctx):
    mj.load()
    nmax = ctx.q(3, 4)
    menu = None if not ctx.thorough else ["none", "hinge", "slide", "ball", "free", "hinge2"]
    items = []
    for par, js in models(nmax, menu):
        for variant in ((0, 0), (1, 0), (1, 1), (1, 0, 1), (0, 0, 2)):
            items.append((par, js, variant))
    svar = ctx.q(SPATIAL_VARIANTS_QUICK, SPATIAL_VARIANTS)
    sitems = list(spatial_items(nmax - 1, nmax, menu, svar, ctx.thorough))
    # interleave so that every chunk gets its share of both parts
    step = max(1, len(items) // max(1, len(sitems)))
    merged = []
    si = iter(sitems)
    for i, it in enumerate(items):
        merged.append(it)
        if i % step == 0:
            merged.extend(x for x in [next(si, None)] if x is not None)
    merged.extend(si)
    core.pmap(ctx, _chunk, merged, nchunks=64)
    ctx.extra["models"] = len(items)
    ctx.extra["spatial_tendon_models"] = len(sitems)
    ctx.rule = ("all rooted ordered forests with <=%d bodies x full product of the joint menu %s per body (free only on roots) x "
                "{no armature, per-body distinct joint armature, joint+tendon armature, 'simple' layout (inertial frame = body "
                "frame, joints at the origin, axis-aligned: body_simple / dof_simplenum fast paths) with and without armature}; per model a covering lattice of <=12 configurations "
                "(scalars {0,.37,-1.3}, quaternions {id, 90deg, (.5,.5,.5,.5), pi-1e-9}) x {zero, mixed} velocity. "
                "non-trivial = (model,state) with a branching tree and nv>=3, or nv>=4. "
                "spatial-tendon part: all forests with <=%d bodies x full menu product + all forests with exactly %d bodies x covering joint "
                "assignment (body i takes menu entry (k+i) mod |menu|), each x body pairs (a,b) [%s] x site-routed tendon with armature "
                "{w0-s_a-s_b, w0-s_a-pulley(%g)-w1-s_b} x jacobian {dense,sparse} x armature source {tendon, tendon+actuator*gear^2} (variants %s), "
                "joint armature on; <=12 configurations x {zero, mixed} velocity; inertia with a_eff*J_ten'J_ten and "
                "qfrc_bias == rne(acc=0) + a_eff*J_ten'*(Jdot_ten v) with Jdot_ten v by central differences (h=%g) of J_ten v along the velocity flow; "
                "non-trivial there = state whose reference tendon bias exceeds 1e-3; states with a tendon segment shorter than %g m are excluded "
                "(boundary_excluded: direction of a zero-length segment undefined)" % (
                    nmax, menu or list(A.JOINTS), nmax - 1, nmax,
                    "every ordered pair" if ctx.thorough else "covering: pulley path (i, i+1 mod n), open path a <= b",
                    PULLEY_DIV, svar, FD_H, MIN_SEGMENT))
    ctx.assumptions = ["reference built from mj_jacBodyCom and compiled body_mass/body_inertia (C07/C35 cover those)",
                       "tolerance 1e-9 relative; 1e-7 for solveM round trip; 1e-6 (atol 1e-3) for the finite-difference tendon bias (noise <= 2e-9)",
                       "tendon Jacobian ten_J is the engine's (its consistency with ten_length is C07's subject); geom-wrapped tendons with armature "
                       "are rejected by mj_tendonDot (mjERROR 'geom wrapping not supported') and are not part of the family"]


def replay(ctx, path):
    """Re-evaluate one recorded model: ./check C06 --replay <file>"""
    import json as _json
    import re as _re
    rec = _json.load(open(path))
    ms = _re.search(r"parents=(\(.*?\)) joints=(\(.*?\)) .*?spatial=\((\d+),(\d+),(\w+),(\w+),(\w+)\)", rec["key"] + " " + rec["what"])
    if ms:
        part = core.Part()
        check_spatial(mj.load(), part, eval(ms.group(1)), eval(ms.group(2)),
                      (int(ms.group(3)), int(ms.group(4)), ms.group(5), ms.group(6), ms.group(7)))
        for v in part["violations"]:
            print("VIOLATION", v["key"], "|", v["what"])
        return 1 if part["violations"] else 0
    mm = _re.search(r"parents=(\(.*?\)) joints=(\(.*?\)) arm(?:ature)?=(\d) ten(?:don)?=(\d)(?: simple=(\d))?", rec["key"] + " " + rec["what"])
    if not mm:
        print("cannot parse the case from", path)
        return 2
    par, js = eval(mm.group(1)), eval(mm.group(2))
    part = core.Part()
    check_model(mj.load(), part, par, js, (int(mm.group(3)), int(mm.group(4)), int(mm.group(5) or 0)))
    for v in part["violations"]:
        print("VIOLATION", v["key"], "|", v["what"])
    return 1 if part["violations"] else 0
