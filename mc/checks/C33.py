"""C33 Compilation is deterministic and copy-invariant.

E1: for every model of an alphabet (kinematic trees x joint menus, models with 3 inline meshes + 2 builtin textures,
tendon / equality / actuator / sensor / keyframe features): compile twice, compile a deep copy (mj_copySpec),
mj_copyModel, multithreaded asset compiler on/off  ->  all models bit-identical (every size, array, option);
mj_recompile after {no edit, add a body, delete a body} preserves time and the state of surviving elements.
E3: the compiler's thread pool (user_threadpool.cc), its use in user_model.cc and the asset cache mutex run
UNMODIFIED under the controlled scheduler: every interleaving with <= P preemptions of the pool's mutex /
condition-variable operations must give a model bit-identical to the serial compile, with the same warnings.
"""
import ctypes
import itertools
import json
import os
import subprocess

import numpy as np

from .. import alphabet as A
from .. import build, core, mj

LEVEL = "model_checking"
META = dict(
    category=LEVEL,
    technique="stateless model checking of the multithreaded asset compiler under a controlled scheduler (preemption "
              "bounded) + exhaustive lattice of models with bit-exact differential between compile paths",
    text="All schedules with <=1 (thorough 2) preemptions of the compiler pool (2 workers; mutex, condition-variable with "
         "notify_one nondeterminism, cache mutex) on models with 3 meshes and 2 textures must yield the serial compile's "
         "model bit for bit and the same warnings, with no deadlock; over a model alphabet, compile/compile, "
         "compile(copySpec), copyModel and usethread on/off are bit-identical and mj_recompile preserves state.",
    note="PNG/OBJ decoders are inert here: assets are inline meshes (hull by the qhull double) and builtin textures; "
         "sequentially consistent scheduler; plain data races are outside what the scheduler sees and are delegated to a "
         "free-running ThreadSanitizer companion pass (sampling, reported separately).",
    design_ref="DESIGN.md §3 C33")

SCHED = ("src/user/user_threadpool.cc", "src/user/user_model.cc", "src/user/user_cache.cc")


def asset_model(nmesh=3, ntex=2, extra=""):
    v0, f0 = A.icosphere(0, 0.1)
    meshes = [A.mesh_asset("m0", A.TETRA), A.mesh_asset("m1", A.OCTA), A.mesh_asset("m2", v0, f0),
              A.mesh_asset("m3", A.TETRA * 1.5)][:nmesh]
    tex = ['    <texture name="t0" type="2d" builtin="checker" width="8" height="8" rgb1="1 0 0" rgb2="0 1 0"/>',
           '    <texture name="t1" type="2d" builtin="gradient" width="4" height="4"/>',
           '    <texture name="t2" type="cube" builtin="flat" width="4" height="4" mark="cross"/>'][:ntex]
    mat = ['    <material name="mat0" texture="t0"/>'] if ntex else []
    body = "\n".join('    <body name="mb%d" pos="%d 0 1"><freejoint/><geom type="mesh" mesh="m%d"%s/></body>' %
                     (i, i, i, ' material="mat0"' if (i == 0 and ntex) else "") for i in range(nmesh))
    return A.mjcf(body, asset="\n".join(meshes + tex + mat), sections=extra)


def e3_exe():
    return build.ensure_exe("c33_compile", ["drivers/c33_compile.cc"], sched=SCHED, static=True)


def _e3(args):
    x, name, xml, hw, bound, shard, nsh, cap = args
    d = os.path.join(build.CACHE, "c33")
    os.makedirs(d, exist_ok=True)
    p = os.path.join(d, name + ".xml")
    if not os.path.exists(p) or open(p).read() != xml:
        tmp = p + ".%d.tmp" % os.getpid()
        with open(tmp, "w") as fh:
            fh.write(xml)
        os.replace(tmp, p)
    part = core.Part()
    r = subprocess.run([x, "explore", p, str(hw), str(bound), str(shard), str(nsh), str(cap)], capture_output=True, text=True)
    if r.returncode not in (0, 1) or not r.stdout.strip():
        part.violation("harness c33 %s" % name, "driver failed rc=%d: %s" % (r.returncode, r.stderr[-400:]), {"model": name})
        return part
    res = json.loads(r.stdout.strip().splitlines()[-1])
    part["evaluations"] = res["executions"]
    part["traces"] = res["executions"]
    part["states"] = res["distinct_prefixes"]
    part["transitions"] = res["points"]
    part["nontrivial_count"] = res["executions"]
    for o in res["outcome_samples"]:
        part["outcomes"].add(name + ":" + o)
    if res["capped"]:
        part["capped"] = True
    if res["failures"]:
        what = res["first_failure"]
        part.violation("threaded compile: " + what.split(" in model field")[0][:120],
                       "model %s hw=%d schedule %s: %s" % (name, hw, res["first_failure_schedule"], what),
                       {"model": name, "xml": xml, "hw": hw, "schedule": res["first_failure_schedule"]})
    if shard == 0:
        part["samples"].append({"model": name, "hw_concurrency": hw, "bound": bound,
                                "a_schedule": (res["schedule_samples"] or [""])[0][:80]})
    return part


def lengthrange_models(thorough):
    """Actuator sequences over {motor, muscle, muscle with an existing range}: `mjCModel::LengthRange` simulates only the
    actuators that need a range and splits the actuator list over threads, so the position of the skipped ones in the
    list matters.  Every sequence of length 2..5 with at least two muscles (quick: at most one pre-ranged muscle at length 5); one hinge body per actuator, distinct
    joint ranges so that a range assigned to the wrong actuator is visible."""
    out = []
    nmax = 5
    for n in range(2, nmax + 1):
        for seq in itertools.product("mMe", repeat=n):
            if sum(c == "M" for c in seq) < 2:
                continue
            if not thorough and n == nmax and seq.count("e") > 1:
                continue
            bodies, acts = [], []
            for i, c in enumerate(seq):
                bodies.append('    <body name="lb%d" pos="%d 0 1"><joint name="lj%d" axis="0 1 0" range="%d %d" limited="true"/>'
                              '<geom type="capsule" size="0.03" fromto="0 0 0 0.3 0 0"/></body>' % (i, i, i, -20 - 5 * i, 30 + 7 * i))
                if c == "m":
                    acts.append('    <motor name="la%d" joint="lj%d" gear="%d"/>' % (i, i, i + 1))
                elif c == "M":
                    acts.append('    <muscle name="la%d" joint="lj%d" gear="%g"/>' % (i, i, 0.1 * (i + 1)))
                else:
                    acts.append('    <muscle name="la%d" joint="lj%d" lengthrange="0.1 0.9"/>' % (i, i))
            xml = ('<mujoco>\n  <compiler angle="degree"><lengthrange useexisting="true" inttotal="2" interval="1" tolrange="0.2"/></compiler>\n'
                   '  <option timestep="0.01"/>\n  <worldbody>\n%s\n  </worldbody>\n  <actuator>\n%s\n  </actuator>\n</mujoco>\n'
                   % ("\n".join(bodies), "\n".join(acts)))
            out.append(("lengthrange[%s]" % "".join(seq), xml))
    return out


def _e1_models(thorough):
    out = []
    nmax = 3 if thorough else 2
    for par in A.all_forests(nmax):
        roots = [p == -1 for p in par]
        for js in itertools.product(*[A.joint_menu(r) for r in roots]):
            if all(j == "none" for j in js):
                continue
            out.append(("tree%s%s" % (par, js), A.tree_mjcf(par, list(js), gattr="", axis=[i % 3 for i in range(len(par))])))
    for nm in (2, 3, 4):
        for nt in (0, 2, 3):
            out.append(("assets%d_%d" % (nm, nt), asset_model(nm, nt)))
    out.append(("randtex", random_texture_model()))
    out += lengthrange_models(thorough)
    feat = ('<tendon><fixed name="t"><joint joint="j0_0" coef="1"/><joint joint="j1_0" coef="-1"/></fixed></tendon>\n'
            '<equality><joint joint1="j0_0" joint2="j1_0"/></equality>\n'
            '<actuator><motor joint="j0_0"/><position joint="j1_0" kp="2"/></actuator>\n'
            '<sensor><jointpos joint="j0_0"/><framepos objtype="site" objname="s1"/></sensor>\n'
            '<keyframe><key qpos="0.1 0.2" ctrl="0.3 0.4"/></keyframe>\n')
    out.append(("features", A.tree_mjcf((-1, 0), ["hinge", "slide"], gattr="", sections=feat)))
    # three mocap bodies (mocap_pos has stride 3, mocap_quat stride 4), a weld to one of them and a stateful actuator
    mocap = "".join('    <body name="mc%d" mocap="true" pos="%d 1 1"><geom size="0.05" contype="0" conaffinity="0"/></body>\n' % (i, i)
                    for i in range(3))
    feat2 = ('<equality><weld body1="b1" body2="mc1" solref="0.05 1"/></equality>\n'
             '<actuator><general joint="j0_0" dyntype="filter" dynprm="0.1" gainprm="2"/><motor joint="j1_0"/></actuator>\n')
    out.append(("mocap3", A.tree_mjcf((-1, 0), ["hinge", "slide"], gattr="", sections=feat2, world_extra=mocap)))
    return out


def _e1(chunk):
    lib = mj.load()
    part = core.Part()
    lib.c.vg_spec_add_free_sphere.argtypes = [ctypes.c_void_p, ctypes.c_char_p] + [ctypes.c_double] * 4
    lib.c.vg_spec_delete_body.argtypes = [ctypes.c_void_p, ctypes.c_char_p]
    for name, xml in chunk:
        def bad(what, field):
            part.violation("compile: %s differs" % what, "%s: model field %s differs for model %s" % (what, field, name),
                           {"model": name, "xml": xml, "what": what, "field": field})
        spec = lib.parse_xml(xml)
        m1 = lib.compile(spec)
        m2 = lib.compile(spec)                    # compile the same spec twice
        f = lib.model_diff(m1, m2)
        if f:
            bad("second compile of the same spec", f)
        spec2 = mj.Handle(lib.mj_copySpec(spec))  # deep copy
        m3 = lib.compile(spec2)
        f = lib.model_diff(m1, m3)
        if f:
            bad("compile of mj_copySpec", f)
        m4 = mj.Model(lib, lib.mj_copyModel(None, m1))
        f = lib.model_diff(m1, m4)
        if f:
            bad("mj_copyModel", f)
        # asset thread pool on/off (free-running real threads here; all schedules are the E3 part)
        if "<compiler " in xml:
            m5 = lib.load_xml(xml.replace("<compiler ", '<compiler usethread="false" ', 1))
            if name.startswith("lengthrange["):
                part.count(1, key="lengthrange threaded vs serial, %d muscles" % name.count("M"))
                lr = np.array(m1.actuator_lengthrange).reshape(-1, 2)
                for i, c in enumerate(name[len("lengthrange["):-1]):
                    if c == "M" and not lr[i, 0] < lr[i, 1]:
                        bad("muscle without a computed length range (threaded compile)", "actuator_lengthrange[%d]" % i)
            f = lib.model_diff(m1, m5)
            if f:
                bad("usethread=false vs true", f)
            m5.free()
        # fresh parse of the same text
        m6 = lib.load_xml(xml)
        f = lib.model_diff(m1, m6)
        if f:
            bad("second parse+compile of the same text", f)
        m6.free()
        part.count(6, key=name, sample={"model": name} if name.startswith("assets3") else None)
        # mj_recompile preserves state
        for edit in ("none", "add", "delete"):
            sp = lib.parse_xml(xml)
            m = lib.compile(sp)
            d = lib.make_data(m)
            if m.nu:
                d.ctrl[:] = 0.25
            d.qvel[:] = 0.1
            for k in range(m.nmocap):       # a distinct, non-default pose per mocap body
                d.mocap_pos[k] = (0.3 + 0.1 * k, -0.2 * (k + 1), 0.5 + 0.05 * k)
                qk = np.array([0.9, 0.1 * (k + 1), -0.3, 0.2 + 0.1 * k])
                d.mocap_quat[k] = qk / np.linalg.norm(qk)
            for _ in range(3):
                lib.mj_step(m, d)
            t0 = d.time
            names = [m.name(1, b) for b in range(m.nbody)]
            st = {}
            for b in range(1, m.nbody):
                ja, jn = m.body_jntadr[b], m.body_jntnum[b]
                qs = []
                for j in range(ja, ja + jn):
                    qa = m.jnt_qposadr[j]
                    nq = {0: 7, 1: 4, 2: 1, 3: 1}[int(m.jnt_type[j])]
                    da = m.jnt_dofadr[j]
                    nv = {0: 6, 1: 3, 2: 1, 3: 1}[int(m.jnt_type[j])]
                    qs.append((np.array(d.qpos[qa:qa + nq]), np.array(d.qvel[da:da + nv])))
                st[names[b]] = qs
            ctrl0 = np.array(d.ctrl) if m.nu else None
            act0 = np.array(d.act) if m.na else None
            moc = {}
            for b in range(1, m.nbody):
                k = int(m.body_mocapid[b])
                if k >= 0:
                    moc[names[b]] = (np.array(d.mocap_pos[k]), np.array(d.mocap_quat[k]))
            victim = None
            if edit == "add":
                if lib.c.vg_spec_add_free_sphere(sp.ptr, b"newbody", 5.0, 5.0, 5.0, 0.1):
                    continue
            elif edit == "delete":
                leaves = [names[b] for b in range(1, m.nbody) if b not in set(m.body_parentid[1:])]
                if not leaves or m.nbody <= 2 or m.neq or m.ntendon:
                    lib.mj_deleteSpec(sp)
                    continue
                victim = leaves[-1]
                if lib.c.vg_spec_delete_body(sp.ptr, victim.encode()) != 0:
                    lib.mj_deleteSpec(sp)
                    continue
            try:
                rc = lib.mj_recompile(sp, None, m, d)
            except mj.MjError as e:
                part.violation("mj_recompile raised", "edit %s on %s: %s" % (edit, name, e), {"model": name, "xml": xml, "edit": edit})
                continue
            if rc != 0:
                part.add("recompile_rejected")
                continue
            m._cache.clear(); d._cache.clear()
            mm = mj.Model(lib, m.ptr, own=False)
            dd = mj.Data(lib, mm, d.ptr, own=False)
            part.count(1, key=(name, edit))
            if dd.time != t0:
                part.violation("mj_recompile does not preserve time", "edit %s on %s: time %r -> %r" % (edit, name, t0, dd.time),
                               {"model": name, "xml": xml, "edit": edit})
            n2 = [mm.name(1, b) for b in range(mm.nbody)]
            for b in range(1, mm.nbody):
                if n2[b] not in st:
                    continue
                ja, jn = mm.body_jntadr[b], mm.body_jntnum[b]
                for k, j in enumerate(range(ja, ja + jn)):
                    qa = mm.jnt_qposadr[j]
                    da = mm.jnt_dofadr[j]
                    q0, v0 = st[n2[b]][k]
                    if not (np.array_equal(dd.qpos[qa:qa + len(q0)], q0) and np.array_equal(dd.qvel[da:da + len(v0)], v0)):
                        part.violation("mj_recompile does not preserve the state of a surviving joint",
                                       "edit %s on %s: body %s joint %d" % (edit, name, n2[b], k),
                                       {"model": name, "xml": xml, "edit": edit, "body": n2[b]})
            if ctrl0 is not None and mm.nu == len(ctrl0) and not np.array_equal(dd.ctrl, ctrl0):
                part.violation("mj_recompile does not preserve ctrl", "edit %s on %s" % (edit, name), {"model": name, "xml": xml, "edit": edit})
            if act0 is not None and mm.na == len(act0) and not np.array_equal(dd.act, act0):
                part.violation("mj_recompile does not preserve act", "edit %s on %s: %s -> %s" % (edit, name, act0, np.array(dd.act)),
                               {"model": name, "xml": xml, "edit": edit})
            for b in range(1, mm.nbody):
                k = int(mm.body_mocapid[b])
                if k >= 0 and n2[b] in moc:
                    p0, q0 = moc[n2[b]]
                    if not (np.array_equal(dd.mocap_pos[k], p0) and np.array_equal(dd.mocap_quat[k], q0)):
                        part.violation("mj_recompile does not preserve the pose of a mocap body",
                                       "edit %s on %s: body %s mocap pose (%s, %s) -> (%s, %s)" % (edit, name, n2[b], p0, q0,
                                                                                               np.array(dd.mocap_pos[k]), np.array(dd.mocap_quat[k])),
                                       {"model": name, "xml": xml, "edit": edit, "body": n2[b]})
                    part.add("mocap_poses_compared")
            lib.mj_deleteData(d.ptr); d.ptr = None
            lib.mj_deleteModel(m.ptr); m.ptr = None
            lib.mj_deleteSpec(sp)
        for mm_ in (m1, m2, m3, m4):
            mm_.free()
        lib.mj_deleteSpec(spec)
        lib.mj_deleteSpec(spec2)
    return part


def random_texture_model():
    """4 inline meshes + 4 builtin textures that all draw random dots (mark="random", random>0): several texture tasks that use
    the pseudo-random generator overlap on the pool."""
    v0, f0 = A.icosphere(0, 0.1)
    meshes = [A.mesh_asset("m0", A.TETRA), A.mesh_asset("m1", A.OCTA), A.mesh_asset("m2", v0, f0), A.mesh_asset("m3", A.TETRA * 1.5)]
    tex = ['    <texture name="r%d" type="%s" builtin="%s" width="%d" height="%d" mark="random" random="0.%d" markrgb="1 1 0"/>' %
           (i, "2d" if i % 2 == 0 else "cube", ["flat", "gradient", "checker", "flat"][i], 64 + 32 * i, 64 + 32 * i, 2 + i) for i in range(4)]
    body = "\n".join('    <body name="mb%d" pos="%d 0 1"><freejoint/><geom type="mesh" mesh="m%d"/></body>' % (i, i, i) for i in range(4))
    return A.mjcf(body, asset="\n".join(meshes + tex))


def _tsan(ctx):
    """Companion pass (sampling, reported separately, not the deciding step): the threaded asset compiler free-running in the
    ThreadSanitizer build.  The scheduler of the E3 part interleaves at synchronisation operations only; state shared between
    asset tasks WITHOUT synchronisation (a hoisted static buffer, a shared random engine) is what this pass is for."""
    try:
        x = build.ensure_exe("c33_free", ["drivers/c33_free.cc"], variant="tsan")
    except SystemExit:
        ctx.extra["tsan_companion"] = "build failed"
        return
    d = os.path.join(build.CACHE, "c33")
    os.makedirs(d, exist_ok=True)
    runs = reports = 0
    for name, xml in (("randtex", random_texture_model()), ("m4t3", asset_model(4, 3))):
        pt, ps = os.path.join(d, name + "_thr.xml"), os.path.join(d, name + "_ser.xml")
        for p_, txt in ((pt, xml), (ps, xml.replace("<compiler ", '<compiler usethread="false" ', 1))):
            tmp = p_ + ".%d.tmp" % os.getpid()
            with open(tmp, "w") as fh:
                fh.write(txt)
            os.replace(tmp, p_)
        env = dict(os.environ, TSAN_OPTIONS="halt_on_error=0:exitcode=66:report_signal_unsafe=0")
        r = subprocess.run([x, pt, ps, "12" if ctx.thorough else "4"], capture_output=True, text=True, env=env)
        runs += 1
        if "WARNING: ThreadSanitizer" in r.stderr:
            reports += 1
            top = [ln.strip() for ln in r.stderr.splitlines() if ln.strip().startswith("#0")][:2]
            ctx.violation("tsan: data race in the threaded asset compiler", "ThreadSanitizer report while compiling model %s (%s):\n%s"
                          % (name, "; ".join(top), r.stderr[:1500]), {"model": name, "xml": xml})
        elif r.returncode not in (0, 1) or "FREESTATS" not in r.stdout:
            ctx.violation("harness c33 tsan companion", "driver failed rc=%d: %s" % (r.returncode, r.stderr[-400:]), {"model": name})
        for line in r.stdout.splitlines():
            if line.startswith("FREEDIFF"):
                ctx.violation("free-running threaded compile differs from the serial compile", "model %s: %s" % (name, line),
                              {"model": name, "xml": xml})
    ctx.extra["tsan_companion_runs"] = runs
    ctx.extra["tsan_companion_reports"] = reports


def _chunk_e3(chunk):
    total = core.Ctx("C33", "quick", 0, LEVEL)
    for a in chunk:
        total.merge(_e3(a))
    p = core.Part()
    p["evaluations"] = total.evaluations
    p["nontrivial_count"] = total.nontrivial_extra
    p["states"], p["transitions"], p["traces"] = total.states, total.transitions, total.traces
    p["outcomes"] = total.outcomes
    p["samples"] = total.samples[:2]
    p["violations"] = [{"key": k, "what": w, "replay": r} for k, w, r in total.violations]
    p["extra"] = total.extra
    p["capped"] = not total.exhaustive
    return p


def run(ctx):
    x = e3_exe()
    bound = ctx.q(1, 2)
    cap = ctx.q(4000, 25000)
    nsh = ctx.q(8, 16)
    models = [("m3t2", asset_model(3, 2)), ("m2t0", asset_model(2, 0))]
    if ctx.thorough:
        models.append(("m4t3", asset_model(4, 3)))
    jobs = []
    for name, xml in models:
        for hw in ((4,) if not ctx.thorough else (4, 6)):   # hardware_concurrency()/2 workers
            for s in range(nsh):
                jobs.append((x, name, xml, hw, bound, s, nsh, cap))
    core.pmap(ctx, _chunk_e3, jobs, nchunks=len(jobs))
    e1 = _e1_models(ctx.thorough)
    sub = core.Ctx(ctx.pid, ctx.tier, ctx.seed, ctx.level)
    core.pmap(sub, _e1, e1, nchunks=32)
    ctx.merge({"evaluations": sub.evaluations, "nontrivial": sub.nontrivial, "samples": sub.samples,
               "violations": [{"key": k, "what": w, "replay": r} for k, w, r in sub.violations], "extra": sub.extra})
    _tsan(ctx)
    ctx.states += len(e1)
    ctx.transitions += sub.evaluations
    ctx.traces += sub.evaluations
    ctx.extra["e1_models"] = len(e1)
    ctx.extra["preemption_bound"] = bound
    ctx.rule = ("E3: models with (3 meshes, 2 textures), (2,0)%s; hardware_concurrency answered so that the pool has 2%s workers; all "
                "schedules with <=%d preemptions; oracle = bit-exact model vs serial compile + identical warnings. E1: %d models "
                "(all forests <=%d bodies x joint menu, asset models 2-4 meshes x 0-3 textures, a feature model) x 5 compile paths + "
                "mj_recompile after {none, add body, delete leaf body}" %
                (", (4,3)" if ctx.thorough else "", "/3" if ctx.thorough else "", bound, len(e1), 3 if ctx.thorough else 2))
    ctx.assumptions = ["asset cache capacity set to 0 in the E3 harness (no cross-execution cache hits)",
                       "sequentially consistent scheduler",
                       "unsynchronised sharing between asset tasks is covered only by the TSan companion (free-running, sampling): models "
                       "with 4 meshes + 4 random-dot textures and 4 meshes + 3 textures"]


def replay(ctx, path):
    """Re-run one recorded schedule without the explorer: ./check C33 --replay <file>"""
    import json as _json
    r = _json.load(open(path))["replay"]
    if "schedule" not in r:
        part = _e1([(r["model"], r["xml"])])
        for v in part["violations"]:
            print("VIOLATION", v["key"], v["what"])
        return 1 if part["violations"] else 0
    d = os.path.join(build.CACHE, "c33")
    os.makedirs(d, exist_ok=True)
    f = os.path.join(d, "replay.xml")
    open(f, "w").write(r["xml"])
    p = subprocess.run([e3_exe(), "replay", f, str(r["hw"]), r["schedule"]], capture_output=True, text=True)
    print(p.stdout[-3000:])
    print("replay exit", p.returncode)
    return 1 if p.returncode else 0
