"""C25 Analytic derivatives match finite differences.

Part A (qDeriv).  Every rooted ordered forest with <= N bodies x the full joint menu x a feature lattice {polynomial joint
damping, fixed / spatial tendon damping, actuators of every documented gaintype x biastype x dyntype combination on joint and
tendon transmissions (+ actearly, forcerange, actuator damping), inertia-box fluid, ellipsoid fluid} x a state lattice:
the dense qDeriv produced by the implicit integrators is compared with a central finite difference of
qfrc_passive + qfrc_actuator - qfrc_bias w.r.t. qvel (mj_forwardSkip(mjSTAGE_POS, 1)), on the sparsity pattern of D:
  implicit      D == FD(passive + actuator - bias)
  implicitfast  D == sym(FD(passive + actuator))  (standalone free bodies: unsymmetrised block), RNE term excluded
Part B (mjd_transitionFD) and Part C (mjd_inverseFD) on a sub-lattice: A,B,C,D / DfDq,DfDv,DfDa,DsD*,DmDq are compared with
an own perturbation of mj_step / mj_inverse (manifold perturbation and difference with an own quaternion log), forward
and centred results agree to O(eps), output buffers are written exactly in their documented shape (guard cells), the
integration state of the mjData passed in is bit-identical afterwards, RK4 is rejected with an error.
"""
import itertools

import numpy as np

from .. import alphabet as A
from .. import core, mj
from ..mjutil import relerr
from . import _c05_util as U

LEVEL = "exploration"
META = dict(
    category=LEVEL,
    technique="exhaustive enumeration of all kinematic forests <= N bodies x joint menu x feature lattice (damping, tendons, 45 actuator "
              "type combinations, two fluid models) x state lattice; central finite differences and own perturbation of mj_step / mj_inverse as oracle",
    text="Each analytic velocity-derivative term (joint / tendon / actuator damping, affine and muscle gain velocity terms, both fluid models, "
         "Newton-Euler bias) is exercised in isolation and in every small tree shape, and compared with a finite difference of the forces it "
         "differentiates; a missing or mis-signed term shows only when the model has the corresponding feature, so the feature lattice is "
         "enumerated exhaustively. The finite-difference API functions are compared with an independent perturbation driver, including "
         "buffer shapes and that the caller's state is left untouched.",
    note="FD oracle: eps=1e-6 central, tolerance 1e-6 relative (observed noise ~1e-9). Entries outside D's sparsity pattern (tendons / "
         "actuators coupling different branches) are documented to be dropped and are only counted. Zero velocity is excluded for the "
         "ellipsoid fluid model (norms are not differentiable there). State = mjSTATE_INTEGRATION; derived arrays (e.g. qacc) are allowed "
         "to change, the statement only promises the input state. actuatorfrc sensors are left out of the mjd_inverseFD comparison "
         "(inverse dynamics has no actuation stage, their value is whatever the last forward call left). Not covered: flex edge damping, "
         "DC-motor / PID / SO3 actuator derivatives, the sleep-filtered paths, models with constraints in the FD Jacobians.",
    design_ref="DESIGN.md §3 C25")

H = 0.005
EPS = 1e-6
TOL_D = 1e-6
TOL_FD = 2e-6           # engine FD vs own FD (same eps): round-off / eps
TOL_FWD_CEN = 1e-2      # forward vs centred: O(eps) * second derivative
STATE_SIG = (1 << 14) - 1   # mjSTATE_INTEGRATION: every state component
STATE_PHYS = (1 << 1) | (1 << 2) | (1 << 3)

KEY_FD_CENTERED_SIGN = ("mjd_transitionFD: centred differences of sensors w.r.t. controls (matrix D) have the wrong sign "
                        "(clampedDiff hands x_plus, x_minus to diff in the wrong order)")
KEY_FD_EULER_STALE = ("mjd_transitionFD with Euler: qvel columns use the unperturbed factorisation of M+h*B (mj_stepSkip skips it for "
                      "skipstage>=POS) although polynomial damping makes B depend on qvel")
KEY_FD_IMPLICIT_STALE = ("mjd_transitionFD with implicit/implicitfast: ctrl/act columns use the unperturbed factorisation of M-h*D "
                         "(mj_stepSkip skips it for skipstage>=VEL) although D depends on ctrl/act through velocity-dependent actuator gains")

KEY_FLUID_CLAMP = ("ellipsoid fluid model: d(A_proj)/d(velocity) in mjd_viscous_drag is clamped by mjMINVAL applied to "
                   "sqrt(proj_num^3*proj_denom) ~ size^10*speed^4, so the drag derivative is wrong for cm-sized geoms below ~0.2 m/s relative speed")
MJMINVAL = 1e-15

GAIN = {"fixed": 'gaintype="fixed" gainprm="0.7"', "affine": 'gaintype="affine" gainprm="0.7 0.2 -0.3"',
        "muscle": 'gaintype="muscle" gainprm="0.75 1.05 -1 200 0.5 1.6 1.5 1.3 1.2"'}
BIAS = {"none": 'biastype="none"', "affine": 'biastype="affine" biasprm="0.1 -2 -0.5"',
        "muscle": 'biastype="muscle" biasprm="0.75 1.05 -1 200 0.5 1.6 1.5 1.3 1.2"'}
DYN = {"none": 'dyntype="none"', "integrator": 'dyntype="integrator"', "filter": 'dyntype="filter" dynprm="0.03"',
       "filterexact": 'dyntype="filterexact" dynprm="0.003"', "muscle": 'dyntype="muscle" dynprm="0.01 0.04"'}
GEAR = {"hinge": "1.3", "slide": "1.3", "ball": "1 0.5 -0.3", "free": "0.2 -0.1 0.3 1 0.5 -0.3"}
JDEF = '<joint damping="0.1 0.05 0.02" armature="0.02"/>'
SENSORS = None


def feature_variants():
    out = [("jdamp", None), ("tdamp_fixed", None), ("tdamp_spatial", None), ("fluid_box", None), ("fluid_ell", None), ("fluid_ell_coef", None),
           ("fluid_box_sparse", None), ("fluid_ell_sparse", None)]        # jacobian="sparse": the sparse branches of the fluid derivatives
    for g, b, dy in itertools.product(GAIN, BIAS, DYN):
        out.append(("act", (g, b, dy, "joint", "")))
    for g, b, dy in (("affine", "affine", "filter"), ("muscle", "muscle", "muscle"), ("fixed", "affine", "none")):
        out.append(("act", (g, b, dy, "tendon", "")))
    out.append(("act", ("affine", "affine", "filter", "joint", 'actearly="true"')))
    out.append(("act", ("affine", "affine", "integrator", "joint", 'actearly="true" actlimited="true" actrange="-0.05 0.3"')))
    out.append(("act", ("fixed", "affine", "none", "joint", 'forcelimited="true" forcerange="-0.2 0.2"')))
    out.append(("act", ("fixed", "none", "none", "jointdamp", 'damping="0.05 0.02 0.01"')))
    out.append(("act", ("fixed", "affine", "none", "joint", 'ctrllimited="true" ctrlrange="-0.4 0.6"')))   # lattice ctrl values sit on both ends
    out.append(("act", ("affine", "affine", "filter", "joint", "two")))      # second actuator (fixed gain, no dynamics): nu = 2, na = 1
    return out


def build(par, js, feat, arg, integrator="implicit", sensors=True):
    n = len(par)
    jn = U.joint_names(js)
    scal = [nm for nm, t in jn if t in ("hinge", "slide")]
    default = JDEF
    sections = ""
    world_extra = ""
    gattr = 'contype="0" conaffinity="0"'
    option = dict(timestep=H, integrator=integrator)
    tendon = ""
    if feat == "jdamp":
        pass
    elif feat == "tdamp_fixed":
        if not scal:
            return None
        j2 = '<joint joint="%s" coef="-0.7"/>' % scal[-1] if len(scal) > 1 else ""
        tendon = '<tendon><fixed name="t0" damping="0.2 0.1 0.05"><joint joint="%s" coef="1.3"/>%s</fixed></tendon>\n' % (scal[0], j2)
    elif feat == "tdamp_spatial":
        world_extra = '    <site name="sw" pos="0.3 0.2 0.4"/>\n'
        last = n - 1
        tendon = ('<tendon><spatial name="t0" damping="0.2 0.1 0.05"><site site="sw"/><site site="s0"/>%s</spatial></tendon>\n'
                  % ('<site site="s%d"/>' % last if last > 0 else ""))
    elif feat in ("fluid_box", "fluid_box_sparse"):
        option.update(density="300", viscosity="0.4", wind="0.3 -0.2 0.1")
        if feat.endswith("sparse"):
            option.update(jacobian="sparse")
    elif feat in ("fluid_ell", "fluid_ell_coef", "fluid_ell_sparse"):
        option.update(density="300", viscosity="0.4", wind="0.3 -0.2 0.1")
        if feat.endswith("sparse"):
            option.update(jacobian="sparse")
        gattr += ' fluidshape="ellipsoid"' + (' fluidcoef="0.7 0.4 1.2 0.8 1.3"' if feat == "fluid_ell_coef" else "")
    elif feat == "act":
        g, b, dy, trn, extra = arg
        if not jn:
            return None
        lr = ' lengthrange="-2 1"' if "muscle" in (g, b) else ""
        if trn == "tendon":
            if not scal:
                return None
            j2 = '<joint joint="%s" coef="-0.7"/>' % scal[-1] if len(scal) > 1 else ""
            tendon = '<tendon><fixed name="t0"><joint joint="%s" coef="1.3"/>%s</fixed></tendon>\n' % (scal[0], j2)
            target = 'tendon="t0" gear="0.8"'
        elif trn == "jointdamp":
            if not scal:
                return None
            target = 'joint="%s" gear="1.3"' % scal[-1]
        else:
            target = 'joint="%s" gear="%s"' % (jn[0][0], GEAR[jn[0][1]])
        second = ""
        if extra == "two":
            extra = ""
            second = '<general name="a1" joint="%s" gear="%s" gainprm="0.4" biastype="affine" biasprm="0 0 -0.2"/>' % (jn[-1][0], GEAR[jn[-1][1]])
        sections = '<actuator><general name="a0" %s %s %s %s%s %s/>%s</actuator>\n' % (target, GAIN[g], BIAS[b], DYN[dy], lr, extra, second)
    sens = ""
    if sensors and jn:
        first_scal = scal[0] if scal else None
        sens = "<sensor>"
        if first_scal:
            sens += '<jointpos joint="%s"/><jointvel joint="%s"/>' % (first_scal, first_scal)
        sens += '<framepos objtype="site" objname="s%d"/><framelinvel objtype="site" objname="s%d"/>' % (n - 1, n - 1)
        if feat == "act":
            sens += '<actuatorfrc actuator="a0"/>' + ('<actuatorfrc actuator="a1"/>' if arg[4] == "two" else "")
        sens += "</sensor>\n"
    return U.std_tree_xml(par, js, default=default, sections=tendon + sections + sens, world_extra=world_extra, gattr=gattr,
                          option=A.option_elem(**option))


# ------------------------------------------------------------------ Part A: qDeriv

def fd_forces(lib, m, d, v0, eps, nobias):
    """central FD of the smooth forces w.r.t. qvel at the current position stage (d must have been mj_forward'ed)."""
    nv = m.nv
    out = np.zeros((nv, nv))
    for i in range(nv):
        f = []
        for sgn in (1, -1):
            v = np.array(v0)
            v[i] += sgn * eps
            d.qvel[:] = v
            lib.mj_forwardSkip(m, d, U.STAGE_POS, 1)
            x = np.array(d.qfrc_passive) + np.array(d.qfrc_actuator)
            if not nobias:
                x = x - np.array(d.qfrc_bias)
            f.append(x)
        out[:, i] = (f[0] - f[1]) / (2 * eps)
    d.qvel[:] = v0
    lib.mj_forwardSkip(m, d, U.STAGE_POS, 1)
    return out


def semiaxes(gtype, size):
    """documented ellipsoid approximation of a geom (fluid.rst): sphere r,r,r; capsule r,r,l+r; cylinder r,r,l; else size"""
    if gtype == 2:
        return [size[0]] * 3
    if gtype == 3:
        return [size[0], size[0], size[1] + size[0]]
    if gtype == 5:
        return [size[0], size[0], size[1]]
    return list(size)


def fluid_clamp_active(lib, m, d):
    """True if for some ellipsoid-fluid geom sqrt(proj_num^3 * proj_denom) of the relative velocity is below mjMINVAL."""
    wind = np.array(m.opt.wind, float)
    res = np.zeros(6)
    for g in range(m.ngeom):
        if np.array(m.geom_fluid).reshape(m.ngeom, -1)[g][0] <= 0:
            continue
        lib.mj_objectVelocity(m, d, 5, g, res, 1)
        R = np.array(d.geom_xmat[g]).reshape(3, 3)
        x, y, z = res[3:] - R.T @ wind
        s0, s1, s2 = semiaxes(int(m.geom_type[g]), [float(v) for v in m.geom_size[g]])
        a, b, cc = (s1 * s2) ** 2, (s2 * s0) ** 2, (s0 * s1) ** 2
        num = a * x * x + b * y * y + cc * z * z
        den = a * a * x * x + b * b * y * y + cc * cc * z * z
        if 0 < np.sqrt(num ** 3 * den) < MJMINVAL:
            return True
    return False


def part_a(lib, part, c, ident, feat, par, js, arg):
    m, d, d2, mi = c["m"], c["d"], c["d2"], c["mi"]
    nv = mi.nv
    pat = U.D_pattern(m)
    qs = A.qpos_lattice(m, limit=3)[:3]
    vs = A.qvel_lattice(nv, units=False)
    if nv:
        e = np.zeros(nv)
        e[0] = -0.8
        vs.append(e)
    if feat.startswith("fluid_ell") and js[0] == "free":
        # a free root moving slowly (0.03 m/s) relative to the wind while spinning slowly: low relative speed of a cm-sized geom
        e = 0.2 * np.array(vs[1], float)
        e[:3] = np.array(m.opt.wind, float) + 0.03 * np.array([0.8, 0.48, -0.36])
        vs.append(e)
    for qi, q in enumerate(qs):
        for vi, v in enumerate(vs):
            if feat.startswith("fluid_ell") and not np.any(v):
                part.add("boundary_excluded")
                continue
            k = qi * len(vs) + vi
            for integ in (U.INT_IMPLICIT, U.INT_IMPLICITFAST):
                m.opt.integrator = integ
                lib.mj_resetData(m, d)
                d.qpos[:] = q
                d.qvel[:] = v
                if mi.na:
                    d.act[:] = [0.2, 0.35][k % 2]
                if mi.nu:
                    d.ctrl[:] = [0.6, -0.4, 0.9][k % 3]
                lib.mj_forward(m, d)
                lib.mj_copyData(d2, m, d)
                lib.mj_step(m, d2)                        # the implicit integrators fill qDeriv for the pre-step state
                D = U.denseD(m, d2)
                fast = integ == U.INT_IMPLICITFAST
                F = fd_forces(lib, m, d, v, EPS, nobias=fast)
                if fast:
                    Fexp = 0.5 * (F + F.T)
                    for adr in mi.free_blocks:
                        s = slice(adr, adr + 6)
                        Fexp[s, s] = F[s, s]
                else:
                    Fexp = F
                rp = {"xml": c["xml"], "qpos": q, "qvel": v, "integrator": U.INT_NAME[integ], "act": np.array(d.act) if mi.na else [],
                      "ctrl": np.array(d.ctrl) if mi.nu else []}
                nontriv = (par, js, feat, arg, qi, vi, integ) if (nv >= 2 and np.any(v)) else None
                part.count(1, key=nontriv, sample={"parents": par, "joints": js, "feature": feat, "actuator": arg, "integrator": U.INT_NAME[integ],
                                                   "qpos": q, "qvel": v} if (qi == 1 and vi == 1 and fast) else None)
                scale = max(1e-2, float(np.max(np.abs(Fexp))) if nv else 0.0)
                err = float(np.max(np.abs(np.where(pat, D - Fexp, 0.0)))) / scale if nv else 0.0
                if err > TOL_D:
                    i, j = np.unravel_index(np.argmax(np.abs(np.where(pat, D - Fexp, 0.0))), D.shape)
                    key = "qDeriv != FD of smooth forces [%s] %s" % (U.INT_NAME[integ], ident)
                    if feat.startswith("fluid_ell") and fluid_clamp_active(lib, m, d):
                        key = KEY_FLUID_CLAMP
                    part.violation(key,
                                   "qDeriv[%d,%d]=%.9g but finite difference gives %.9g (rel err %.3g, %s, state %d/%d, %s)" % (
                                       i, j, D[i, j], Fexp[i, j], err, U.INT_NAME[integ], qi, vi, ident), rp)
                out = float(np.max(np.abs(np.where(pat, 0.0, Fexp)))) if nv else 0.0
                if out > 1e-6 * scale:
                    part.add("outside_pattern_coupling_dropped")
                    if feat not in ("tdamp_spatial", "tdamp_fixed") and not (feat == "act" and arg[3] == "tendon"):
                        part.violation("force derivative outside D's sparsity pattern without a cross-branch tendon %s" % ident,
                                       "max |FD| outside the pattern %.3g (%s)" % (out, ident), rp)


# ------------------------------------------------------------------ Part B: mjd_transitionFD

def get_state(lib, m, d, sig):
    n = lib.mj_stateSize(m, sig)
    s = np.zeros(n)
    lib.mj_getState(m, d, s, sig)
    return s


def own_transition(lib, c, x0, eps, centered):
    """Own perturbation of mj_step. x0 = (qpos, qvel, act, ctrl, time, warmstart)."""
    m, mi, ds = c["m"], c["mi"], c["d3"]
    nv, na, nu, ns = mi.nv, mi.na, mi.nu, m.nsensordata
    ndx = 2 * nv + na
    q0, v0, a0, u0, t0, w0 = x0

    def step(q, v, a, u):
        lib.mj_resetData(m, ds)
        ds.qpos[:] = q
        ds.qvel[:] = v
        if na:
            ds.act[:] = a
        if nu:
            ds.ctrl[:] = u
        ds.time = t0
        ds.qacc_warmstart[:] = w0
        lib.mj_step(m, ds)
        return (np.array(ds.qpos), np.array(ds.qvel), np.array(ds.act) if na else np.zeros(0), np.array(ds.sensordata))

    def ydiff(ya, yb, h):
        return np.concatenate([U.diff_pos(mi, ya[0], yb[0]), yb[1] - ya[1], yb[2] - ya[2]]) / h, (yb[3] - ya[3]) / h
    y0 = step(q0, v0, a0, u0)
    Am = np.zeros((ndx, ndx))
    Bm = np.zeros((ndx, nu))
    Cm = np.zeros((ns, ndx))
    Dm = np.zeros((ns, nu))
    lim = np.array(m.actuator_ctrllimited).astype(bool) if nu else np.zeros(0, bool)
    rng = np.array(m.actuator_ctrlrange, float).reshape(-1, 2) if nu else np.zeros((0, 2))
    for i in range(ndx + nu):
        ys = []
        sgns = (1, -1) if centered else (1,)
        if i >= ndx and lim[i - ndx]:
            # controls at the end of their range are differenced one-sidedly, inside the range
            j = i - ndx
            can_f = rng[j][0] <= u0[j] + eps <= rng[j][1]
            can_b = rng[j][0] <= u0[j] - eps <= rng[j][1]
            sgns = tuple(sg for sg in ((1, -1) if centered else ((1,) if can_f else (-1,))) if (can_f if sg == 1 else can_b))
        for sgn in sgns:
            q, v, a, u = np.array(q0), np.array(v0), np.array(a0), np.array(u0)
            if i < nv:
                e = np.zeros(nv)
                e[i] = 1.0
                q = U.integrate_pos(mi, q0, e, sgn * eps)
            elif i < 2 * nv:
                v[i - nv] += sgn * eps
            elif i < ndx:
                a[i - 2 * nv] += sgn * eps
            else:
                u[i - ndx] += sgn * eps
            ys.append(step(q, v, a, u))
        if len(sgns) == 2:
            dy, dsens = ydiff(ys[1], ys[0], 2 * eps)
        elif sgns == (1,):
            dy, dsens = ydiff(y0, ys[0], eps)
        elif sgns == (-1,):
            dy, dsens = ydiff(ys[0], y0, eps)
        else:
            dy, dsens = np.zeros(ndx), np.zeros(ns)
        if i < ndx:
            Am[:, i] = dy
            Cm[:, i] = dsens
        else:
            Bm[:, i - ndx] = dy
            Dm[:, i - ndx] = dsens
    return Am, Bm, Cm, Dm


GUARD = 7


def guarded(shape):
    n = int(np.prod(shape)) if len(shape) else 1
    buf = np.full(n + 2 * GUARD, np.nan)
    return buf, buf[GUARD:GUARD + n]


def guard_ok(buf, n):
    return bool(np.all(np.isnan(buf[:GUARD])) and np.all(np.isnan(buf[GUARD + n:])) and np.all(np.isfinite(buf[GUARD:GUARD + n])))


def part_b(lib, part, c, ident, states, integs):
    m, d, mi = c["m"], c["d"], c["mi"]
    nv, na, nu, ns = mi.nv, mi.na, mi.nu, m.nsensordata
    ndx = 2 * nv + na
    for (q, v, k) in states:
        for integ in integs:
            m.opt.integrator = integ
            lib.mj_resetData(m, d)
            d.qpos[:] = q
            d.qvel[:] = v
            d.time = 0.25
            if na:
                d.act[:] = [0.2, 0.35][k % 2]
            if nu:
                d.ctrl[:] = [0.6, -0.4, 0.9][k % 3]
            lib.mj_forward(m, d)
            rp = {"xml": c["xml"], "qpos": q, "qvel": v, "integrator": U.INT_NAME[integ], "eps": EPS}
            if integ == U.INT_RK4:
                part.count(1)
                try:
                    lib.mjd_transitionFD(m, d, EPS, 1, np.zeros((ndx, ndx)), None, None, None)
                    part.violation("mjd_transitionFD accepts RK4 %s" % ident, "documented as unsupported, no error raised (%s)" % ident, rp)
                except mj.MjError:
                    pass
                try:
                    lib.mjd_inverseFD(m, d, EPS, 0, np.zeros((nv, nv)), None, None, None, None, None, None)
                    part.violation("mjd_inverseFD accepts RK4 %s" % ident, "documented as unsupported, no error raised (%s)" % ident, rp)
                except mj.MjError:
                    pass
                # after a caught MjError the mjData must be discarded
                lib.mj_resetData(m, d)
                c["d"].free()
                c["d"] = d = lib.make_data(m)
                continue
            x0 = (np.array(d.qpos), np.array(d.qvel), np.array(d.act) if na else np.zeros(0), np.array(d.ctrl) if nu else np.zeros(0),
                  float(d.time), np.array(d.qacc_warmstart))
            s_before = get_state(lib, m, d, STATE_SIG)
            res = {}
            for centered in (1, 0):
                bufs = [guarded((ndx, ndx)), guarded((ndx, nu)), guarded((ns, ndx)), guarded((ns, nu))]
                lib.mjd_transitionFD(m, d, EPS, centered, *[b[1] if b[1].size else None for b in bufs])
                sizes = [ndx * ndx, ndx * nu, ns * ndx, ns * nu]
                for (buf, view), n, nm in zip(bufs, sizes, "ABCD"):
                    if n and not guard_ok(buf, n):
                        part.violation("mjd_transitionFD writes %s outside its documented shape %s" % (nm, ident),
                                       "guard cells around %s (%d values) changed or values not finite (%s)" % (nm, n, ident), rp)
                res[centered] = [bufs[0][1].reshape(ndx, ndx).copy(), bufs[1][1].reshape(ndx, nu).copy(),
                                 bufs[2][1].reshape(ns, ndx).copy(), bufs[3][1].reshape(ns, nu).copy()]
                s_after = get_state(lib, m, d, STATE_SIG)
                if s_before.tobytes() != s_after.tobytes():
                    idx = int(np.argmax(s_before != s_after))
                    part.violation("mjd_transitionFD changes the input state %s" % ident,
                                   "state vector differs at index %d: %r -> %r (centered=%d, %s, %s)" % (
                                       idx, float(s_before[idx]), float(s_after[idx]), centered, U.INT_NAME[integ], ident), rp)
                own = own_transition(lib, c, x0, EPS, centered)
                part.count(1, key=(ident, k, integ, centered) if nv >= 2 else None)
                for nm, E, O in zip("ABCD", res[centered], own):
                    if E.size == 0:
                        continue
                    den = 1.0 + float(np.max(np.abs(O)))
                    e = float(np.max(np.abs(E - O))) / den
                    if e > TOL_FD:
                        i, j = np.unravel_index(np.argmax(np.abs(E - O)), E.shape)
                        colerr = np.max(np.abs(E - O), axis=0) / den
                        key = "mjd_transitionFD %s != own perturbation of mj_step [%s] %s" % (nm, U.INT_NAME[integ], ident)
                        # one canonical key per confirmed root cause; anything that does not fit the pattern keeps its own key
                        if nm == "D" and centered and float(np.max(np.abs(E + O))) / den <= TOL_FD:
                            key = KEY_FD_CENTERED_SIGN
                        elif (nm == "A" and integ == U.INT_EULER and c["polydamp"] and
                              np.all(np.delete(colerr, np.arange(nv, 2 * nv)) <= TOL_FD)):
                            key = KEY_FD_EULER_STALE
                        elif (integ in (U.INT_IMPLICIT, U.INT_IMPLICITFAST) and c["gainvel"] and
                              (nm == "B" or (nm == "A" and np.all(colerr[:2 * nv] <= TOL_FD)))):
                            key = KEY_FD_IMPLICIT_STALE
                        part.violation(key,
                                       "%s[%d,%d]=%.9g, direct perturbation of mj_step gives %.9g (err %.3g, centered=%d, %s, %s)" % (
                                           nm, i, j, E[i, j], O[i, j], e, centered, U.INT_NAME[integ], ident), rp)
            for nm, Ec, Ef in zip("ABCD", res[1], res[0]):
                if Ec.size:
                    den = 1.0 + float(np.max(np.abs(Ec)))
                    e = float(np.max(np.abs(Ec - Ef))) / den
                    at_limit = nm in "BD" and nu and np.any(np.array(m.actuator_ctrllimited))
                    if e > TOL_FWD_CEN and not at_limit:
                        key = "mjd_transitionFD forward vs centred differ beyond O(eps) %s [%s] %s" % (nm, U.INT_NAME[integ], ident)
                        if nm == "D" and float(np.max(np.abs(Ec + Ef))) / den <= TOL_FWD_CEN:
                            key = KEY_FD_CENTERED_SIGN
                        part.violation(key,
                                       "max diff %.3g (%s)" % (e, ident), rp)


# ------------------------------------------------------------------ Part C: mjd_inverseFD

def own_inverse(lib, c, x0, eps, flg_act, centered):
    m, mi, ds = c["m"], c["mi"], c["d3"]
    nv, na, nu, ns, nC = mi.nv, mi.na, mi.nu, m.nsensordata, m.nC
    q0, v0, a0, u0, t0, acc0 = x0

    def inv(q, v, acc):
        lib.mj_resetData(m, ds)
        ds.qpos[:] = q
        ds.qvel[:] = v
        ds.qacc[:] = acc
        if na:
            ds.act[:] = a0
        if nu:
            ds.ctrl[:] = u0
        ds.time = t0
        lib.mj_inverse(m, ds)
        f = np.array(ds.qfrc_inverse)
        sens = np.array(ds.sensordata)
        M = np.array(ds.M)
        if flg_act:
            lib.mj_fwdActuation(m, ds)
            f = f - np.array(ds.qfrc_actuator)
        return f, sens, M
    y0 = inv(q0, v0, acc0)
    out = {k: np.zeros((nv, nv)) for k in ("DfDq", "DfDv", "DfDa")}
    out.update({k: np.zeros((nv, ns)) for k in ("DsDq", "DsDv", "DsDa")})
    out["DmDq"] = np.zeros((nv, nC))
    for kind in "qva":
        for i in range(nv):
            ys = []
            for sgn in ((1, -1) if centered else (1,)):
                q, v, acc = np.array(q0), np.array(v0), np.array(acc0)
                if kind == "q":
                    e = np.zeros(nv)
                    e[i] = 1.0
                    q = U.integrate_pos(mi, q0, e, sgn * eps)
                elif kind == "v":
                    v[i] += sgn * eps
                else:
                    acc[i] += sgn * eps
                ys.append(inv(q, v, acc))
            if centered:
                df, dsn, dM = [(a - b) / (2 * eps) for a, b in zip(ys[0], ys[1])]
            else:
                df, dsn, dM = [(a - b) / eps for a, b in zip(ys[0], y0)]
            out["DfD" + kind][i] = df
            out["DsD" + kind][i] = dsn
            if kind == "q":
                out["DmDq"][i] = dM
    return out


def part_c(lib, part, c, ident, states, integs):
    m, d, mi = c["m"], c["d"], c["mi"]
    nv, na, nu, ns, nC = mi.nv, mi.na, mi.nu, m.nsensordata, m.nC
    names = ["DfDq", "DfDv", "DfDa", "DsDq", "DsDv", "DsDa", "DmDq"]
    shapes = [(nv, nv)] * 3 + [(nv, ns)] * 3 + [(nv, nC)]
    for (q, v, k) in states:
        for integ in integs:
            if integ == U.INT_RK4:
                continue
            for flg_act in (0, 1):
                if flg_act and not nu:
                    continue
                m.opt.integrator = integ
                d = c["d"]
                lib.mj_resetData(m, d)
                d.qpos[:] = q
                d.qvel[:] = v
                d.time = 0.25
                if na:
                    d.act[:] = [0.2, 0.35][k % 2]
                if nu:
                    d.ctrl[:] = [0.6, -0.4, 0.9][k % 3]
                lib.mj_forward(m, d)
                acc = np.array(d.qacc) + np.array([0.3 * ((-1) ** i) for i in range(nv)])
                d.qacc[:] = acc
                rp = {"xml": c["xml"], "qpos": q, "qvel": v, "qacc": acc, "integrator": U.INT_NAME[integ], "eps": EPS, "flg_actuation": flg_act}
                x0 = (np.array(d.qpos), np.array(d.qvel), np.array(d.act) if na else np.zeros(0), np.array(d.ctrl) if nu else np.zeros(0),
                      float(d.time), acc.copy())
                s_before = get_state(lib, m, d, STATE_SIG)
                bufs = [guarded(s) for s in shapes]
                lib.mjd_inverseFD(m, d, EPS, flg_act, *[b[1] if b[1].size else None for b in bufs])
                s_after = get_state(lib, m, d, STATE_SIG)
                if s_before.tobytes() != s_after.tobytes() or np.array(d.qacc).tobytes() != acc.tobytes():
                    part.violation("mjd_inverseFD changes the input state %s" % ident, "state or qacc differs after the call (%s, %s)" % (U.INT_NAME[integ], ident), rp)
                part.count(1, key=(ident, k, integ, flg_act, "inv") if nv >= 2 else None)
                own_f = own_inverse(lib, c, x0, EPS, flg_act, 0)
                own_c = own_inverse(lib, c, x0, EPS, flg_act, 1)
                for nm, shp, (buf, view) in zip(names, shapes, bufs):
                    n = int(np.prod(shp))
                    if not n:
                        continue
                    if not guard_ok(buf, n):
                        part.violation("mjd_inverseFD writes %s outside its documented shape %s" % (nm, ident),
                                       "guard cells around %s changed or values not finite (%s)" % (nm, ident), rp)
                        continue
                    E = view.reshape(shp)
                    O = own_f[nm]
                    Oc = own_c[nm]
                    if nm.startswith("Ds"):
                        E, O, Oc = E[:, :c["ns_inv"]], O[:, :c["ns_inv"]], Oc[:, :c["ns_inv"]]
                        if not E.size:
                            continue
                    e = float(np.max(np.abs(E - O))) / (1.0 + float(np.max(np.abs(O))))
                    if e > TOL_FD * 5:
                        i, j = np.unravel_index(np.argmax(np.abs(E - O)), E.shape)
                        part.violation("mjd_inverseFD %s != own perturbation of mj_inverse [%s] %s" % (nm, U.INT_NAME[integ], ident),
                                       "%s[%d,%d]=%.9g, direct forward perturbation of mj_inverse gives %.9g (err %.3g, flg_actuation=%d, %s, %s)" % (
                                           nm, i, j, E[i, j], O[i, j], e, flg_act, U.INT_NAME[integ], ident), rp)
                    e = float(np.max(np.abs(E - Oc))) / (1.0 + float(np.max(np.abs(O))))
                    if e > TOL_FWD_CEN:
                        part.violation("mjd_inverseFD %s differs from centred differences beyond O(eps) [%s] %s" % (nm, U.INT_NAME[integ], ident),
                                       "max diff %.3g (%s)" % (e, ident), rp)


# ------------------------------------------------------------------ driver

def run_model(lib, part, par, js, feat, arg, do_fd):
    xml = build(par, js, feat, arg)
    if xml is None:
        part.add("variant_not_applicable")
        return
    m = lib.load_xml(xml)
    c = dict(m=m, d=lib.make_data(m), d2=lib.make_data(m), d3=lib.make_data(m), mi=U.MInfo(m), xml=xml)
    c["polydamp"] = bool(np.any(np.array(m.dof_dampingpoly)) or (m.nactuator and np.any(np.array(m.actuator_dampingpoly))))
    c["gainvel"] = feat == "act" and arg[0] in ("affine", "muscle")
    c["ns_inv"] = m.nsensordata - (m.nactuator if feat == "act" else 0)     # actuatorfrc is undefined under inverse dynamics (no actuation stage)
    ident = "parents=%s joints=%s feature=%s%s" % (par, js, feat, (" " + "/".join(str(x) for x in arg)) if arg else "")
    part_a(lib, part, c, ident, feat, par, js, arg)
    if do_fd:
        mi = c["mi"]
        qs = A.qpos_lattice(m, quat_levels=A.QUATS[:3], limit=2)
        vm = A.qvel_lattice(mi.nv, units=False)[-1]
        # k selects ctrl from [0.6, -0.4, 0.9]: with ctrlrange="-0.4 0.6" that is the upper end, the lower end and outside the
        # range, so the one-sided fallbacks of the control columns are all exercised
        ks = (1, 0, 2) if (feat == "act" and "ctrllimited" in arg[4]) else (1,)
        states = [(qs[-1], vm, k) for k in ks]
        integs = [U.INT_EULER, U.INT_IMPLICIT, U.INT_IMPLICITFAST, U.INT_RK4]
        part_b(lib, part, c, ident, states, integs)
        part_c(lib, part, c, ident, states, integs)
    for k in ("d", "d2", "d3"):
        c[k].free()
    m.free()


def _chunk(chunk):
    lib = mj.load()
    part = core.Part()
    for par, js, feat, arg, do_fd in chunk:
        try:
            run_model(lib, part, par, js, feat, arg, do_fd)
        except mj.MjError as e:
            part.violation("engine error parents=%s joints=%s feature=%s %s" % (par, js, feat, arg), "unexpected mju_error/compile error: %s" % e,
                           {"parents": par, "joints": js, "feature": feat, "arg": arg})
    return part


FD_FEATS = {"jdamp", "tdamp_fixed", "fluid_ell"}
FD_ACTS = {("affine", "affine", "filter", "joint", ""), ("fixed", "none", "none", "joint", ""), ("affine", "affine", "filter", "joint", "two"),
           ("fixed", "affine", "none", "joint", 'ctrllimited="true" ctrlrange="-0.4 0.6"'), ("muscle", "muscle", "muscle", "joint", ""), ("fixed", "none", "integrator", "joint", ""),
           ("fixed", "affine", "filterexact", "joint", ""), ("affine", "affine", "filter", "tendon", ""),
           ("affine", "affine", "filter", "joint", 'actearly="true"')}


def run(ctx):
    mj.load()
    nmax = ctx.q(2, 3)
    menu = None if not ctx.thorough else ["none", "hinge", "slide", "ball", "free", "hinge2"]
    feats = feature_variants()
    items = []
    for par, js in U.models(nmax, menu):
        for feat, arg in feats:
            do_fd = (feat in FD_FEATS) or (feat == "act" and arg in FD_ACTS)
            items.append((par, js, feat, arg, do_fd))
    # canonical minimal replays of the confirmed root causes first (in-process)
    ctx.merge(_chunk([((-1,), ("free",), "fluid_ell", None, False),
                      ((-1,), ("hinge",), "jdamp", None, True),
                      ((-1,), ("hinge",), "act", ("fixed", "none", "none", "joint", ""), True),
                      ((-1,), ("hinge",), "act", ("affine", "affine", "filter", "joint", ""), True)]))
    core.pmap(ctx, _chunk, items, nchunks=min(len(items), 512))
    ctx.extra["model_variants"] = len(items)
    ctx.extra["feature_variants"] = len(feats)
    ctx.rule = ("all rooted ordered forests with <=%d bodies x full product of the joint menu %s x %d feature variants (polynomial joint damping, "
                "fixed/spatial tendon damping, inertia-box fluid (dense+sparse jacobian), ellipsoid fluid x3, 45 gaintype x biastype x dyntype combinations on a joint "
                "transmission, 3 on a tendon transmission, actearly x2, forcerange, actuator damping); Part A: <=3 configurations x {zero, mixed, "
                "-0.8*e_0} velocities x {implicit, implicitfast}, central FD eps=%g; Parts B/C (mjd_transitionFD, mjd_inverseFD: forward and centred, "
                "integrators Euler/implicit/implicitfast, RK4 must raise) on the sub-lattice of %d feature variants at one mixed state. "
                "non-trivial = case with nv>=2 and non-zero velocity" % (nmax, menu or list(A.JOINTS), len(feats), EPS, len(FD_FEATS) + len(FD_ACTS)))
    ctx.assumptions = ["finite-difference tolerance 1e-6 relative for qDeriv, 2e-6 for engine-FD vs own-FD with equal eps, 1e-2 for forward-vs-centred",
                       "entries outside D's sparsity pattern are documented to be dropped (counted as outside_pattern_coupling_dropped)",
                       "only mjSTATE_INTEGRATION (and qacc for mjd_inverseFD) is required to be unchanged; derived arrays may change"]
