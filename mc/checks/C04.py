"""C04 Staged and split pipeline calls equal the monolithic call.

Bit-exact differential check over a model alphabet (all rooted forests with <= 3 bodies x a covering
set of joint assignments x {lean, full} feature level x energy flag x integrator) x a state lattice
x all 27 combinations of edits to (ctrl, qfrc_applied, xfrc_applied):
  A  mj_step  ==  mj_step1; edits; mj_step2                    (Euler, implicit, implicitfast; two rounds)
  B  mj_forwardSkip(stage, ss) after an identical full mj_forward, with only inputs of later stages
     edited, == mj_forwardSkip(NONE, ss)                        (stage in NONE/POS/VEL, ss in 0/1)
  C  the same for mj_inverseSkip after a full mj_inverse (edits: qacc, xfrc_applied; qvel for POS)
  D  mj_forward leaves every component of the integration state bit-identical
  E  with warm start disabled, forward;forward == forward on every field of mjData
D and E additionally range over the norm class of every quaternion of the state (ball / free joints in qpos,
mocap_quat): {unit, non-unit (x1.5 / x0.5 alternating), zero} = the three branches of mju_normalize4, because the
position stage normalises quaternions for its own use and must do so on copies, never in the caller's state.
Every comparison is over ALL of mjData (buffers, arena arrays, scalars, solver statistics, stack
pointers; timers/maxuse/threadpool/plugin_data ignored).
"""
import itertools
import json
import os

import numpy as np

from .. import alphabet as A
from .. import core, mj
from . import _c01_engine as E
from . import _c01_models as M
from . import _c01_native as N

LEVEL = "exploration"
META = dict(
    category=LEVEL,
    technique="bounded exhaustive lattice (all forests <=3 bodies x joint covering x features x energy x integrator x state lattice x "
              "27 edit combinations x skip stage x skipsensor), bit-exact differential over all of mjData",
    text="For every model of the alphabet, every lattice state and every combination of the 3-valued edits of ctrl, qfrc_applied "
         "and xfrc_applied, the split/staged call sequence and the monolithic call are run on separately built mjData objects "
         "and compared bit-for-bit on every field. The position/velocity stages of the split run see different (older) "
         "inputs than the monolithic run, so any quantity computed in the wrong stage, any lazy-evaluation flag surviving a "
         "skip, and any state write in mj_forward shows as a difference. For the state-write and idempotence oracles (D, E) the "
         "quaternions of the state are also supplied non-normalised and zero (what a user, a perturbation or a finite "
         "difference writes), since only then an in-place normalisation of qpos / mocap_quat is visible.",
    note="Sleep is outside this lattice (the documentation states that sleeping breaks the stage assumptions). RK4 is used for "
         "oracles B-E only (mj_step2 defaults to Euler, documented). The reference of a skip call with skipsensor=1 is the "
         "full call with skipsensor=1. Warm-start disabling is toggled in mjModel.opt.disableflags at run time.",
    design_ref="DESIGN.md §3 C04")

PO = 0xA5
STAGES = {"NONE": 0, "POS": 1, "VEL": 2}
SINGLE_STEP = ("Euler", "implicit", "implicitfast")
DSBL_WARMSTART = None


def _init_enums():
    global DSBL_WARMSTART, SENS_E_KINETIC
    if DSBL_WARMSTART is None:
        from .. import introspect_tree
        enums = introspect_tree.load("enums").ENUMS
        DSBL_WARMSTART = dict(enums["mjtDisableBit"].values)["mjDSBL_WARMSTART"]
        SENS_E_KINETIC = dict(enums["mjtSensor"].values)["mjSENS_E_KINETIC"]


def _pat(n, k, scale):
    return np.array([scale * ((-1) ** (i + k)) * (1 + 0.25 * i) for i in range(n)], dtype=np.float64)


class Inputs:
    """3-valued edit sets (index 0 = zero) and the baseline values present before the edits."""

    def __init__(self, m):
        nu, nv, nb, na = m.nu, m.nv, m.nbody, m.na
        self.ctrl = [np.zeros(nu), _pat(nu, 0, 0.7), -_pat(nu, 1, 0.35)]            # 0.7*(1+..) exceeds ctrlrange 0.5: clamping path
        self.qfrc = [np.zeros(nv), _pat(nv, 1, 0.05), _pat(nv, 0, 0.11)]
        x1 = np.zeros((nb, 6))
        x2 = np.zeros((nb, 6))
        for b in range(1, nb):
            x1[b] = [0.02 * b, -0.03, 0.05, 0.001, 0.002 * b, -0.003]
            x2[b] = [-0.04, 0.01 * b, -0.02, -0.002, 0.001, 0.004 * b]
        self.xfrc = [np.zeros((nb, 6)), x1, x2]
        self.base = (_pat(nu, 1, 0.21), _pat(nv, 0, 0.013), 0.5 * (x1 - x2))       # differs from all three values
        self.act = _pat(na, 0, 0.1)
        self.qacc = [_pat(nv, 0, 0.5), _pat(nv, 1, 1.3), np.zeros(nv)]
        self.dqvel = _pat(nv, 1, 0.37)
        self.dvel_pos = _pat(nv, 0, 0.2)
        self.edits = list(itertools.product(range(3), repeat=3))

    def apply(self, d, e):
        if d.ctrl.size:
            d.ctrl[:] = self.ctrl[e[0]]
        if d.qfrc_applied.size:
            d.qfrc_applied[:] = self.qfrc[e[1]]
        d.xfrc_applied[:, :] = self.xfrc[e[2]]

    def baseline(self, d):
        if d.ctrl.size:
            d.ctrl[:] = self.base[0]
        if d.qfrc_applied.size:
            d.qfrc_applied[:] = self.base[1]
        d.xfrc_applied[:, :] = self.base[2]


def states_of(m, nq, thorough):
    qs = A.qpos_lattice(m, limit=nq)[:nq]
    vs = A.qvel_lattice(m.nv, units=False)
    return [(q, v) for q in qs for v in vs]


def new_state(fac, inp, q, v):
    d = fac.make(PO)
    d.qpos[:] = q
    if v.size:
        d.qvel[:] = v
    if inp.act.size:
        d.act[:] = inp.act
    inp.baseline(d)
    return d


# Quaternion-norm classes of the state handed to mj_forward (oracles D, E).  The three levels are the three branches of
# mju_normalize4: already unit (no-op), non-unit (rescaled), shorter than mjMINVAL (replaced by the identity).  The
# position stage is documented to normalise quaternions for its own use; the caller's qpos / mocap_quat are state and
# must come back bit-identical whatever their norm (user-written, perturbed or finite-differenced quaternions).
QUAT_NORMS = ("unit", "nonunit", "zero")
DIAG_EDITS = ((0, 0, 0), (1, 1, 1), (2, 2, 2))


def quat_slots(m):
    """[(array name, start index)] of every quaternion of the integration state: ball / free joints in qpos, mocap_quat."""
    out = []
    for t, a in zip(list(m.jnt_type), list(m.jnt_qposadr)):
        if t == 1:
            out.append(("qpos", int(a)))
        elif t == 0:
            out.append(("qpos", int(a) + 3))
    out += [("mocap_quat", 4 * i) for i in range(int(m.nmocap))]
    return out


def denormalise(d, slots, level):
    """Scale every state quaternion: 'nonunit' alternates the factors 1.5 / 0.5 over the quaternions, 'zero' clears them."""
    if level == "unit":
        return
    for k, (name, a) in enumerate(slots):
        arr = d.qpos if name == "qpos" else d.mocap_quat.reshape(-1)
        arr[a:a + 4] = arr[a:a + 4] * (0.0 if level == "zero" else (1.5, 0.5)[k % 2])


def state_component(lib, m, idx):
    """Name of the mjtState component that holds element idx of the INTEGRATION state vector."""
    off = 0
    for bit, name in enumerate(E_STATE_ORDER):
        n = lib.mj_stateSize(m, 1 << bit)
        if idx < off + n:
            return "%s[%d]" % (name, idx - off)
        off += n
    return "state[%d]" % idx


E_STATE_ORDER = ("time", "qpos", "qvel", "act", "history", "qacc_warmstart", "ctrl", "qfrc_applied", "xfrc_applied", "eq_active",
                 "mocap_pos", "mocap_quat", "userdata", "plugin_state")

LAZY_FLAGS = ("flg_energypos", "flg_energyvel", "flg_subtreevel", "flg_rnepost")


def skip_diff(lib, cmp, m, d1, d2, ss, energy_flag=1):
    """Differing fields between the skip run d1 and the full run d2.  With skipsensor=1 the lazy-evaluation flags are
    bookkeeping that may legitimately differ (the full run clears 'subtree velocities valid' and nobody recomputes them; the
    skip run keeps the still valid flag): they are ignored at first, then the position- and velocity-stage sensors are
    evaluated on both objects (public mj_sensorPos / mj_sensorVel), after which everything INCLUDING the flags must agree --
    so a flag that survived although its data are stale still shows up in sensordata / subtree_* / energy."""
    if not ss:
        return cmp.diff(m, d1, d2)
    # energy flag disabled and no sensor evaluated: mjData.energy is not an output (doc, option/flag/energy: computed when
    # the flag is enabled or as a by-product of energy sensors); the full call zeroes it, the skip call keeps the cache
    ign = LAZY_FLAGS if energy_flag else LAZY_FLAGS + ("energy",)
    dl = cmp.diff(m, d1, d2, ignore=ign)
    if dl:
        return dl
    for d in (d1, d2):
        lib.mj_sensorPos(m, d)
        lib.mj_sensorVel(m, d)
    return cmp.diff(m, d1, d2, ignore=("flg_energypos", "flg_energyvel"))


K_EKIN = "e_kinetic sensor is computed in the position stage (not refreshed by the velocity stage; reads a stale flg_energyvel)"
SENS_E_KINETIC = None


def only_ekin(m, d1, d2, fields):
    """True iff the only differences are the e_kinetic sensor's data (and the kinetic-energy cache energy[1])."""
    if not set(fields) <= {"sensordata", "energy"} or "sensordata" not in fields:
        return False
    a = np.array(d1.sensordata).view(np.uint64)
    b = np.array(d2.sensordata).view(np.uint64)
    adr = np.array(m.sensor_adr)
    types = np.array(m.sensor_type)
    for i in np.nonzero(a != b)[0]:
        s = int(np.searchsorted(adr, i, side="right") - 1)
        if int(types[s]) != SENS_E_KINETIC:
            return False
    if "energy" in fields and np.array(d1.energy)[:1].tobytes() != np.array(d2.energy)[:1].tobytes():
        return False
    return True


def check_model(lib, part, job):
    ki, level, energy, integ, nq, thorough = job
    cmp = N.cmp_for(lib)
    opt = A.option_elem(integrator=integ, flags=dict(energy="enable" if energy else "disable"))
    if ki[0] == "feat":      # one of the hand-written feature models shared with C01 (history buffers, plugins, mocap, muscles...)
        par, js = "feature", ki[1]
        xml = dict(M.C01_MODELS)[ki[1]](opt)
    else:
        par, js = M.c04_kinematics(ki[0])[ki[1]]
        xml = M.c04_model(par, js, level, opt)
    m = lib.load_xml(xml)
    fac = E.Factory(lib, m)
    inp = Inputs(m)
    nstate = lib.mj_stateSize(m, E.INTEGRATION)
    qslots = quat_slots(m)
    base = {"parents": par, "joints": js, "level": level, "energy": energy, "integrator": integ}
    tag = "parents=%s joints=%s level=%s energy=%d integrator=%s" % (par, js, level, energy, integ)

    def viol(oracle, fields, what, **kw):
        part.violation("%s: %s differs" % (oracle, fields[0]), "%s: %s; differing fields %s [%s]" % (oracle, what, fields[:8], tag),
                       dict(base, oracle=oracle, **kw))

    def hc(d, c):
        fac.hist_call(d, c)

    for si, (q, v) in enumerate(states_of(m, nq, thorough)):
        rep0 = {"state": si, "qpos": q, "qvel": v}
        # ------------------------------------------------------------------ A: step == step1; edits; step2
        if integ in SINGLE_STEP:
            for ei, e in enumerate(inp.edits):
                e2 = inp.edits[(ei + 13) % 27]
                dA = new_state(fac, inp, q, v)
                dB = new_state(fac, inp, q, v)
                try:
                    for rnd, ed in enumerate((e, e2)):
                        inp.apply(dA, ed)
                        hc(dA, "step")
                        hc(dB, "step1")
                        inp.apply(dB, ed)
                        hc(dB, "step2")
                        part.count(1, sample=dict(base, oracle="A", edit=ed, **rep0) if (si == 1 and ei == 5 and rnd == 0) else None)
                        if any(ed):
                            part["nontrivial_count"] += 1
                        dl = cmp.diff(m, dA, dB)
                        if dl:
                            viol("A step vs step1;edit;step2", dl, "after round %d with edits (ctrl,qfrc,xfrc)=%s" % (rnd + 1, ed),
                                 edit=ed, round=rnd, **rep0)
                            break
                finally:
                    dA.free()
                    dB.free()
        if not (thorough or integ in ("Euler", "RK4")):
            continue        # quick: oracles B-E (which do not integrate) only under two of the four integrators
        # ------------------------------------------------------------------ B: forwardSkip == full forward
        for sname, stage in STAGES.items():
            variants = [0] if sname == "VEL" else [0, 1]      # 1: also change the inputs of the not-skipped earlier stage
            for ss in (0, 1):
                for var in variants:
                    for e in inp.edits:
                        d1 = new_state(fac, inp, q, v)
                        d2 = new_state(fac, inp, q, v)
                        try:
                            for d in (d1, d2):
                                hc(d, "forward")
                                inp.apply(d, e)
                                if var and d.qvel.size:
                                    d.qvel[:] = v + inp.dqvel
                                    if sname == "NONE":
                                        lib.mj_integratePos(m, d.qpos, inp.dvel_pos, 0.05)
                            cmp.poison(d1, stage == 0, PO)
                            lib.mj_forwardSkip(m, d1, stage, ss)
                            cmp.poison(d2, True, PO)
                            lib.mj_forwardSkip(m, d2, 0, ss)
                            part.count(1, sample=dict(base, oracle="B", stage=sname, skipsensor=ss, edit=e, **rep0)
                                       if (si == 0 and e == (1, 2, 1) and var == 0 and sname == "POS") else None)
                            if stage and (any(e) or var):
                                part["nontrivial_count"] += 1
                            dl = skip_diff(lib, cmp, m, d1, d2, ss, energy)
                            if dl and only_ekin(m, d1, d2, dl):
                                part.violation(K_EKIN, "B forwardSkip(%s,%d) after an identical mj_forward and edits %s%s: the e_kinetic "
                                               "sensor differs from the full call [%s]" % (sname, ss, e, " + qvel" if var else "", tag),
                                               dict(base, oracle="B", stage=sname, skipsensor=ss, edit=e, variant=var, **rep0))
                            elif dl:
                                viol("B forwardSkip(%s,%d) vs full" % (sname, ss), dl,
                                     "after an identical mj_forward and edits %s%s" % (e, " + qvel" if var else ""),
                                     stage=sname, skipsensor=ss, edit=e, variant=var, **rep0)
                        finally:
                            d1.free()
                            d2.free()
        # ------------------------------------------------------------------ C: inverseSkip == full inverse
        for sname, stage in STAGES.items():
            variants = [0] if sname == "VEL" else [0, 1]
            for ss in (0, 1):
                for var in variants:
                    for ai in range(3):
                        for xi in range(3):
                            d1 = new_state(fac, inp, q, v)
                            d2 = new_state(fac, inp, q, v)
                            try:
                                for d in (d1, d2):
                                    if d.qacc.size:
                                        d.qacc[:] = inp.qacc[0]
                                    hc(d, "inverse")
                                    if d.qacc.size:
                                        d.qacc[:] = inp.qacc[ai]
                                    d.xfrc_applied[:, :] = inp.xfrc[xi]
                                    if var and d.qvel.size:
                                        d.qvel[:] = v + inp.dqvel
                                        if sname == "NONE":
                                            lib.mj_integratePos(m, d.qpos, inp.dvel_pos, 0.05)
                                cmp.poison(d1, stage == 0, PO)
                                lib.mj_inverseSkip(m, d1, stage, ss)
                                cmp.poison(d2, True, PO)
                                lib.mj_inverseSkip(m, d2, 0, ss)
                                part.count(1)
                                if stage and (ai or xi or var):
                                    part["nontrivial_count"] += 1
                                dl = skip_diff(lib, cmp, m, d1, d2, ss, energy)
                                if dl and only_ekin(m, d1, d2, dl):
                                    part.violation(K_EKIN, "C inverseSkip(%s,%d) after an identical mj_inverse with qvel changed: the "
                                                   "e_kinetic sensor differs from the full call [%s]" % (sname, ss, tag),
                                                   dict(base, oracle="C", stage=sname, skipsensor=ss, variant=var, **rep0))
                                elif dl:
                                    viol("C inverseSkip(%s,%d) vs full" % (sname, ss), dl,
                                         "after an identical mj_inverse and edits qacc#%d xfrc#%d%s" % (ai, xi, " + qvel" if var else ""),
                                         stage=sname, skipsensor=ss, qacc=ai, xfrc=xi, variant=var, **rep0)
                            finally:
                                d1.free()
                                d2.free()
        # ------------------------------------------------------------------ D, E
        for qn in (QUAT_NORMS if qslots else QUAT_NORMS[:1]):
            # quick: the non-unit classes with the three 'diagonal' edits (the quaternion norm and the edits of later-stage
            # inputs are independent dimensions); thorough: the full product
            for e in (inp.edits if (thorough or qn == "unit") else DIAG_EDITS):
                for ws_disabled in (1, 0):
                    d = new_state(fac, inp, q, v)
                    dref = new_state(fac, inp, q, v)
                    flags0 = int(m.opt.disableflags)
                    try:
                        if ws_disabled:
                            m.opt.disableflags = flags0 | DSBL_WARMSTART
                        if d.qacc_warmstart.size:
                            d.qacc_warmstart[:] = inp.qacc[1]
                            dref.qacc_warmstart[:] = inp.qacc[1]
                        denormalise(d, qslots, qn)
                        denormalise(dref, qslots, qn)
                        inp.apply(d, e)
                        inp.apply(dref, e)
                        s0 = np.full(nstate + 1, np.nan)
                        s1 = np.full(nstate + 1, np.nan)
                        lib.mj_getState(m, d, s0, E.INTEGRATION)
                        w0 = lib.warning_count()
                        hc(d, "forward")
                        lib.mj_getState(m, d, s1, E.INTEGRATION)
                        part.count(1, sample=dict(base, oracle="D", quat_norm=qn, edit=e, **rep0)
                                   if (si == 0 and qn == "nonunit" and e == (1, 1, 1) and ws_disabled) else None)
                        part["nontrivial_count"] += 1
                        if qn != "unit":
                            part.add("DE_%s_quaternion_cases" % qn)
                        if s0.tobytes() != s1.tobytes():
                            idx = int(np.nonzero(s0.view(np.uint64) != s1.view(np.uint64))[0][0])
                            comp = state_component(lib, m, idx)
                            viol("D forward modifies integration state", [comp.split("[")[0]],
                                 "mj_forward changed element %d (%s) of the INTEGRATION state vector: %r -> %r (state quaternions %s)"
                                 % (idx, comp, float(s0[idx]), float(s1[idx]), qn), edit=e, quat_norm=qn, **rep0)
                        hc(dref, "forward")
                        hc(d, "forward")
                        if qn != "unit" and lib.warning_count() != w0:
                            part.add("DE_warning_with_denormalised_quaternion")
                        dl = cmp.diff(m, d, dref)
                        if dl:
                            viol("E forward;forward vs forward (warmstart %s)" % ("disabled" if ws_disabled else "enabled"), dl,
                                 "second mj_forward changed results (state quaternions %s)" % qn, edit=e,
                                 warmstart_disabled=ws_disabled, quat_norm=qn, **rep0)
                    finally:
                        m.opt.disableflags = flags0
                        d.free()
                        dref.free()
    m.free()


def _chunk(chunk):
    lib = mj.load()
    N.register_stateplugin(lib)
    _init_enums()
    part = core.Part()
    for job in chunk:
        try:
            check_model(lib, part, job)
        except mj.MjError as e:
            part.violation("unexpected mju_error: %s" % str(e)[:80], "unexpected mju_error %s for job %s" % (e, job), {"job": job})
    return part


def make_jobs(ctx):
    nb = ctx.q(3, 4)
    nk = len(M.c04_kinematics(nb))
    integs = ["Euler", "implicit", "implicitfast", "RK4"]
    jobs = []
    for k in range(nk):
        for level in ("lean", "full"):
            for energy in (0, 1):
                for integ in integs:
                    jobs.append(((nb, k), level, energy, integ, ctx.q(2, 4), ctx.thorough))
    for name, _ in M.C01_MODELS:
        for energy in (0, 1):
            for integ in integs:
                jobs.append((("feat", name), "feature", energy, integ, ctx.q(2, 4), ctx.thorough))
    return jobs


def run(ctx):
    lib = mj.load()
    N.register_stateplugin(lib)
    N.cmp_for(lib)
    _init_enums()
    jobs = make_jobs(ctx)
    sub = int(os.environ.get("VERIF_SUBSAMPLE", "1") or 1)      # debugging aid (mutation trials): every k-th job only
    if sub > 1:
        jobs = jobs[::sub]
        ctx.exhaustive = False
    core.pmap(ctx, _chunk, jobs, nchunks=min(len(jobs), core.NCPU * 8))
    ctx.extra["models"] = len(jobs)
    ctx.rule = ("all rooted ordered forests with <=%d bodies x covering joint assignments from %s (%d kinematic models) x "
                "{lean: actuators with activation + sensors of all stages; full: + floor contacts, limited tendons, equalities} x "
                "energy flag {off,on} (+ the 12 feature models of C01: history buffers, plugins, mocap, muscle, ...) x integrator {Euler, implicit, implicitfast, RK4 (not oracle A); quick: oracles B-E only under Euler "
                "and RK4} x (%d configurations x "
                "{zero, mixed} velocity) x oracles A (27 edits x 2 rounds), B (stage NONE/POS/VEL x skipsensor 0/1 x 27 edits "
                "x {only later-stage inputs edited, also qvel (and qpos for NONE)}), C (same with 3 qacc x 3 xfrc), D, E (27 edits x "
                "warm start disabled/enabled; for models with ball/free joints or mocap bodies additionally x state-quaternion norm "
                "class {unit, non-unit (x1.5/x0.5 alternating), zero}%s). non-trivial = at least one input really edited and, for B/C, a stage really skipped"
                % (ctx.q(3, 4), M.C04_MENU, len(M.c04_kinematics(ctx.q(3, 4))), ctx.q(2, 4),
                   ctx.q(", the two non-unit classes with the 3 diagonal edits (0,0,0),(1,1,1),(2,2,2)", ", all 27 edits")))
    ctx.assumptions = ["sleep disabled (documented to break the stage assumptions)", "no control callback installed",
                       "reference for skipsensor=1 is the full call with skipsensor=1",
                       "dead arena memory filled with the same byte in both objects so that allocated-but-unwritten arena "
                       "arrays compare equal"]


def replay(ctx, path):
    with open(path) as fh:
        r = json.load(fh)["replay"]
    lib = mj.load()
    _init_enums()
    N.register_stateplugin(lib)
    part = core.Part()
    if r["parents"] == "feature":
        ki = ("feat", r["joints"])
    else:
        ks = M.c04_kinematics(4)
        ki = (4, [i for i, (p, j) in enumerate(ks) if list(p) == list(r["parents"]) and list(j) == list(r["joints"])][0])
    check_model(lib, part, (ki, r["level"], r["energy"], r["integrator"], 4, True))
    ctx.merge(part)
    ctx.rule = "replay of one model"
    return ctx.finish()
