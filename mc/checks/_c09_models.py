"""Shared constraint-mix lattice for C09 / C10 / C11 (forward-inverse agreement, solver optimality, admissible forces).

Models: a small *host* skeleton built with mc/alphabet.py (kinematic forest, joint menu, frames, geoms) that can carry
any subset of the eight constraint atoms

    E  equality (connect | weld | joint)      F  friction loss (joint dofs, + tendon when T is present)
    L  joint limit                            T  tendon limit
    C1 C3 C4 C6  one contact of that condim (explicit <pair>, anisotropic friction, sphere against pad / plane / body)

`mixes()` enumerates every non-empty subset (equality kind enumerated: 3*128 + 127 = 511 mixes).  The compiled model is
re-used for the whole state / option lattice: options live in m.opt, limit states are realised by writing
jnt_range / tendon_range relative to the current configuration, contact states by placing the (world-fixed) partner
geoms / the free body relative to the moving sphere, so that every contact distance and limit distance is *exactly* the
lattice value for any configuration.

The second half is the reference constraint law written from doc/computation (dual definition):
    s(e) = -min_{f in Omega} ( 1/2 f'Rf + f'e ),   f(e) = argmin,   e = J a - aref
per conceptual constraint (equality: free; friction loss: box; limit / frictionless / pyramid edge: f>=0;
elliptic contact: second-order cone f_1>=0, f_1^2 >= sum f_i^2/mu_i^2), plus a dense-Jacobian getter that handles both
efc_J layouts and a Newton reference optimiser on  1/2 (a-a0)'M(a-a0) + s(Ja-aref).
"""
from __future__ import annotations

import math

import numpy as np
from scipy.optimize import brentq as _brentq

from .. import alphabet as A

ATOMS = ("E", "F", "L", "T", "C1", "C3", "C4", "C6")
EQKINDS = ("connect", "weld", "joint")
CONDIM = {"C1": 1, "C3": 3, "C4": 4, "C6": 6}

# enums (include/mujoco/mjtype.h)
SOL_PGS, SOL_CG, SOL_NEWTON = 0, 1, 2
CONE_PYRAMIDAL, CONE_ELLIPTIC = 0, 1
JAC_DENSE, JAC_SPARSE = 0, 1
INT_EULER, INT_RK4, INT_IMPLICIT, INT_IMPLICITFAST = 0, 1, 2, 3
DSBL_WARMSTART, DSBL_EULERDAMP, DSBL_ISLAND, DSBL_DAMPER = 1 << 9, 1 << 15, 1 << 18, 1 << 6
ENBL_FWDINV, ENBL_INVDISCRETE = 1 << 2, 1 << 3
CNSTR_EQUALITY, CNSTR_FRICTION_DOF, CNSTR_FRICTION_TENDON, CNSTR_LIMIT_JOINT, CNSTR_LIMIT_TENDON = 0, 1, 2, 3, 4
CNSTR_CONTACT_FRICTIONLESS, CNSTR_CONTACT_PYRAMIDAL, CNSTR_CONTACT_ELLIPTIC = 5, 6, 7
mjNSOLVER, mjNISLAND = 200, 20

# lattice values
CONTACT_MARGIN = 0.02
CONTACT_DIST = (-0.003, 0.0, 0.008)          # penetrating, touching, separated within margin
CONTACT_STATE_NAME = ("penetrating", "touching", "within-margin")
JNT_MARGIN, TEN_MARGIN = 0.05, 0.03
LIMIT_OFF = (-0.02, 0.5, 1.0)                # violated (abs), inside margin (fraction of margin), inactive (abs)
LIMIT_STATE_NAME = ("violated", "inside-margin", "inactive")
# optional 'idle' level (state_space(idle=True); used by C09): cs == IDLE -> every contact separated beyond its margin
# (no contact generated), ls == IDLE -> every limit inactive.  A mix without E / F then has no constraint row at all.
IDLE = 3
CONTACT_IDLE_DIST = 0.05                      # > CONTACT_MARGIN
R_MOV, R_PAD = 0.05, 0.04                    # sphere radii

PAIR_FRICTION = {
    "C1": "0.5 0.5 0.01 0.001 0.001",
    "C3": "0.8 0.5 0.01 0.002 0.001",
    "C4": "0.7 0.4 0.03 0.002 0.001",
    "C6": "0.6 0.9 0.02 0.004 0.007",
}
PAIR_EXTRA = {"C1": "", "C3": "", "C4": 'solref="0.03 0.8"', "C6": 'solimp="0.85 0.97 0.002 0.4 3"'}
PAD_DIR = {
    "C1": np.array([0.48, -0.6, 0.64]),
    "C4": np.array([-0.36, 0.48, 0.8]),
    "C6": np.array([0.6, 0.64, -0.48]),
    "C3": np.array([0.0, 0.0, 1.0]),
}

# ------------------------------------------------------------------ skeletons
# contact entry: atom -> (body of the moving sphere, partner) ; partner: "pad" | "plane" | ("body", k)
SKELETONS = {
    # a 2-link arm (slide+hinge, hinge) and a free body: two trees, islands merge through E(connect) / C4
    "S0": dict(
        parents=(-1, 0, -1), joints=("slidehinge", "hinge", "free"), axis=[1, 2, 0], anchor=[1, 0, 0], frame=[1, 2, 1],
        geom=("capsule", "box", "sphere"),
        passive=['damping="0.3 0.1" stiffness="2"', 'damping="0.2" stiffness="1.5" springref="0.2"', ""],
        lim_bodies=(0,), fl_bodies=(1, 2), fl_value=("0", "25", "3"),
        tendon=("fixed", "j0_1", 1.3, "j1_0", -0.7),
        eq=dict(connect='<connect body1="b1" body2="b2" anchor="0.05 0.02 -0.03" solref="0.03 1.1"/>',
                weld='<weld body1="b0" solref="0.025 0.9" torquescale="0.7"/>',
                joint='<joint joint1="j0_1" joint2="j1_0" polycoef="0.1 0.8 0.05 0 0"/>'),
        contacts={"C1": (0, "pad"), "C3": (2, "plane"), "C4": (1, ("body", 2)), "C6": (1, "pad")},
        actuators='<general joint="j1_0" gear="2" damping="0.15"/><position joint="j0_0" kp="20" kv="1.5"/>',
        ctrl=(0.6, 0.3), free_home=(0.9, -0.4, 0.6),
    ),
    # one tree: ball joint with a limit and friction loss on its 3 dofs, spatial tendon to the world
    "S1": dict(
        parents=(-1, 0), joints=("ball", "hinge2"), axis=[0, 1], anchor=[1, 0], frame=[2, 1],
        geom=("ellipsoid", "cylinder"),
        passive=['damping="0.25" stiffness="1"', 'damping="0.2 0.05" stiffness="1.5"'],
        lim_bodies=(0, 1), fl_bodies=(0, 1), fl_value=("0.25", "20"),
        tendon=("spatial", "sw", "s1"),
        eq=dict(connect='<connect body1="b1" anchor="0.03 -0.02 0.05"/>',
                weld='<weld body1="b1" body2="b0" solref="0.03 1"/>',
                joint='<joint joint1="j1_0" joint2="j1_1" polycoef="-0.1 1.2 0 0.1 0"/>'),
        contacts={"C1": (1, "pad"), "C3": (1, "plane"), "C4": (0, "pad"), "C6": (1, "pad")},
        actuators='<motor joint="j1_0" gear="1.5"/><general joint="j1_1" gainprm="3" biastype="affine" biasprm="0 -3 -0.4" damping="0.1"/>',
        ctrl=(-0.7, 0.4), free_home=None,
    ),
    # three trees (hinge, slide, free): up to three islands; tendon limit and E couple trees 0,1; C4 couples 0,2 (so the
    # island permutation of dofs / rows is neither the identity nor an involution)
    "S2": dict(
        parents=(-1, -1, -1), joints=("hinge", "slide", "free"), axis=[2, 1, 0], anchor=[0, 1, 0], frame=[1, 2, 1],
        geom=("box", "capsule", "ellipsoid"),
        passive=['damping="0.2" stiffness="1"', 'damping="0.3" stiffness="3"', ""],
        lim_bodies=(0, 1), fl_bodies=(0, 2), fl_value=("15", "0", "2"),
        tendon=("fixed", "j0_0", 0.9, "j1_0", 1.6),
        eq=dict(connect='<connect body1="b0" body2="b1" anchor="0.1 0.05 0.02"/>',
                weld='<weld body1="b2" body2="b1" solref="0.03 1" relpose="0.3 0.1 0.2 0.9 0.1 -0.3 0.2"/>',
                joint='<joint joint1="j0_0" joint2="j1_0" polycoef="0.05 -0.6 0 0 0"/>'),
        contacts={"C1": (1, "pad"), "C3": (2, "plane"), "C4": (0, ("body", 2)), "C6": (1, "pad")},
        actuators='<motor joint="j0_0" gear="1"/><position joint="j1_0" kp="15" kv="1"/>',
        ctrl=(0.8, -0.2), free_home=(0.7, 0.5, 0.4),
    ),
}


def mixes():
    """Every non-empty subset of the 8 atoms; the equality kind is enumerated (511 mixes)."""
    out = []
    for mask in range(1, 1 << len(ATOMS)):
        atoms = tuple(a for i, a in enumerate(ATOMS) if (mask >> i) & 1)
        if "E" in atoms:
            for k in EQKINDS:
                out.append((atoms, k))
        else:
            out.append((atoms, None))
    return out


def build_xml(skel: str, atoms, eqkind) -> str:
    S = SKELETONS[skel]
    n = len(S["parents"])
    jattr = []
    for b in range(n):
        a = S["passive"][b]
        if "L" in atoms and b in S["lim_bodies"]:
            if S["joints"][b] == "ball":
                a += ' limited="true" range="0 1" margin="%g" solreflimit="0.03 1"' % JNT_MARGIN
            else:
                a += ' limited="true" range="-1 1" margin="%g" solreflimit="0.03 1"' % JNT_MARGIN
        if "F" in atoms and b in S["fl_bodies"]:
            a += ' frictionloss="%s"' % S["fl_value"][b]
        jattr.append(a)
    extra = {b: "" for b in range(n)}
    world = ('    <geom name="floor" type="plane" size="2 2 .1" quat="0.98 0.1 -0.15 0.05" contype="0" conaffinity="0"/>\n'
             '    <site name="sw" pos="0.4 0.3 0.5"/>\n')
    pairs = ""
    for atom in ("C1", "C3", "C4", "C6"):
        if atom not in atoms:
            continue
        b, partner = S["contacts"][atom]
        mov = "c" + atom[1]
        extra[b] += ('      <geom name="%s" type="sphere" size="%g" pos="%s" contype="0" conaffinity="0"/>\n'
                     % (mov, R_MOV, {"C1": "0.06 0.01 -0.12", "C3": "-0.02 0.05 -0.11", "C4": "0.1 -0.03 0.04",
                                     "C6": "-0.08 -0.06 0.07"}[atom]))
        if partner == "pad":
            oth = "p" + atom[1]
            world += '    <geom name="%s" type="sphere" size="%g" pos="0 0 %d" contype="0" conaffinity="0"/>\n' % (
                oth, R_PAD, 5 + int(atom[1]))
        elif partner == "plane":
            oth = "floor"
        else:
            oth = "q" + atom[1]
            extra[partner[1]] += ('      <geom name="%s" type="sphere" size="%g" pos="0.07 0.04 0.09" contype="0" '
                                  'conaffinity="0"/>\n' % (oth, R_PAD))
        pairs += '    <pair name="pair%s" geom1="%s" geom2="%s" condim="%d" friction="%s" margin="%g" %s/>\n' % (
            atom[1], oth, mov, CONDIM[atom], PAIR_FRICTION[atom], CONTACT_MARGIN, PAIR_EXTRA[atom])
    sections = ""
    if "T" in atoms:
        t = S["tendon"]
        tat = 'limited="true" range="-1 1" margin="%g" solreflimit="0.025 1.2"' % TEN_MARGIN
        if "F" in atoms:
            tat += ' frictionloss="25" solreffriction="0.03 1"'
        if t[0] == "fixed":
            sections += ('  <tendon><fixed name="t0" %s><joint joint="%s" coef="%g"/><joint joint="%s" coef="%g"/></fixed>'
                         '</tendon>\n' % (tat, t[1], t[2], t[3], t[4]))
        else:
            sections += '  <tendon><spatial name="t0" %s><site site="%s"/><site site="%s"/></spatial></tendon>\n' % (
                tat, t[1], t[2])
    if "E" in atoms:
        sections += "  <equality>%s</equality>\n" % S["eq"][eqkind]
    if pairs:
        sections += "  <contact>\n%s  </contact>\n" % pairs
    sections += "  <actuator>%s</actuator>\n" % S["actuators"]
    return A.tree_mjcf(S["parents"], list(S["joints"]), axis=S["axis"], anchor=S["anchor"], frame=S["frame"],
                       geom=list(S["geom"]), jattr=jattr, world_extra=world, sections=sections, extra_in_body=extra,
                       option=A.option_elem(impratio=1, flags=dict(island="enable")))


# ------------------------------------------------------------------ host (compiled model + lattice bookkeeping)

mjOBJ_BODY, mjOBJ_JOINT, mjOBJ_GEOM, mjOBJ_TENDON = 1, 3, 5, 18


def _quat2mat(q):
    w, x, y, z = q
    return np.array([[w * w + x * x - y * y - z * z, 2 * (x * y - w * z), 2 * (x * z + w * y)],
                     [2 * (x * y + w * z), w * w - x * x + y * y - z * z, 2 * (y * z - w * x)],
                     [2 * (x * z - w * y), 2 * (y * z + w * x), w * w - x * x - y * y + z * z]])


class Host:
    """Compiled host model for one (skeleton, atoms, eqkind) + the data needed to realise lattice states."""

    def __init__(self, lib, skel, atoms, eqkind):
        self.lib, self.skel, self.atoms, self.eqkind = lib, skel, tuple(atoms), eqkind
        self.S = SKELETONS[skel]
        self.xml = build_xml(skel, atoms, eqkind)
        self.m = m = lib.load_xml(self.xml)
        self.d = lib.make_data(m)
        self.nv = m.nv
        self.opt0 = (int(m.opt.disableflags), int(m.opt.enableflags))

        def gid(name):
            i = lib.mj_name2id(m, mjOBJ_GEOM, name.encode())
            if i < 0:
                raise RuntimeError("geom %s missing" % name)
            return i
        self.contacts = []          # (atom, moving gid, partner gid, kind, free body id or -1)
        for atom in ("C1", "C3", "C4", "C6"):
            if atom not in self.atoms:
                continue
            b, partner = self.S["contacts"][atom]
            mov = gid("c" + atom[1])
            if partner == "pad":
                self.contacts.append((atom, mov, gid("p" + atom[1]), "pad", -1))
            elif partner == "plane":
                self.contacts.append((atom, mov, gid("floor"), "plane", -1))
            else:
                self.contacts.append((atom, mov, gid("q" + atom[1]), "body",
                                      lib.mj_name2id(m, mjOBJ_BODY, ("b%d" % partner[1]).encode())))
        self.limited_jnts = [j for j in range(m.njnt) if m.jnt_limited[j]]
        self.has_tendon_limit = bool(m.ntendon and m.tendon_limited[0])
        self.free_jnt = [j for j in range(m.njnt) if m.jnt_type[j] == 0]
        self.nlimit = len(self.limited_jnts) + (1 if self.has_tendon_limit else 0)
        self.jnt_range0 = np.array(m.jnt_range)
        self.ten_range0 = np.array(m.tendon_range) if m.ntendon else None
        self.geom_pos0 = np.array(m.geom_pos)

    def free(self):
        self.d.free()
        self.m.free()

    # -------------------------------------------------------------- options
    def set_options(self, *, cone=CONE_PYRAMIDAL, solver=SOL_NEWTON, jacobian=JAC_DENSE, iterations=200, tolerance=0.0,
                    island=True, warmstart=True, noslip=0, integrator=INT_EULER, impratio=1.0, enable=0, disable=0,
                    ls_iterations=50, timestep=0.002):
        o = self.m.opt
        o.cone, o.solver, o.jacobian, o.iterations, o.tolerance = cone, solver, jacobian, iterations, tolerance
        o.noslip_iterations, o.integrator, o.impratio, o.ls_iterations, o.timestep = (
            noslip, integrator, impratio, ls_iterations, timestep)
        o.noslip_tolerance = 0.0
        dis = self.opt0[0] | disable
        if not island:
            dis |= DSBL_ISLAND
        if not warmstart:
            dis |= DSBL_WARMSTART
        o.disableflags = dis
        o.enableflags = self.opt0[1] | enable

    # -------------------------------------------------------------- states
    def state_space(self, nq=2, nvel=3, idle=False):
        """(qi, vi, cs, ls): configuration x velocity pattern x contact-state rotation x limit-state rotation.
        idle=True appends, after the rotations of every (qi, vi), the one state in which every contact is separated beyond
        its margin and every limit is inactive (cs / ls == IDLE where the host has contacts / limits)."""
        ncs = 3 if self.contacts else 1
        nls = 3 if self.nlimit else 1
        out = []
        for qi in range(nq):
            for vi in range(nvel):
                out += [(qi, vi, cs, ls) for cs in range(ncs) for ls in range(nls)]
                if idle and (self.contacts or self.nlimit):
                    out.append((qi, vi, IDLE if self.contacts else 0, IDLE if self.nlimit else 0))
        return out

    def apply_state(self, st):
        """Write the lattice state into (m, d).  Returns dict(dist={atom: intended distance}, limit=[...])."""
        lib, m, d = self.lib, self.m, self.d
        qi, vi, cs, ls = st
        lib.mj_resetData(m, d)
        m.geom_pos[:] = self.geom_pos0
        q = np.array(m.qpos0)
        # --- configuration (arm joints); free bodies are placed below
        k = 0
        for j in range(m.njnt):
            t, a = int(m.jnt_type[j]), int(m.jnt_qposadr[j])
            if t in (2, 3):
                q[a] = m.qpos0[a] + ((0.0, 0.0), (0.37, -0.25), (-0.6, 0.45))[qi][k % 2] * (1 if t == 3 else 0.3)
                k += 1
            elif t == 1:
                q[a:a + 4] = A.QUATS[(qi + 1) % 3] if qi else (1, 0, 0, 0)
                if qi == 0:
                    q[a:a + 4] = _unit((0.995, 0.05, -0.06, 0.04))
            else:
                q[a:a + 3] = self.S["free_home"]
                q[a + 3:a + 7] = _unit((0.9, 0.1 + 0.3 * qi, -0.3, 0.25))
        d.qpos[:] = q
        lib.mj_kinematics(m, d)
        want = {}
        # --- contact with a free body as partner: move the free body
        for ci, (atom, mov, oth, kind, fb) in enumerate(self.contacts):
            dist = CONTACT_IDLE_DIST if cs == IDLE else CONTACT_DIST[(cs + ci) % 3]
            want[atom] = dist
            if kind != "body":
                continue
            j = [jj for jj in self.free_jnt if m.jnt_bodyid[jj] == fb][0]
            a = int(m.jnt_qposadr[j])
            n = _unit(PAD_DIR[atom])
            target = np.array(d.geom_xpos[mov]) + n * (R_MOV + R_PAD + dist)
            R = _quat2mat(q[a + 3:a + 7])
            q[a:a + 3] = target - R @ np.array(m.geom_pos[oth])
            d.qpos[:] = q
            lib.mj_kinematics(m, d)
        # --- world-fixed partners
        for ci, (atom, mov, oth, kind, fb) in enumerate(self.contacts):
            dist = want[atom]
            c = np.array(d.geom_xpos[mov])
            if kind == "pad":
                m.geom_pos[oth] = c + _unit(PAD_DIR[atom]) * (R_MOV + R_PAD + dist)
            elif kind == "plane":
                nrm = _quat2mat(m.geom_quat[oth])[:, 2]
                m.geom_pos[oth] = c - nrm * (R_MOV + dist)
        # --- limits: ranges relative to the current value
        lim = []
        li = 0
        m.jnt_range[:] = self.jnt_range0
        for j in self.limited_jnts:
            s = 2 if ls == IDLE else (ls + li) % 3
            t, a = int(m.jnt_type[j]), int(m.jnt_qposadr[j])
            off = LIMIT_OFF[s] * (JNT_MARGIN if s == 1 else 1.0)
            if t == 1:
                w = q[a]
                ang = 2 * math.atan2(float(np.linalg.norm(q[a + 1:a + 4])), abs(float(w)))
                m.jnt_range[j] = (0.0, ang + off)
            elif li % 2 == 0:
                m.jnt_range[j] = (q[a] - 2.0, q[a] + off)      # upper limit
            else:
                m.jnt_range[j] = (q[a] - off, q[a] + 2.0)      # lower limit
            lim.append(("jnt%d" % j, s))
            li += 1
        if self.has_tendon_limit:
            s = 2 if ls == IDLE else (ls + li) % 3
            lib.mj_comPos(m, d)
            lib.mj_tendon(m, d)
            L = float(d.ten_length[0])
            off = LIMIT_OFF[s] * (TEN_MARGIN if s == 1 else 1.0)
            m.tendon_range[0] = (L - 2.0, L + off) if li % 2 == 0 else (L - off, L + 2.0)
            lim.append(("ten0", s))
        # --- velocities, forces, controls
        nv = m.nv
        base = np.array([0.7 * ((-1) ** i) * (1 + 0.3 * i) for i in range(nv)])
        d.qvel[:] = (0.0 * base, base, -1.7 * base[::-1])[vi]
        d.qfrc_applied[:] = np.array([0.5 * ((-1) ** (i // 2)) * (1 + 0.2 * i) for i in range(nv)])
        for b in range(1, m.nbody):
            d.xfrc_applied[b] = np.array([0.3, -0.2, 0.4, 0.05, 0.02, -0.03]) * (1 + 0.5 * b) * ((-1) ** b)
        d.ctrl[:] = self.S["ctrl"]
        return dict(dist=want, limit=lim)

    def contact_index(self):
        """atom -> index into d.contact (after mj_forward), or -1."""
        con = self.d.contact
        out = {}
        for atom, mov, oth, kind, fb in self.contacts:
            out[atom] = -1
            for i in range(len(con)):
                g = con[i]["geom"]
                if {int(g[0]), int(g[1])} == {mov, oth}:
                    out[atom] = i
        return out

    def selfcheck_state(self, info, tol=1e-9):
        """Harness self-check: every contact is present with the intended distance; returns error string or None."""
        idx = self.contact_index()
        con = self.d.contact
        for atom, dist in info["dist"].items():
            i = idx[atom]
            if dist > CONTACT_MARGIN:
                if i >= 0:
                    return "contact %s generated although separated beyond the margin" % atom
                continue
            if i < 0:
                return "contact %s not generated" % atom
            if abs(float(con[i]["dist"]) - dist) > tol:
                return "contact %s dist %.3g != %.3g" % (atom, float(con[i]["dist"]), dist)
        # limits: violated / inside-margin ones have a row, inactive ones do not
        nefc = int(self.d.nefc)
        t = np.array(self.d.efc_type[:nefc])
        nj = int(np.sum(t == CNSTR_LIMIT_JOINT))
        nt = int(np.sum(t == CNSTR_LIMIT_TENDON))
        wj = sum(1 for name, s in info["limit"] if name.startswith("jnt") and s != 2)
        wt = sum(1 for name, s in info["limit"] if name.startswith("ten") and s != 2)
        if (nj, nt) != (wj, wt):
            return "limit rows (%d joint, %d tendon) != intended (%d, %d)" % (nj, nt, wj, wt)
        return None


def report(part, key, what, replay=None):
    """part.violation with per-worker de-duplication by key: core.Part keeps at most 50 entries, so a root cause that fires
    on every state must not crowd out a different key found later in the same chunk."""
    seen = part.setdefault("_seen_keys", set())
    if key in seen:
        return
    seen.add(key)
    part.violation(key, what, replay)


def _unit(v):
    v = np.asarray(v, float)
    return v / np.linalg.norm(v)


# ------------------------------------------------------------------ engine-side helpers

def dense_J(m, d):
    """efc_J as a dense nefc x nv matrix for both jacobian layouts (own unpacking of the CSR arrays)."""
    nefc, nv = int(d.nefc), int(m.nv)
    if nefc == 0:
        return np.zeros((0, nv))
    if m.opt.jacobian == JAC_SPARSE or (m.opt.jacobian == 2 and nv >= 60):
        J = np.zeros((nefc, nv))
        nnz, adr, col, val = d.efc_J_rownnz, d.efc_J_rowadr, d.efc_J_colind, d.efc_J
        for r in range(nefc):
            a, n = int(adr[r]), int(nnz[r])
            J[r, col[a:a + n]] = val[a:a + n]
        return J
    return np.array(d.efc_J[:nefc * nv]).reshape(nefc, nv)


def full_M(lib, m, d):
    M = np.zeros((m.nv, m.nv))
    lib.mj_fullM(m, d, M)
    return M


def xfrc_joint(lib, m, d):
    """J' xfrc_applied: Cartesian force/torque at the body CoM mapped to joint space (own sum over bodies)."""
    nv = m.nv
    out = np.zeros(nv)
    jp, jr = np.zeros((3, nv)), np.zeros((3, nv))
    for b in range(1, m.nbody):
        x = np.array(d.xfrc_applied[b])
        if not np.any(x):
            continue
        lib.mj_jac(m, d, jp, jr, np.ascontiguousarray(d.xipos[b]), b)
        out += jp.T @ x[:3] + jr.T @ x[3:]
    return out


def solver_report(d, nisland_used):
    """(max niter over islands, worst last-iteration gradient, min improvement over all saved iterations).
    gradient is None if some island ran more iterations than are recorded (mjNSOLVER) or has no record."""
    worst, minimp, maxit = 0.0, 0.0, 0
    ok = True
    sol = d.solver
    for isl in range(min(max(nisland_used, 1), mjNISLAND)):
        n = int(d.solver_niter[isl])
        maxit = max(maxit, n)
        if n == 0:
            continue
        if n > mjNSOLVER:
            ok = False
            n = mjNSOLVER
        row = sol[isl]
        worst = max(worst, float(row["gradient"][n - 1]))
        minimp = min(minimp, float(row["improvement"][:n].min()))
    if nisland_used > mjNISLAND:
        ok = False
    return maxit, (worst if ok else None), minimp


# ------------------------------------------------------------------ reference constraint law (from the documentation)

class Law:
    """s(e) and f(e) = -grad s(e) for the rows currently in mjData (harvested: types, R, friction loss, friction
    coefficients); the law itself is the documented dual problem solved per conceptual constraint."""

    def __init__(self, m, d):
        nefc = int(d.nefc)
        self.nefc = nefc
        self.R = np.array(d.efc_R[:nefc])
        self.type = np.array(d.efc_type[:nefc])
        self.floss = np.array(d.efc_frictionloss[:nefc])
        self.ne, self.nf = int(d.ne), int(d.nf)
        t = self.type
        self.eq = np.where(t == CNSTR_EQUALITY)[0]
        self.fr = np.where((t == CNSTR_FRICTION_DOF) | (t == CNSTR_FRICTION_TENDON))[0]
        self.ineq = np.where((t == CNSTR_LIMIT_JOINT) | (t == CNSTR_LIMIT_TENDON) | (t == CNSTR_CONTACT_FRICTIONLESS)
                             | (t == CNSTR_CONTACT_PYRAMIDAL))[0]
        self.cones = []     # (first row, dim, mu[dim-1])
        con = d.contact
        i = 0
        ids = np.array(d.efc_id[:nefc])
        while i < nefc:
            if t[i] == CNSTR_CONTACT_ELLIPTIC:
                c = con[int(ids[i])]
                dim = int(c["dim"])
                self.cones.append((i, dim, np.array(c["friction"][:dim - 1], float)))
                i += dim
            else:
                i += 1

    # ---- elliptic cone: min 1/2 sum R f^2 + f.e  s.t. f0>=0, f0^2 >= sum (f_j/mu_j)^2
    @staticmethod
    def cone_solve(R, mu, e):
        e0, et = float(e[0]), e[1:]
        q = et / (R[1:] * mu)                      # unconstrained minimiser, tangential part scaled by 1/mu
        f0 = -e0 / float(R[0])
        if f0 >= 0 and f0 * f0 >= float(q @ q):
            return -e / R
        w = mu * et
        T = math.sqrt(float(w @ w))
        if e0 >= T:                                # e in the dual cone: apex
            return np.zeros(len(e))
        c = R[1:] * mu * mu
        c0 = float(c[0])
        if len(c) == 1 or float(np.abs(c - c0).max()) <= 1e-9 * abs(c0):
            # coupled regulariser (R_j mu_j^2 equal): the problem is rotationally symmetric in g_j = f_j/mu_j
            g0 = (T - e0) / (float(R[0]) + c0)
            f = np.empty(len(e))
            f[0] = g0
            f[1:] = (-g0 / T) * mu * w
            return f
        return Law.cone_solve_general(R, mu, e)

    @staticmethod
    def cone_solve_general(R, mu, e):
        """KKT with one multiplier lam on g(f)=1/2(sum f_j^2/mu_j^2 - f0^2)<=0, solved by bisection on lam."""
        def f_of(lam):
            f = np.empty_like(e)
            f[0] = -e[0] / (R[0] - lam)
            f[1:] = -e[1:] / (R[1:] + lam / (mu * mu))
            return f

        def h(lam):
            f = f_of(lam)
            return float(np.sum((f[1:] / mu) ** 2) - f[0] ** 2)
        if e[0] < 0:
            lo, hi = 0.0, R[0] * (1 - 1e-13)
        else:
            lo, hi = R[0] * (1 + 1e-13), R[0] * 4 + 1.0
            while h(hi) < 0:
                hi *= 4
                if hi > 1e30:
                    break
        lam = _brentq(h, lo, hi, xtol=1e-300, rtol=4e-16, maxiter=500)
        return f_of(lam)

    def force(self, e):
        f = -e / self.R
        if len(self.fr):
            i = self.fr
            f[i] = np.clip(f[i], -self.floss[i], self.floss[i])
        if len(self.ineq):
            i = self.ineq
            f[i] = np.maximum(f[i], 0.0)
        for i, dim, mu in self.cones:
            f[i:i + dim] = self.cone_solve(self.R[i:i + dim], mu, e[i:i + dim])
        return f

    def cost_force(self, e):
        f = self.force(e)
        return float(-(0.5 * np.dot(self.R * f, f) + np.dot(f, e))), f

    def hessian_diag_blocks(self, e, f):
        """Generalised Hessian of s in constraint space: diagonal weights + dense blocks for elliptic cones."""
        w = 1.0 / self.R
        if len(self.fr):
            i = self.fr
            w[i] = np.where(np.abs(-e[i] / self.R[i]) < self.floss[i], w[i], 0.0)
        if len(self.ineq):
            i = self.ineq
            w[i] = np.where(e[i] < 0, w[i], 0.0)
        blocks = []
        for i, dim, mu in self.cones:
            w[i:i + dim] = 0.0
            Rc, ec = self.R[i:i + dim], e[i:i + dim]
            H = np.zeros((dim, dim))
            scale = max(1e-300, float(np.max(np.abs(ec))))
            h = 1e-6 * scale
            for k in range(dim):
                ep, em = ec.copy(), ec.copy()
                ep[k] += h
                em[k] -= h
                H[:, k] = -(self.cone_solve(Rc, mu, ep) - self.cone_solve(Rc, mu, em)) / (2 * h)
            blocks.append((i, dim, 0.5 * (H + H.T)))
        return w, blocks


class Problem:
    """The documented primal problem at the current (m, d) after mj_forward:  c(a) = 1/2 (a-a0)'M(a-a0) + s(Ja-aref)."""

    def __init__(self, lib, m, d):
        self.nv = m.nv
        self.J = dense_J(m, d)
        self.aref = np.array(d.efc_aref[:int(d.nefc)])
        self.M = full_M(lib, m, d)
        self.a0 = np.array(d.qacc_smooth)
        self.qfrc_smooth = np.array(d.qfrc_smooth)
        self.law = Law(m, d)
        self.scale = 1.0 / (float(m.stat.meaninertia) * max(1, m.nv))

    def cost(self, a):
        da = a - self.a0
        s, f = self.law.cost_force(self.J @ a - self.aref)
        return 0.5 * float(da @ self.M @ da) + s

    def cost_grad(self, a):
        da = a - self.a0
        Mda = self.M @ da
        s, f = self.law.cost_force(self.J @ a - self.aref)
        return 0.5 * float(da @ Mda) + s, Mda - self.J.T @ f, f

    def solve(self, maxiter=100):
        return self.solve_from(self.a0, maxiter)

    def solve_from(self, start, maxiter=100):
        """Newton with generalised Hessian and exact line search.  Returns (a, cost, scaled |grad|, iters).
        The problem is strictly convex, so the optimum does not depend on the start point."""
        a = np.array(start, float)
        c, g, f = self.cost_grad(a)
        it = 0
        for it in range(maxiter):
            gn = self.scale * float(np.linalg.norm(g))
            if gn < 1e-13:
                break
            e = self.J @ a - self.aref
            w, blocks = self.law.hessian_diag_blocks(e, f)
            H = self.M + self.J.T @ (w[:, None] * self.J)
            for i, dim, Hb in blocks:
                Jb = self.J[i:i + dim]
                H += Jb.T @ Hb @ Jb
            try:
                step = -np.linalg.solve(H, g)
            except np.linalg.LinAlgError:
                step = -np.linalg.solve(self.M, g)
            slope = float(g @ step)
            if slope >= 0:
                step = -np.linalg.solve(self.M, g)
                slope = float(g @ step)
            # exact line search: root of the monotone directional derivative phi'(t) = grad(a+t*step).step
            an = a + step
            cn, gn_, fn = self.cost_grad(an)
            d1 = float(gn_ @ step)
            if abs(d1) > 1e-9 * abs(slope):
                lo, hi, dhi = 0.0, 1.0, d1
                while dhi < 0 and hi < 1e6:
                    lo = hi
                    hi *= 2
                    dhi = float(self.cost_grad(a + hi * step)[1] @ step)
                if dhi >= 0:
                    t = _brentq(lambda t: float(self.cost_grad(a + t * step)[1] @ step), lo, hi,
                                xtol=1e-300, rtol=1e-9, maxiter=200)
                    an = a + t * step
                    cn, gn_, fn = self.cost_grad(an)
            if cn > c and np.linalg.norm(gn_) >= np.linalg.norm(g):
                break                                      # numerical floor
            a, c, g, f = an, cn, gn_, fn
        return a, c, self.scale * float(np.linalg.norm(g)), it
