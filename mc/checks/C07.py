"""C07 Kinematics and Jacobians are consistent with positions.

Enumerates ALL rooted ordered forests with <= N bodies x the full product of the joint menu per body
x a placement variant (body frame / joint axis / joint anchor / inertial-frame kind / reference angle /
mocap root) x {plain, constraints + dense Jacobian + elliptic cones, constraints + sparse Jacobian +
pyramidal cones}, each at a covering lattice of configurations and velocities.  Oracles:

* an independent numpy forward kinematics (written from the documentation) for body / inertial / geom /
  site / camera frames, joint anchors and axes, subtree centres of mass; every frame matrix must be a
  proper rotation equal to its quaternion;
* central finite differences of the engine's own positions / rotation matrices along
  mj_integratePos(q, +-eps e_i) for every Jacobian function (mj_jac, mj_jacBody, mj_jacBodyCom,
  mj_jacSite, mj_jacGeom, mj_jacSubtreeCom, mj_jacPointAxis; sparse variants mj_jacSparse /
  mj_jacDifPair / mj_jacDotSparse / mj_jacSum against the dense ones), of efc_pos for equality / limit /
  frictionless-contact rows of efc_J (dense and sparse), of ten_length for ten_J, and in time for mj_jacDot;
* cvel / mj_objectVelocity == J qvel; mj_differentiatePos o mj_integratePos = id for |h v| < pi.
"""
import ctypes

import numpy as np

from .. import alphabet as A
from .. import core, mj
from ..mjutil import dense
from . import _c07_ref as Rf
from .C06 import models

LEVEL = "exploration"
META = dict(
    category=LEVEL,
    technique="exhaustive enumeration of all kinematic forests <= N bodies x joint menu x placement variants x constraint "
              "features (small-scope lattice); numpy reference kinematics + central finite differences along mj_integratePos",
    text="Every rooted ordered forest with <=3 (thorough 4) bodies x every assignment of the 7-entry joint menu x placement "
         "variants (identity / offset / rotated body frames, 3 joint axes, anchored / centred joints, inertial frame at the "
         "body frame / offset / rotated / inferred from geoms so that every sameframe shortcut and the simple-body paths are "
         "reached, non-zero joint reference, mocap roots, welded bodies) is compiled by the tree's compiler. At a covering "
         "configuration lattice (incl. quaternions at pi-1e-9) all frames are compared with an independent forward kinematics "
         "and every Jacobian the engine offers, dense and sparse, including every kind of constraint row, is compared with "
         "central differences of the engine's own positions. Exhaustive over the lattice: a missing ancestor column, an axis "
         "in the wrong frame or a wrong chain index only shows for particular tree shapes / joint types, all of which are hit.",
    note="Trusted: numpy, the compiler's model arrays (body_pos, jnt_axis, ... ; C35/C36). Finite differences use eps=1e-6 "
         "(noise ~1e-9), tolerance 1e-6 relative. Not covered: flex / skin / light frames, flex-edge and flex-strain "
         "constraint rows, wrapping tendons, mj_jacSum beyond rigid bodies, contact rows other than sphere-plane / "
         "sphere-sphere (their distance derivative needs C13's closed forms). Ball-limit rows at angle < 1e-3 (|.| not "
         "differentiable), frictionless rows of (nearly) concentric spheres and camera look-at frames within 1e-6 of the vertical are excluded by counted rules. The internal "
         "sparse routines are called through their exported symbols with chains built by the engine's own mj_bodyChain / "
         "mj_mergeChain.",
    design_ref="DESIGN.md §3 C07")

EPS = 1e-6
TOL_FD = 1e-6      # central differences (observed noise <= ~2e-9)
TOL_EX = 1e-11     # exact algebraic relations (observed <= ~1e-14)
PI = np.pi

mjOBJ_BODY, mjOBJ_XBODY, mjOBJ_GEOM, mjOBJ_SITE, mjOBJ_CAMERA = 1, 2, 5, 6, 7
(EQ, FRIC_DOF, FRIC_TEN, LIM_JNT, LIM_TEN, CON_FL, CON_PYR, CON_ELL) = range(8)


def err(a, b, atol=1.0):
    """max|a-b| / (atol + max(|a|,|b|)); NaN / inf propagate (and fail every `<= tol` test)."""
    a = np.asarray(a, float)
    b = np.asarray(b, float)
    if a.size == 0:
        return 0.0
    return float(np.abs(a - b).max() / (atol + max(np.abs(a).max(), np.abs(b).max())))


def vee(W):
    """Axial vector of the skew part of (...,3,3)."""
    return 0.5 * np.stack([W[..., 2, 1] - W[..., 1, 2], W[..., 0, 2] - W[..., 2, 0], W[..., 1, 0] - W[..., 0, 1]], axis=-1)


# ------------------------------------------------------------------ raw access to the exported internal sparse routines

_raw = {}


def raw(lib):
    r = _raw.get(id(lib))
    if r is not None:
        return r
    P, I, D = ctypes.c_void_p, ctypes.c_int, ctypes.c_double
    sig = {
        "mj_bodyChain": (I, [P, I, P]),
        "mj_mergeChain": (I, [P, P, I, I, I]),
        "mj_mergeChainSimple": (I, [P, P, I, I]),
        "mj_jacSparse": (None, [P, P, P, P, P, I, I, P, I]),
        "mj_jacDotSparse": (None, [P, P, P, P, P, I, I, P]),
        "mj_jacDifPair": (I, [P, P, P, I, I, P, P, P, P, P, P, P, P, I, I]),
        "mj_jacSum": (I, [P, P, P, I, P, P, P, P, P, I]),
    }
    r = {}
    for name, (res, args) in sig.items():
        try:
            f = getattr(lib.c, name)
        except AttributeError:
            r = None
            break
        f.restype = res
        f.argtypes = args
        r[name] = f
    _raw[id(lib)] = r
    return r


def ptr(a):
    return None if a is None else a.ctypes.data


# ------------------------------------------------------------------ per-model state

class Case:
    def __init__(self, lib, part, par, js, pv, feat):
        self.lib, self.part = lib, part
        self.par, self.js, self.pv, self.feat = par, js, pv, feat
        self.xml = Rf.build_xml(par, js, pv, feat)
        self.m = lib.load_xml(self.xml)
        self.d = lib.make_data(self.m)
        self.d2 = lib.make_data(self.m)
        self.mv = Rf.ModelView(self.m)
        self.cons = feat != "plain"
        self.sparse = feat == "sparse"
        self.desc = "parents=%s joints=%s pv=%d feat=%s" % (par, js, pv, feat)
        self.maxerr = {}

    def free(self):
        self.d.free()
        self.d2.free()
        self.m.free()

    def bad(self, name, e, tol, state):
        if e > self.maxerr.get(name, 0):
            self.maxerr[name] = e
        if not (e <= tol):
            self.part.violation(name, "%s: error %.3g > %.1g at %s state=%s" % (name, e, tol, self.desc, core.jsonable(state)),
                                dict(state, xml=self.xml, parents=self.par, joints=self.js, pv=self.pv, feat=self.feat, check=name))

    # evaluate positions at qpos into data dd
    def kin(self, dd, qpos, qvel=None, full=False):
        lib, m = self.lib, self.m
        dd.qpos[:] = qpos
        if qvel is not None:
            dd.qvel[:] = qvel
        if self.mocap is not None:
            dd.mocap_pos[:] = self.mocap[0]
            dd.mocap_quat[:] = self.mocap[1]
        if full or self.cons:
            lib.mj_forward(m, dd)
        else:
            lib.mj_kinematics(m, dd)
            lib.mj_comPos(m, dd)
            lib.mj_camlight(m, dd)

    def gather(self, dd):
        """Positions (NP,3), rotation matrices (NR,3,3), body-fixed axis vectors (nb,3) of data dd."""
        mv = self.mv
        xpos = np.array(dd.xpos).reshape(-1, 3)
        xmat = np.array(dd.xmat).reshape(-1, 3, 3)
        pts = xpos + xmat @ Rf.PT_LOCAL
        axs = xmat @ Rf.AX_LOCAL
        P = [xpos, np.array(dd.xipos).reshape(-1, 3), np.array(dd.subtree_com).reshape(-1, 3), pts]
        Rm = [xmat, np.array(dd.ximat).reshape(-1, 3, 3)]
        if mv.ngeom:
            P.append(np.array(dd.geom_xpos).reshape(-1, 3))
            Rm.append(np.array(dd.geom_xmat).reshape(-1, 3, 3))
        if mv.nsite:
            P.append(np.array(dd.site_xpos).reshape(-1, 3))
            Rm.append(np.array(dd.site_xmat).reshape(-1, 3, 3))
        if mv.ncam:
            P.append(np.array(dd.cam_xpos).reshape(-1, 3))
            Rm.append(np.array(dd.cam_xmat).reshape(-1, 3, 3))
        return np.concatenate(P), np.concatenate(Rm), axs

    def efc(self, dd):
        """(types, ids, pos, dense J) of the active constraint rows of dd."""
        m = self.m
        n = dd.nefc
        nv = m.nv
        ty = np.array(dd.efc_type[:n])
        ids = np.array(dd.efc_id[:n])
        pos = np.array(dd.efc_pos[:n])
        if n == 0:
            return ty, ids, pos, np.zeros((0, nv))
        if self.sparse:
            nnz = np.array(dd.efc_J_rownnz[:n])
            adr = np.array(dd.efc_J_rowadr[:n])
            J = np.zeros((n, nv))
            tot = int(nnz.sum())
            if tot:
                rows = np.repeat(np.arange(n), nnz)
                idx = np.arange(tot) - np.repeat(np.cumsum(nnz) - nnz, nnz) + np.repeat(adr, nnz)
                J[rows, np.array(dd.efc_J_colind)[idx]] = np.array(dd.efc_J)[idx]
        else:
            J = np.array(dd.efc_J[:n * nv]).reshape(n, nv)
        return ty, ids, pos, J


def check_frames(c, q, st):
    """Frames are proper rotations equal to their quaternions and equal to the reference kinematics."""
    d, mv = c.d, c.mv
    ref = Rf.ref_fk(mv, q, *(c.mocap or (None, None)))
    nb = mv.nbody
    xmat = np.array(d.xmat).reshape(nb, 3, 3)
    xquat = np.array(d.xquat).reshape(nb, 4)
    eye = np.eye(3)
    for name, Ms in (("xmat", xmat), ("ximat", np.array(d.ximat).reshape(nb, 3, 3)),
                     ("geom_xmat", np.array(d.geom_xmat).reshape(-1, 3, 3)), ("site_xmat", np.array(d.site_xmat).reshape(-1, 3, 3)),
                     ("cam_xmat", np.array(d.cam_xmat).reshape(-1, 3, 3))):
        if Ms.shape[0] == 0:
            continue
        if name == "cam_xmat":
            Ms = Ms[~ref["cam_degenerate"]]
        c.bad("%s not orthonormal" % name, float(np.max(np.abs(Ms @ np.transpose(Ms, (0, 2, 1)) - eye))), TOL_EX, st)
        c.bad("%s det != +1" % name, float(np.max(np.abs(np.linalg.det(Ms) - 1))), TOL_EX, st)
    c.bad("xquat not unit", float(np.max(np.abs(np.linalg.norm(xquat, axis=1) - 1))), TOL_EX, st)
    c.bad("xmat != quat2mat(xquat)", err(xmat, np.array([Rf.q2m(x) for x in xquat])), TOL_EX, st)
    for name in ("xpos", "xmat", "xipos", "ximat", "subtree_com", "geom_xpos", "geom_xmat", "site_xpos", "site_xmat"):
        if name in ref:
            c.bad("%s != reference kinematics" % name, err(np.array(getattr(d, name)).reshape(ref[name].shape), ref[name]), TOL_EX, st)
    # joint anchors / axes (slide anchors are rendering-only: not compared)
    xanchor = np.array(d.xanchor).reshape(-1, 3)
    xaxis = np.array(d.xaxis).reshape(-1, 3)
    if mv.njnt:
        rot = np.isin(mv.jnt_type, (Rf.FREE, Rf.BALL, Rf.HINGE))
        c.bad("xanchor != reference kinematics", err(xanchor[rot], ref["xanchor"][rot]), TOL_EX, st)
        c.bad("xaxis != reference kinematics", err(xaxis, ref["xaxis"]), TOL_EX, st)
    if mv.ncam:
        ok = ~ref["cam_degenerate"]
        c.part.add("boundary_excluded", int(np.sum(~ok)))
        c.bad("cam_xpos != reference kinematics", err(np.array(d.cam_xpos).reshape(-1, 3)[ok], ref["cam_xpos"][ok]), TOL_EX, st)
        c.bad("cam_xmat != reference kinematics", err(np.array(d.cam_xmat).reshape(-1, 3, 3)[ok], ref["cam_xmat"][ok], atol=1.0), 1e-9, st)
    return ref


def fd_jacobians(c, q, kin_fd=True):
    """Central differences along mj_integratePos(q, +-eps e_i) of efc_pos / ten_length and (kin_fd) of all gathered
    positions / rotation matrices / body-fixed axes."""
    lib, m, d2 = c.lib, c.m, c.d2
    nv = m.nv
    fd = {}
    if kin_fd:
        P0, R0, A0 = c.gather(c.d)
        Jp = np.zeros((P0.shape[0], 3, nv))
        Jr = np.zeros((R0.shape[0], 3, nv))
        Ja = np.zeros((A0.shape[0], 3, nv))
        RT = np.transpose(R0, (0, 2, 1))
        fd.update(P0=P0, R0=R0, A0=A0, Jp=Jp, Jr=Jr, Ja=Ja)
    efc0 = c.efc(c.d) if c.cons else None
    Jefc = np.zeros((len(efc0[0]), nv)) if c.cons else None
    efc_ok = np.ones(nv, bool)
    Jten = np.zeros((m.ntendon, nv))
    for i in range(nv):
        e = np.zeros(nv)
        e[i] = 1.0
        out = []
        for sgn in (1.0, -1.0):
            qq = np.array(q)
            lib.mj_integratePos(m, qq, e, sgn * EPS)
            c.kin(d2, qq)
            g = c.gather(d2) if kin_fd else None
            ef = c.efc(d2) if c.cons else None
            tl = np.array(d2.ten_length) if m.ntendon else None
            out.append((g, ef, tl))
        (gp, ep, tp), (gm, em, tm) = out
        if kin_fd:
            Jp[:, :, i] = (gp[0] - gm[0]) / (2 * EPS)
            Jr[:, :, i] = vee(((gp[1] - gm[1]) / (2 * EPS)) @ RT)
            Ja[:, :, i] = (gp[2] - gm[2]) / (2 * EPS)
        if m.ntendon:
            Jten[:, i] = (tp - tm) / (2 * EPS)
        if c.cons:
            same = all(len(x[0]) == len(efc0[0]) and np.array_equal(x[0], efc0[0]) and np.array_equal(x[1], efc0[1]) for x in (ep, em))
            if same:
                Jefc[:, i] = (ep[2] - em[2]) / (2 * EPS)
            else:
                efc_ok[i] = False
    fd.update(efc0=efc0, Jefc=Jefc, efc_ok=efc_ok, Jten=Jten)
    return fd


def check_tendon(c, st, fd):
    m, d = c.m, c.d
    if m.ntendon:
        Jt = dense(m.ten_J_rownnz, m.ten_J_rowadr, m.ten_J_colind, d.ten_J, m.ntendon, m.nv)
        c.bad("ten_J != FD ten_length", err(Jt, fd["Jten"]), TOL_FD, st)
        c.Jt = Jt


def fill_dense_jac(c):
    """mj_jac at one body-fixed point per body (input of the sparse-vs-dense comparisons)."""
    lib, m, d = c.lib, c.m, c.d
    nv = m.nv
    xpos = np.array(d.xpos).reshape(-1, 3)
    xmat = np.array(d.xmat).reshape(-1, 3, 3)
    c.dense_jac = {}
    for b in range(m.nbody):
        jp, jr = np.zeros((3, nv)), np.zeros((3, nv))
        pt = xpos[b] + xmat[b] @ Rf.PT_LOCAL
        lib.mj_jac(m, d, jp, jr, pt, b)
        c.dense_jac[b] = (pt, jp, jr)


def check_jacobians(c, q, st, fd):
    lib, m, d, mv = c.lib, c.m, c.d, c.mv
    nv, nb = m.nv, m.nbody
    # offsets into the gathered arrays
    oP = {"xpos": 0, "xipos": nb, "com": 2 * nb, "pt": 3 * nb, "geom": 4 * nb, "site": 4 * nb + mv.ngeom, "cam": 4 * nb + mv.ngeom + mv.nsite}
    oR = {"xmat": 0, "ximat": nb, "geom": 2 * nb, "site": 2 * nb + mv.ngeom, "cam": 2 * nb + mv.ngeom + mv.nsite}
    Jp, Jr, Ja, P0 = fd["Jp"], fd["Jr"], fd["Ja"], fd["P0"]
    jp, jr = np.zeros((3, nv)), np.zeros((3, nv))
    jp2, jr2 = np.zeros((3, nv)), np.zeros((3, nv))
    c.dense_jac = {}
    for b in range(nb):
        lib.mj_jacBody(m, d, jp, jr, b)
        c.bad("mj_jacBody jacp != FD xpos", err(jp, Jp[oP["xpos"] + b]), TOL_FD, st)
        c.bad("mj_jacBody jacr != FD xmat", err(jr, Jr[oR["xmat"] + b]), TOL_FD, st)
        lib.mj_jacBodyCom(m, d, jp, jr, b)
        c.bad("mj_jacBodyCom jacp != FD xipos", err(jp, Jp[oP["xipos"] + b]), TOL_FD, st)
        c.bad("mj_jacBodyCom jacr != FD ximat", err(jr, Jr[oR["ximat"] + b]), TOL_FD, st)
        lib.mj_jacSubtreeCom(m, d, jp, b)
        c.bad("mj_jacSubtreeCom != FD subtree_com", err(jp, Jp[oP["com"] + b]), TOL_FD, st)
        pt = np.array(P0[oP["pt"] + b])
        lib.mj_jac(m, d, jp, jr, pt, b)
        c.bad("mj_jac jacp != FD body-fixed point", err(jp, Jp[oP["pt"] + b]), TOL_FD, st)
        c.bad("mj_jac jacr != FD xmat", err(jr, Jr[oR["xmat"] + b]), TOL_FD, st)
        c.dense_jac[b] = (pt, jp.copy(), jr.copy())
        jp2[:] = 7
        jr2[:] = 7
        lib.mj_jac(m, d, jp2, None, pt, b)
        lib.mj_jac(m, d, None, jr2, pt, b)
        c.bad("mj_jac with NULL jacr/jacp differs", max(err(jp2, jp), err(jr2, jr)), 0.0, st)
        ax = np.array(fd["A0"][b])
        lib.mj_jacPointAxis(m, d, jp2, jr2, pt, ax, b)
        c.bad("mj_jacPointAxis jacPoint != FD point", err(jp2, Jp[oP["pt"] + b]), TOL_FD, st)
        c.bad("mj_jacPointAxis jacAxis != FD axis", err(jr2, Ja[b]), TOL_FD, st)
    for g in range(mv.ngeom):
        lib.mj_jacGeom(m, d, jp, jr, g)
        c.bad("mj_jacGeom jacp != FD geom_xpos", err(jp, Jp[oP["geom"] + g]), TOL_FD, st)
        c.bad("mj_jacGeom jacr != FD geom_xmat", err(jr, Jr[oR["geom"] + g]), TOL_FD, st)
    for s in range(mv.nsite):
        lib.mj_jacSite(m, d, jp, jr, s)
        c.bad("mj_jacSite jacp != FD site_xpos", err(jp, Jp[oP["site"] + s]), TOL_FD, st)
        c.bad("mj_jacSite jacr != FD site_xmat", err(jr, Jr[oR["site"] + s]), TOL_FD, st)
    c.oP, c.oR = oP, oR


def check_sparse(c, st):
    """Sparse variants against the (FD-validated) dense mj_jac."""
    lib, m, d, mv = c.lib, c.m, c.d, c.mv
    r = raw(lib)
    if r is None:
        c.part.add("sparse_symbols_unavailable", 1)
        return
    nv, nb = m.nv, m.nbody
    if nv == 0:
        return
    chain = np.zeros(nv + 1, np.int32)
    jp, jr = np.zeros(3 * nv + 3), np.zeros(3 * nv + 3)
    dj = c.dense_jac

    def scatter(j, NV):
        out = np.zeros((3, nv))
        if NV:
            out[:, chain[:NV]] = j[:3 * NV].reshape(3, NV)
        return out

    for b in range(nb):
        NV = r["mj_bodyChain"](m.ptr, b, ptr(chain))
        pt, jpd, jrd = dj[b]
        jp[:] = 5
        jr[:] = 5
        r["mj_jacSparse"](m.ptr, d.ptr, ptr(jp), ptr(jr), ptr(pt), b, NV, ptr(chain), 0)
        c.bad("mj_jacSparse(mj_bodyChain) != mj_jac", max(err(scatter(jp, NV), jpd), err(scatter(jr, NV), jrd)), TOL_EX, st)
        c.part.add("sparse_calls", 1)
    # pairs: merged chains with and without common-dof skipping
    jd = [np.zeros(3 * nv + 3) for _ in range(6)]
    for b1 in range(nb):
        for b2 in range(nb):
            if b1 == b2:
                continue
            p1, j1p, j1r = dj[b1]
            p2, j2p, j2r = dj[b2]
            for issparse in (1, 0):
                for skip in (0, 1):
                    # skipping common dofs is only meaningful for one shared point (contacts)
                    q1, q2 = (p1, p2) if not skip else (p1, p1)
                    if skip:
                        lib.mj_jac(m, d, jd[4][:3 * nv].reshape(3, nv), jd[5][:3 * nv].reshape(3, nv), q2, b2)
                        refp = jd[4][:3 * nv].reshape(3, nv) - j1p
                        refr = jd[5][:3 * nv].reshape(3, nv) - j1r
                    else:
                        refp, refr = j2p - j1p, j2r - j1r
                    for k in range(4):
                        jd[k][:] = 3
                    b1r, b2r, bdr = np.zeros(3 * nv + 3), np.zeros(3 * nv + 3), np.zeros(3 * nv + 3)
                    NV = r["mj_jacDifPair"](m.ptr, d.ptr, ptr(chain), b1, b2, ptr(q1), ptr(q2),
                                            ptr(jd[0]), ptr(jd[1]), ptr(jd[2]), ptr(b1r), ptr(b2r), ptr(bdr), issparse, skip)
                    if issparse:
                        gp, gr = scatter(jd[2], NV), scatter(bdr, NV)
                    else:
                        gp = jd[2][:3 * nv].reshape(3, nv) if NV else np.zeros((3, nv))
                        gr = bdr[:3 * nv].reshape(3, nv) if NV else np.zeros((3, nv))
                    c.bad("mj_jacDifPair(%s) != mj_jac(b2) - mj_jac(b1)" % ("sparse" if issparse else "dense"),
                          max(err(gp, refp), err(gr, refr)), TOL_EX, dict(st, b1=b1, b2=b2, skipcommon=skip))
                    c.part.add("sparse_calls", 1)
    # weighted sum of body Jacobians at one point (sparse or dense according to the model option)
    if nb >= 2:
        bodies = np.array([nb - 1, 1, 0, nb - 2][: min(4, nb)], np.int32)
        w = np.array([0.6, -1.0, 0.25, 0.4][: len(bodies)])
        pt = dj[nb - 1][0]
        refp, refr = np.zeros((3, nv)), np.zeros((3, nv))
        a, bb = np.zeros((3, nv)), np.zeros((3, nv))
        for k, b in enumerate(bodies):
            lib.mj_jac(m, d, a, bb, pt, int(b))
            refp += w[k] * a
            refr += w[k] * bb
        for flg_rot in (0, 1):
            jp[:] = 0
            jr[:] = 0
            NV = r["mj_jacSum"](m.ptr, d.ptr, ptr(chain), len(bodies), ptr(bodies), ptr(w), ptr(pt), ptr(jp), ptr(jr), flg_rot)
            if c.sparse:
                gp, gr = scatter(jp, NV), scatter(jr, NV)
            else:
                gp, gr = jp[:3 * nv].reshape(3, nv), jr[:3 * nv].reshape(3, nv)
            e = err(gp, refp)
            if flg_rot:
                e = max(e, err(gr, refr))
            c.bad("mj_jacSum != sum w_i mj_jac(body_i)", e, TOL_EX, dict(st, flg_rot=flg_rot))
            c.part.add("sparse_calls", 1)


def check_efc(c, q, st, fd):
    """Every constraint row: FD of efc_pos (equality / limit / frictionless contact), closed forms for the others."""
    lib, m, d, mv = c.lib, c.m, c.d, c.mv
    nv = m.nv
    ty, ids, pos, J = fd["efc0"]
    n = len(ty)
    if n == 0:
        return
    ok = fd["efc_ok"]
    if not np.all(ok):
        c.part.add("boundary_excluded", int(np.sum(~ok)))
    Jfd = fd["Jefc"]
    con = d.contact
    jp1, jp2, jr1, jr2 = (np.zeros((3, nv)) for _ in range(4))
    r = 0
    while r < n:
        t, i = ty[r], ids[r]
        sts = dict(st, efc_row=int(r), efc_type=int(t), efc_id=int(i))
        if t in (EQ, LIM_JNT, LIM_TEN, CON_FL):
            skip = False
            if t == LIM_JNT and mv.jnt_type[i] == Rf.BALL:
                a = mv.jnt_qposadr[i]
                qq = np.array(q[a:a + 4]) / np.linalg.norm(q[a:a + 4])
                ang = 2 * np.arctan2(np.linalg.norm(qq[1:]), abs(qq[0]))
                if ang < 1e-3 or ang > PI - 1e-3:
                    skip = True           # |angle| is not differentiable at 0; wraps at pi
            if t == CON_FL:
                cc = con[i]
                g1, g2 = int(cc["geom"][0]), int(cc["geom"][1])
                if mv.geom_type[g1] == 2 and mv.geom_type[g2] == 2 and cc["dist"] + mv.geom_size[g1][0] + mv.geom_size[g2][0] < 1e-3:
                    skip = True           # (nearly) concentric spheres: |c2 - c1| is not differentiable, the normal is arbitrary
            if skip:
                c.part.add("boundary_excluded", 1)
            else:
                name = {EQ: "equality", LIM_JNT: "joint-limit", LIM_TEN: "tendon-limit", CON_FL: "frictionless-contact"}[t]
                if t == EQ:
                    name += " (%s)" % {0: "connect", 1: "weld", 2: "joint", 3: "tendon"}.get(int(m.eq_type[i]), "other")
                c.bad("efc_J %s row != FD efc_pos (%s)" % (name, c.feat), err(J[r][ok], Jfd[r][ok]), TOL_FD, sts)
                c.part.add("efc_rows_fd", 1)
            r += 1
        elif t == FRIC_DOF:
            e = np.zeros(nv)
            e[i] = 1
            c.bad("efc_J frictionloss dof row != unit row", err(J[r], e), 0.0, sts)
            c.part.add("efc_rows_closed", 1)
            r += 1
        elif t == FRIC_TEN:
            c.bad("efc_J frictionloss tendon row != ten_J", err(J[r], c.Jt[i]), TOL_EX, sts)
            c.part.add("efc_rows_closed", 1)
            r += 1
        else:
            cc = con[i]
            dim = int(cc["dim"])
            fr = np.array(cc["frame"]).reshape(3, 3)
            p = np.array(cc["pos"])
            g1, g2 = int(cc["geom"][0]), int(cc["geom"][1])
            lib.mj_jac(m, d, jp1, jr1, p, int(mv.geom_bodyid[g1]))
            lib.mj_jac(m, d, jp2, jr2, p, int(mv.geom_bodyid[g2]))
            full = np.concatenate([fr @ (jp2 - jp1), fr @ (jr2 - jr1)])[:dim]
            if t == CON_ELL:
                exp = full
            else:
                mu = np.array(cc["friction"])
                exp = np.concatenate([[full[0] + mu[k - 1] * full[k], full[0] - mu[k - 1] * full[k]] for k in range(1, dim)])
            nr = exp.shape[0]
            c.bad("efc_J %s contact rows != frame * (J2 - J1) at contact point (%s)" % ("elliptic" if t == CON_ELL else "pyramidal", c.feat),
                  err(J[r:r + nr], exp), TOL_EX, dict(sts, dim=dim))
            c.part.add("efc_rows_closed", nr)
            r += nr


def check_velocities(c, q, v, st, fd):
    """cvel, mj_objectVelocity == J qvel; mj_jacDot == time derivative of J (dense and sparse)."""
    lib, m, d, d2, mv = c.lib, c.m, c.d, c.d2, c.mv
    nv, nb = m.nv, m.nbody
    Jp, Jr, P0, R0 = fd["Jp"], fd["Jr"], fd["P0"], fd["R0"]
    oP, oR = c.oP, c.oR
    cvel = np.array(d.cvel).reshape(nb, 6)
    com = P0[oP["com"]:oP["com"] + nb]
    res = np.zeros(6)
    scale = 1.0 + float(np.max(np.abs(v)))
    Vp = Jp @ v            # (NP,3) linear velocity of every gathered point
    Vr = Jr @ v            # (NR,3) angular velocity of every gathered frame
    # spatial velocity about the subtree com of the root: transport the FD body velocity rigidly to that point
    w = Vr[oR["xmat"]:oR["xmat"] + nb]
    rr = com[mv.body_rootid] - P0[oP["xpos"]:oP["xpos"] + nb]
    exp = np.concatenate([w, Vp[oP["xpos"]:oP["xpos"] + nb] + np.cross(w, rr)], axis=1)
    c.bad("cvel != J qvel (at root subtree com)", err(cvel, exp, atol=scale), TOL_FD, st)
    # mj_objectVelocity for every object with a spatial frame, world and local orientation
    for ot, key, rkey, num in ((mjOBJ_BODY, "xipos", "ximat", nb), (mjOBJ_XBODY, "xpos", "xmat", nb), (mjOBJ_GEOM, "geom", "geom", mv.ngeom),
                               (mjOBJ_SITE, "site", "site", mv.nsite), (mjOBJ_CAMERA, "cam", "cam", mv.ncam)):
        ids = [k for k in range(num) if not (ot == mjOBJ_CAMERA and mv.cam_mode[k] != 0)]   # only body-fixed cameras move with the body
        if not ids:
            continue
        ids = np.array(ids)
        vp, vr, Rm = Vp[oP[key] + ids], Vr[oR[rkey] + ids], R0[oR[rkey] + ids]
        for loc in (0, 1):
            got = np.zeros((len(ids), 6))
            for n_, k in enumerate(ids):
                lib.mj_objectVelocity(m, d, ot, int(k), res, loc)
                got[n_] = res
            if loc:
                exp = np.concatenate([np.einsum("kji,kj->ki", Rm, vr), np.einsum("kji,kj->ki", Rm, vp)], axis=1)
            else:
                exp = np.concatenate([vr, vp], axis=1)
            c.bad("mj_objectVelocity(%s) != J qvel" % {1: "body", 2: "xbody", 5: "geom", 6: "site", 7: "camera"}[ot],
                  err(got, exp, atol=scale), TOL_FD, dict(st, local=loc))
    # mj_jacDot: central difference in time of mj_jac at the body-fixed point
    h = EPS
    Jt = {}
    for sgn in (1.0, -1.0):
        qq = np.array(q)
        lib.mj_integratePos(m, qq, v, sgn * h)
        c.kin(d2, qq)
        xpos = np.array(d2.xpos).reshape(-1, 3)
        xmat = np.array(d2.xmat).reshape(-1, 3, 3)
        for b in range(nb):
            jp, jr = np.zeros((3, nv)), np.zeros((3, nv))
            lib.mj_jac(m, d2, jp, jr, xpos[b] + xmat[b] @ Rf.PT_LOCAL, b)
            Jt[(sgn, b)] = (jp, jr)
    r = raw(lib)
    chain = np.zeros(nv + 1, np.int32)
    jp, jr = np.zeros((3, nv)), np.zeros((3, nv))
    sp, sr = np.zeros(3 * nv + 3), np.zeros(3 * nv + 3)
    for b in range(nb):
        pt = c.dense_jac[b][0]
        lib.mj_jacDot(m, d, jp, jr, pt, b)
        dp = (Jt[(1.0, b)][0] - Jt[(-1.0, b)][0]) / (2 * h)
        dr = (Jt[(1.0, b)][1] - Jt[(-1.0, b)][1]) / (2 * h)
        c.bad("mj_jacDot jacp != d/dt mj_jac", err(jp, dp, atol=scale), TOL_FD, dict(st, body=b))
        c.bad("mj_jacDot jacr != d/dt mj_jac", err(jr, dr, atol=scale), TOL_FD, dict(st, body=b))
        if r is not None and nv:
            NV = r["mj_bodyChain"](m.ptr, b, ptr(chain))
            # a simple body's chain holds only its own dofs, which is its full ancestor chain
            sp[:] = 2
            sr[:] = 2
            r["mj_jacDotSparse"](m.ptr, d.ptr, ptr(sp), ptr(sr), ptr(pt), b, NV, ptr(chain))
            gp, gr = np.zeros((3, nv)), np.zeros((3, nv))
            if NV:
                gp[:, chain[:NV]] = sp[:3 * NV].reshape(3, NV)
                gr[:, chain[:NV]] = sr[:3 * NV].reshape(3, NV)
            c.bad("mj_jacDotSparse != mj_jacDot", max(err(gp, jp), err(gr, jr)), TOL_EX, dict(st, body=b))


def quat_ranges(mv):
    """[(qpos adr, dof adr)] of every quaternion in qpos."""
    out = []
    for j in range(mv.njnt):
        if mv.jnt_type[j] == Rf.BALL:
            out.append((mv.jnt_qposadr[j], mv.jnt_dofadr[j]))
        elif mv.jnt_type[j] == Rf.FREE:
            out.append((mv.jnt_qposadr[j] + 3, mv.jnt_dofadr[j] + 3))
    return out


def check_diff_integ(c, qs):
    """mj_differentiatePos o mj_integratePos = id for |h v| < pi, and the reverse composition on lattice pairs."""
    lib, m, mv = c.lib, c.m, c.mv
    nv = m.nv
    if nv == 0:
        return
    qr = quat_ranges(mv)
    pats = A.qvel_lattice(nv)[1:]
    pats = [p / np.max(np.abs(p)) for p in pats]
    for qi, q in enumerate(qs):
        for pi_, u in enumerate(pats):
            unit = pi_ < nv
            for mag in ((1e-9, 0.5, 3.0) if unit else (1e-9, 0.5, 1.8)):
                for h in (1.0, 0.01, 2.0):
                    v = u * mag / h
                    st = {"qpos": q, "qvel": v, "h": h}
                    if any(np.linalg.norm(v[da:da + 3]) * h >= PI - 1e-6 for _, da in qr):
                        c.part.add("boundary_excluded", 1)
                        continue
                    q2 = np.array(q)
                    lib.mj_integratePos(m, q2, v, h)
                    vv = np.full(nv, 9.0)
                    lib.mj_differentiatePos(m, vv, h, np.array(q), q2)
                    c.part.count(1, key=None)
                    c.bad("mj_differentiatePos(mj_integratePos(q,v,h)) != v", float(np.max(np.abs(vv - v) * h)), 1e-12, st)
                    for qa, _ in qr:
                        c.bad("mj_integratePos leaves a non-unit quaternion", abs(np.linalg.norm(q2[qa:qa + 4]) - 1), TOL_EX, st)
        # reverse: integrate(q1, differentiate(q1, q2)) == q2 up to quaternion sign
        q1, q2 = q, qs[(qi + 1) % len(qs)]
        for h in (1.0, 0.01):
            vv = np.zeros(nv)
            lib.mj_differentiatePos(m, vv, h, np.array(q1), np.array(q2))
            q3 = np.array(q1)
            lib.mj_integratePos(m, q3, vv, h)
            q3s, q2s = np.array(q3), np.array(q2)
            for qa, _ in qr:
                if q3s[qa:qa + 4] @ q2s[qa:qa + 4] < 0:
                    q3s[qa:qa + 4] *= -1
            c.bad("mj_integratePos(q1, mj_differentiatePos(q1,q2)) != q2", float(np.max(np.abs(q3s - q2s))), 1e-12,
                  {"qpos1": q1, "qpos2": q2, "h": h})


def check_model(lib, part, par, js, pv, feat, thorough=False):
    c = Case(lib, part, par, js, pv, feat)
    m, d, mv = c.m, c.d, c.mv
    nv = m.nv
    c.mocap = None
    if m.nmocap:
        mp = np.array(m.body_pos)[np.array(m.body_mocapid) >= 0] + np.array([0.07, -0.05, 0.11])
        mq = np.tile(np.array([0.9, -0.4, 1.1, 0.5]), (m.nmocap, 1))        # deliberately not normalised
        c.mocap = (mp, mq)
    qs = A.qpos_lattice(m, limit=12)
    if c.cons and not thorough:
        qs = qs[:8]
    if len(par) >= 4:
        qs = qs[:6]
    vs = A.qvel_lattice(nv, units=False)[1:]
    if nv:
        vs = vs + [np.array([(-1.0) ** (i // 2) * (0.4 + 0.25 * ((i * 7) % 5)) for i in range(nv)])]
    branching = len(set(par)) < len(par)
    for qi, q in enumerate(qs):
        st = {"qpos": q}
        v0 = vs[qi % 2] if vs else None          # velocities enter linearly (J v) / bilinearly (Jdot): one generic pattern per state
        c.kin(d, q, v0, full=True)
        part.count(1, key=(par, js, pv, feat, qi) if (nv >= 3 or branching) else None,
                   sample={"parents": par, "joints": js, "pv": pv, "feat": feat, "qpos": q} if (qi == 1 and nv >= 4) else None)
        check_frames(c, q, st)
        if nv == 0:
            continue
        # the kinematic Jacobians do not depend on the constraint features: with constraints they are re-checked at the
        # first lattice state only, the other states go to the constraint rows
        kin_fd = (not c.cons) or qi == 0
        fd = fd_jacobians(c, q, kin_fd)
        check_tendon(c, st, fd)
        if kin_fd:
            check_jacobians(c, q, st, fd)
        else:
            fill_dense_jac(c)
        if qi % 4 == 0:
            check_sparse(c, st)
        if c.cons:
            check_efc(c, q, st, fd)
        if kin_fd:
            check_velocities(c, q, v0, dict(st, qvel=v0), fd)
    if feat == "plain":
        check_diff_integ(c, qs[:6] if thorough else qs[:4])
    mx = part.setdefault("maxerr", {})       # calibration aid only (ignored by Ctx.merge)
    for k, e in c.maxerr.items():
        if e > mx.get(k, (0.0, ""))[0]:
            mx[k] = (float(e), c.desc)
    c.free()


def _chunk(chunk):
    lib = mj.load()
    part = core.Part()
    for par, js, pv, feat, thorough in chunk:
        try:
            check_model(lib, part, par, js, pv, feat, thorough)
        except mj.MjError as e:
            part.violation("engine error", "unexpected mju_error/compile error at parents=%s joints=%s pv=%d feat=%s: %s" % (par, js, pv, feat, e),
                           {"parents": par, "joints": js, "pv": pv, "feat": feat})
    return part


FEATS = ("plain", "dense", "sparse")


def enumerate_items(thorough):
    items = []
    idx = 0
    for par, js in models(3, None):
        full = thorough or len(par) <= 2
        pvs = (0, 1, 2) if full else (idx % 3,)
        # quick tier, 3 bodies: one placement variant and one of the two constraint variants per model, rotating with the index
        feats = FEATS if full else ("plain", ("dense", "sparse")[(idx // 3) % 2])
        for pv in pvs:
            for feat in feats:
                items.append((par, js, pv, feat, thorough))
        idx += 1
    if thorough:
        menu4 = ["none", "hinge", "slide", "ball", "free", "hinge2"]
        for par, js in models(4, menu4):
            if len(par) < 4:
                continue
            # 4 bodies: always the plain variant, the two constraint variants alternate with the model index
            for feat in ("plain", ("dense", "sparse")[(idx // 3) % 2]):
                items.append((par, js, idx % 3, feat, thorough))
            idx += 1
    return items


def run(ctx):
    lib = mj.load()
    if raw(lib) is None:
        ctx.extra["sparse_symbols_unavailable"] = 1
    items = enumerate_items(ctx.thorough)
    core.pmap(ctx, _chunk, items, nchunks=core.NCPU * 8)
    ctx.extra["models"] = len(items)
    ctx.rule = ("all rooted ordered forests with <=3 bodies x full product of the joint menu %s per body (free only on roots) x placement "
                "variant pv (all 3 for <=2 bodies%s; body frame / joint axis / anchor / inertial-frame kind S,G,I,R / ref / mocap root "
                "rotate with body index + pv) x features {plain, constraints+dense+elliptic, constraints+sparse+pyramidal}%s; per model "
                "a covering lattice of <=12 configurations (<=8 for the constraint variants in the quick tier, 6 for 4 bodies; scalars {0,.37,-1.3}, quaternions {id, 90deg, (.5,.5,.5,.5), pi-1e-9}), 2 "
                "alternating velocity patterns; central differences eps=1e-6 along mj_integratePos for every dof. non-trivial = (model,state) with "
                "nv>=3 or a branching forest"
                % (list(A.JOINTS), "; 3 bodies: pv = index mod 3 and plain + one constraint variant alternating with index div 3" if not ctx.thorough else " and 3 bodies",
                   "; 4 bodies: menu without slidehinge, pv = index mod 3, plain + one alternating constraint variant" if ctx.thorough else ""))
    ctx.assumptions = ["compiled model arrays (body_pos/quat, jnt_pos/axis, geom/site/cam local poses, masses) are the input of the reference kinematics",
                       "finite differences: eps=1e-6, tolerance 1e-6 relative (noise ~1e-9); exact relations 1e-11",
                       "contact rows checked by FD only for condim 1 (sphere-plane / sphere-sphere, exact distance derivative); "
                       "frictional rows against frame*(J2-J1) built from the FD-validated mj_jac",
                       "internal sparse routines (mj_jacSparse, mj_jacDifPair, mj_jacDotSparse, mj_jacSum) are reached through exported symbols"]
