"""C30 helpers: model family (MJCF text), pre-states, injection sites, bad-value alphabet and the
documentation-derived reference model of the checking part of mj_step.

The reference is written from doc/programming/simulation.rst (listing of mj_step: checkPos, checkVel,
forward, checkAcc, integrator), doc/computation/index.rst "Stages" 1 and 24 (divergence detected ->
state automatically reset, corresponding warning raised), doc/APIreference (mju_isBad: "nan or
abs(x)>mjMAXVAL", mjMAXVAL row of APIglobals.rst), doc/programming/simulation.rst "Diagnostics"
(warning counters count triggers since the last reset and are cleared upon reset; mj_resetData sets qpos
to qpos0, mocap to the model poses and all other state and control variables to 0) and
XMLreference option/flag/autoreset.  It never looks at engine_forward.c's check functions: the checks
are done in Python; only the *unchecked* building blocks (mj_forward, mj_resetData, the integrators) are
the engine's, because the property is about containment, not about the dynamics.
"""
from __future__ import annotations

import math
import os
import re

import numpy as np

from .. import alphabet as A
from .. import build

# ---------------------------------------------------------------------------- documented constants
WARN_NAMES = ["INERTIA", "CONTACTFULL", "CNSTRFULL", "BADQPOS", "BADQVEL", "BADQACC", "BADCTRL"]
W_BADQPOS, W_BADQVEL, W_BADQACC, W_BADCTRL = 3, 4, 5, 6
W_TEXT = {W_BADQPOS: "QPOS", W_BADQVEL: "QVEL", W_BADQACC: "QACC", W_BADCTRL: "CTRL"}


def documented_maxval() -> float:
    """mjMAXVAL as printed in the tree's doc/APIreference/APIglobals.rst (table row)."""
    p = os.path.join(build.REPO, "doc", "APIreference", "APIglobals.rst")
    with open(p) as fh:
        txt = fh.read()
    mm = re.search(r"\* - ``mjMAXVAL``\s*\n\s*- ([0-9.eE+\-]+)", txt)
    if not mm:
        raise RuntimeError("mjMAXVAL row not found in APIglobals.rst")
    return float(mm.group(1))


# ---------------------------------------------------------------------------- value alphabet
def values(maxval: float, thorough: bool):
    """(label, value, kind) ; kind 'bad' = must be flagged where it is checked directly,
    'legal' = a legal input (|x| <= mjMAXVAL): only containment of consequences is required."""
    nxt = math.nextafter(maxval, math.inf)
    prv = math.nextafter(maxval, 0.0)
    v = [
        ("nan", math.nan, "bad"), ("+inf", math.inf, "bad"), ("-inf", -math.inf, "bad"),
        ("+1e11", 1e11, "bad"), ("-1e11", -1e11, "bad"),
        ("+9.9e9", 9.9e9, "legal"), ("-9.9e9", -9.9e9, "legal"),
        ("1e308", 1e308, "bad"),
        # the documented predicate is strict: abs(x) > mjMAXVAL
        ("+maxval", maxval, "legal"), ("-maxval", -maxval, "legal"),
        ("+next(maxval)", nxt, "bad"), ("-next(maxval)", -nxt, "bad"),
    ]
    if thorough:
        v += [("-1e308", -1e308, "bad"), ("+prev(maxval)", prv, "legal"), ("-prev(maxval)", -prv, "legal"),
              ("-nan", -math.nan, "bad"), ("+denorm", 5e-324, "legal")]
    return v


# ---------------------------------------------------------------------------- model family
INTEGRATORS = ["Euler", "RK4", "implicit", "implicitfast"]

ACT_NONE = ""
ACT_STD = """
  <actuator>
    <motor name="m0" joint="s" ctrlrange="-1 1" ctrllimited="true"/>
    <motor name="m1" joint="h" %(grp)s/>
    <general name="ai" joint="h" dyntype="integrator" gainprm="1" actlimited="true" actrange="-2 2" %(grp)s/>
    <general name="af" joint="s" dyntype="filter" dynprm="0.1" gainprm="1"/>
    <general name="al" joint="s" dyntype="filter" dynprm="0.2" gainprm="1" forcelimited="true" forcerange="-3 3"/>
    <general name="ag" joint="fgj" gear="0 0 1 0 0 0" dyntype="filterexact" dynprm="0.05" gainprm="2" biastype="affine" biasprm="0 -1 0"/>
  </actuator>
"""

XML = """
<mujoco model="c30_%(tag)s">
  <option timestep="0.002" integrator="%(integrator)s" solver="%(solver)s" cone="%(cone)s" %(optattr)s>
    <flag sleep="%(sleep)s" autoreset="%(autoreset)s" %(flags)s/>
  </option>
  <size memory="2M"/>
  <worldbody>
    <geom name="floor" type="plane" size="5 5 .1"/>
%(first_body)s    <body name="mc" mocap="true" pos="0 1 1" quat="1 0 0 0">
      <geom type="sphere" size=".03" contype="0" conaffinity="0"/>
    </body>
    <body name="a" pos="0 0 1">
      <joint name="s" type="slide" axis="1 0 0" damping="0.5"/>
      <geom type="box" size=".1 .1 .1" mass="1"/>
      <body name="b" pos="0 0 .3">
        <joint name="h" type="hinge" axis="0 1 0" range="-1 1" limited="true" stiffness="2"/>
        <geom type="capsule" size=".04 .15" fromto="0 0 0 0 0 .3" mass="1"/>
        <body name="c" pos="0 0 .3">
          <joint name="bl" type="ball"/>
          <geom type="ellipsoid" size=".05 .07 .09" mass="1"/>
        </body>
      </body>
    </body>
    <body name="f" pos="0 1 1">
      <freejoint name="fr"/>
      <geom type="sphere" size=".1" mass="1"/>
    </body>
    <body name="g" pos="1 0 .1">
      <freejoint name="fgj"/>
      <geom type="box" size=".1 .1 .1" mass="1"/>
    </body>
%(extra_body)s
  </worldbody>
  <equality><weld body1="mc" body2="f"/></equality>
%(actuators)s
</mujoco>
"""

# a tree that is initialised asleep (floating, no contacts); placed before or after the other trees so that the
# awake-dof index map is not the identity
SLEEP_BODY = """    <body name="z" pos="-1 -1 2" sleep="init">
      <freejoint name="zz"/>
      <geom type="sphere" size=".1" mass="1"/>
    </body>
"""


def _cfg(integ, acts, sleep, solver="Newton", cone="pyramidal", flags=""):
    return dict(integrator=integ, acts=acts, sleep=sleep, solver=solver, cone=cone, flags=flags)


def model_configs(thorough: bool):
    """Finite list of model configurations (dicts).  Each is compiled twice (autoreset on/off)."""
    out = []
    if not thorough:
        for integ in INTEGRATORS:
            out.append(_cfg(integ, "std", False))
            if integ in ("Euler", "RK4"):
                out.append(_cfg(integ, "grp", False))
            if integ != "RK4":       # documented: RK4 is not supported with sleeping
                out.append(_cfg(integ, "std", "first"))
        out.append(_cfg("Euler", "none", False))
        return out
    for integ in INTEGRATORS:
        for acts in ("none", "std", "grp"):
            for sleep in (False, "first", "last"):
                if sleep and integ == "RK4":
                    continue
                out.append(_cfg(integ, acts, sleep))
    for integ in INTEGRATORS:
        for solver, cone in (("CG", "pyramidal"), ("PGS", "pyramidal"), ("Newton", "elliptic"), ("CG", "elliptic")):
            out.append(_cfg(integ, "std", False, solver, cone))
        for flags in ('island="disable"', 'warmstart="disable"', 'eulerdamp="disable"', 'clampctrl="disable"',
                      'contact="disable"', 'multiccd="enable" energy="enable"'):
            out.append(_cfg(integ, "std", False, flags=flags))
    return out


def _tree(par, js, integ, damping):
    return dict(kind="tree", parents=tuple(par), joints=tuple(js), integrator=integ, damping=damping,
                acts="none", sleep=False, solver="Newton", cone="pyramidal", flags="")


def tree_configs(thorough: bool, nmax=2):
    """Second family: every rooted ordered forest with <= nmax bodies x the full joint menu per body (mc.alphabet)
    x {4 integrators with joint damping, Euler without}.  quick: the one chain on which the unchanged tree shows the
    integrator-stage findings (ball -> slide+hinge, Euler and implicit, damped)."""
    import itertools
    if not thorough:
        return [_tree((-1, 0), ("ball", "slidehinge"), "Euler", True), _tree((-1, 0), ("ball", "slidehinge"), "implicit", True)]
    out = []
    for par in A.all_forests(nmax):
        doms = [A.joint_menu(p == -1) for p in par]
        for js in itertools.product(*doms):
            if all(j == "none" for j in js):
                continue
            for integ in INTEGRATORS:
                out.append(_tree(par, js, integ, True))
            out.append(_tree(par, js, "Euler", False))
    return out


def config_tag(c):
    if c.get("kind") == "tree":
        return "tree parents=%s joints=%s|%s|damping=%d" % (list(c["parents"]), list(c["joints"]), c["integrator"], int(c["damping"]))
    return "%s|acts=%s|sleep=%s|%s|%s%s" % (c["integrator"], c["acts"], c["sleep"] or "off", c["solver"], c["cone"],
                                          ("|" + c["flags"].replace('"', "")) if c.get("flags") else "")


def model_xml(c, autoreset: bool) -> str:
    if c.get("kind") == "tree":
        n = len(c["parents"])
        return A.tree_mjcf(c["parents"], list(c["joints"]), axis=[i % 3 for i in range(n)], anchor=[(i + 1) % 2 for i in range(n)],
                           frame=[1 + i % 2 for i in range(n)], geom=[A.GEOM_ORDER[i % 5] for i in range(n)],
                           jattr='damping="0.1"' if c["damping"] else "", size='memory="1M"',
                           option=A.option_elem(integrator=c["integrator"], timestep=0.002,
                                                flags=dict(autoreset="enable" if autoreset else "disable")))
    acts = c["acts"]
    optattr = ""
    if acts == "none":
        a = ACT_NONE
    elif acts == "std":
        a = ACT_STD % dict(grp="")
    else:
        a = ACT_STD % dict(grp='group="2"')
        optattr = 'actuatorgroupdisable="2"'
    return XML % dict(tag=re.sub(r"[^A-Za-z0-9]", "_", config_tag(c)), integrator=c["integrator"], solver=c["solver"],
                      cone=c["cone"], optattr=optattr, sleep="enable" if c["sleep"] else "disable",
                      autoreset="enable" if autoreset else "disable", flags=c.get("flags", ""),
                      first_body=SLEEP_BODY if c["sleep"] == "first" else "",
                      extra_body=SLEEP_BODY if c["sleep"] == "last" else "", actuators=a)


# ---------------------------------------------------------------------------- pre-states
PRESTATES = ["initial", "warm"]
WARM_STEPS = 5


def make_prestate(lib, m, d, which: str):
    """Bring a fresh mjData into the pre-state.  'warm': a few steps with non-zero inputs so that a reset is
    observable in every component (time, qpos, qvel, act, ctrl, applied forces, mocap pose, warm start, counters)."""
    if which == "initial":
        return
    nu, nv = m.nu, m.nv
    ctrl = np.array([0.5, -0.3, 0.2, 0.7, 0.9, -0.4])[:nu]
    bg = lib.mj_name2id(m, 1, b"g")          # mjOBJ_BODY
    if bg < 0:
        bg = m.nbody - 1
        d.qvel[:] = 0.3 * np.cos(1.0 + np.arange(nv))
    for _ in range(WARM_STEPS):
        if nu:
            d.ctrl[:] = ctrl
        d.qfrc_applied[:] = 0.01 * np.cos(np.arange(nv))
        d.xfrc_applied[:] = 0.0
        d.xfrc_applied[bg, :] = [0.1, -0.2, 0.3, 0.01, 0.02, -0.03]
        if m.nmocap:
            d.mocap_pos[0, :] = [0.01, 1.0, 1.02]
            d.mocap_quat[0, :] = [0.9998, 0.01, -0.01, 0.012]
        lib.mj_step(m, d)
    # emulate earlier warnings (documented use of mj_warning) so that "counters are cleared upon reset" is observable
    # (a counter equal to 1 is what an earlier automatic reset leaves behind)
    lib.mj_warning(d, 0, 11)
    lib.mj_warning(d, W_BADQPOS, 1)
    lib.mj_warning(d, W_BADQPOS, 2)
    lib.mj_warning(d, W_BADQVEL, 3)
    lib.mj_warning(d, W_BADQACC, 4)
    lib.mj_warning(d, W_BADCTRL, 0)


# ---------------------------------------------------------------------------- sites
SITES = ["qpos", "qvel", "act", "ctrl", "qfrc_applied", "xfrc_applied", "mocap_pos", "mocap_quat", "qacc_warmstart"]


def site_elements(d):
    """Every element of every injection site of this mjData: (site, flat index)."""
    out = []
    for s in SITES:
        n = int(np.asarray(getattr(d, s)).size)
        out += [(s, i) for i in range(n)]
    return out


def inject(d, site, idx, value):
    a = getattr(d, site)
    a.reshape(-1)[idx] = value


# ---------------------------------------------------------------------------- reference model
class Ref:
    """Documentation-derived model of mj_step's containment logic."""

    def __init__(self, lib, maxval):
        self.lib = lib
        self.maxval = maxval

    def first_bad(self, a):
        a = np.asarray(a)
        bad = np.isnan(a) | (np.abs(a) > self.maxval)     # "nan or abs(x)>mjMAXVAL"
        if bad.any():
            return int(np.argmax(bad))
        return None

    def _trigger(self, m, d, w, info, autoreset, log):
        log.append((w, info))
        if autoreset:
            self.lib.mj_resetData(m, d)          # "the state is automatically reset"; counters cleared upon reset
            d.warning["number"][w] = 1           # ... and this trigger is the first since that reset
        else:
            d.warning["number"][w] += 1          # "how many times was warning raised"
        d.warning["lastinfo"][w] = info

    def step(self, m, d, integrator, autoreset):
        """Returns the list of (warning type, info) raised by the check stages."""
        lib = self.lib
        log = []
        i = self.first_bad(d.qpos)
        if i is not None:
            self._trigger(m, d, W_BADQPOS, i, autoreset, log)
        i = self.first_bad(d.qvel)
        if i is not None:
            self._trigger(m, d, W_BADQVEL, i, autoreset, log)
        lib.mj_forward(m, d)
        i = self.first_bad(d.qacc)
        if i is not None:
            self._trigger(m, d, W_BADQACC, i, autoreset, log)
            if autoreset:
                lib.mj_forward(m, d)             # the integrator needs the derivative of the (reset) state
        if integrator == "Euler":
            lib.mj_Euler(m, d)
        elif integrator == "RK4":
            lib.mj_RungeKutta(m, d, 4)
        else:
            lib.mj_implicit(m, d)
        return log

    def ctrl_bad(self, m, ctrl, clamp=True):
        """Index of the first control that is bad after the documented clamping to ctrlrange, else None."""
        c = np.array(ctrl, float)
        for i in range(m.nu):
            if clamp and m.actuator_ctrllimited[i]:
                lo, hi = m.actuator_ctrlrange[i]
                x = c[i]
                if x < lo:
                    c[i] = lo
                elif x > hi:
                    c[i] = hi
        return self.first_bad(c)
