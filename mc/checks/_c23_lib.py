"""C23 helper: prototypes of the linear-algebra utilities parsed from the tree headers, the list of functions the
tree defines, and the two builds that are driven:

  * "avx"    - the regular tree library (mj.load(): -mavx -DmjUSEPLATFORMSIMD, i.e. the AVX paths) plus
               native/drivers/c23_inline.c (wrappers around the static-inline helpers of engine_util_sparse.h);
  * "scalar" - engine_util_blas.c / engine_util_sparse.c / engine_util_solve.c of the tree compiled a second time
               with -UmjUSEPLATFORMSIMD (the portable fall-back loops) + the same wrappers, linked into one shared
               object against the tree library (for mj_stackAlloc, mju_error, ...).

Nothing here re-implements tree code: both objects are compiled from the files under build.REPO.
"""
from __future__ import annotations

import ctypes
import os
import re
import subprocess

import numpy as np

from .. import build, mj

FILES = ("engine_util_solve", "engine_util_sparse", "engine_util_blas")
EXTRA_HEADERS = ("engine_util_misc",)          # mju_gather / mju_scatter family lives there
INLINE = {   # wrapper name -> (ret, [param kinds]) for native/drivers/c23_inline.c
    "c23_uses_avx": ("int", []),
    "c23_dotSparse": ("mjtNum", ["pd", "pd", "int", "pi"]),
    "c23_compare": ("int", ["pi", "pi", "int"]),
    "c23_mergeSorted": ("int", ["pi", "pi", "int", "pi", "int"]),
    "c23_addToSclScl": ("void", ["pd", "pd", "mjtNum", "mjtNum", "int"]),
    "c23_combineSparse": ("int", ["pd", "pd", "mjtNum", "mjtNum", "int", "int", "pi", "pi"]),
}

_PROTO = re.compile(r"(?:MJAPI\s+)?\b(void|int|mjtNum)\s+(mju?_\w+)\s*\(([^()]*)\)\s*;", re.S)
_DEF = re.compile(r"^(?!static)(?:[A-Za-z_][\w \t\*]*?)\b(mju?_\w+)\s*\([^;{]*\)\s*\{", re.M)


def _kind(p: str) -> str:
    p = " ".join(p.split())
    if "*" in p or "[" in p:
        if "**" in p or "mjData" in p or "char" in p or "void" in p:
            return "pv"
        if re.search(r"\bint\b", p):
            return "pi"
        if "mjtNum" in p:
            return "pd"
        return "pv"
    t = p.split()
    ty = [x for x in t[:-1] if x != "const"]
    ty = ty[0] if ty else t[0]
    if ty in ("int", "mjtNum", "mjtBool", "mjtByte"):
        return ty
    raise ValueError("unknown parameter type %r" % p)


def parse_headers(repo=None):
    repo = repo or build.REPO
    out = {}
    for f in FILES + EXTRA_HEADERS:
        txt = open(os.path.join(repo, "src/engine", f + ".h")).read()
        txt = re.sub(r"//[^\n]*", "", txt)
        for m in _PROTO.finditer(txt):
            ret, name, params = m.group(1), m.group(2), m.group(3).strip()
            try:
                kinds = [] if params in ("", "void") else [_kind(p) for p in params.split(",")]
            except ValueError:
                if f in EXTRA_HEADERS:
                    continue            # unrelated utilities with enum / struct parameters
                raise
            out[name] = (ret, kinds)
    return out


def defined_functions(repo=None):
    """{file: [non-static functions defined in it]} for the three anchored C files."""
    repo = repo or build.REPO
    out = {}
    for f in FILES:
        src = open(os.path.join(repo, "src/engine", f + ".c")).read()
        out[f + ".c"] = [m.group(1) for m in _DEF.finditer(src)]
    return out


_CT = {"int": ctypes.c_int, "mjtNum": ctypes.c_double, "mjtBool": ctypes.c_bool, "mjtByte": ctypes.c_ubyte,
       "pd": ctypes.c_void_p, "pi": ctypes.c_void_p, "pv": ctypes.c_void_p}
_RT = {"void": None, "int": ctypes.c_int, "mjtNum": ctypes.c_double}
_NPDT = {"pd": np.float64, "pi": np.int32}


class Fn:
    """A raw (unguarded) ctypes entry point with dtype / contiguity checks on numpy arguments."""

    def __init__(self, cdll, name, ret, kinds):
        self.name = name
        self.kinds = kinds
        self.f = getattr(cdll, name)
        self.f.argtypes = [_CT[k] for k in kinds]
        self.f.restype = _RT[ret]

    def __call__(self, *args):
        if len(args) != len(self.kinds):
            raise TypeError("%s expects %d arguments, got %d" % (self.name, len(self.kinds), len(args)))
        a = []
        for x, k in zip(args, self.kinds):
            if isinstance(x, np.ndarray):
                if k in _NPDT and x.dtype != _NPDT[k]:
                    raise TypeError("%s: array of %s passed for %s" % (self.name, x.dtype, k))
                if not x.flags["C_CONTIGUOUS"]:
                    raise TypeError("%s: non-contiguous array" % self.name)
                a.append(x.ctypes.data)
            elif isinstance(x, (mj.Data, mj.Model)):
                a.append(x.ptr)
            else:
                a.append(x)
        return self.f(*a)


class Lib23:
    def __init__(self, variant: str):
        self.variant = variant
        self.protos = parse_headers()
        base = mj.load()
        self.base = base
        if variant == "avx":
            self.cdll = base.c
            self.inl = ctypes.CDLL(_ensure_so("c23_inline_avx", [os.path.join(build.NATIVE, "drivers/c23_inline.c")], (), base.path))
        elif variant == "scalar":
            srcs = [os.path.join(build.REPO, "src/engine", f + ".c") for f in FILES]
            srcs.append(os.path.join(build.NATIVE, "drivers/c23_inline.c"))
            so = _ensure_so("c23_scalar", srcs, ("-UmjUSEPLATFORMSIMD",), base.path)
            self.cdll = ctypes.CDLL(so)
            self.inl = self.cdll
        else:
            raise ValueError(variant)
        self._fn = {}
        for name, (ret, kinds) in INLINE.items():
            self._fn[name] = Fn(self.inl, name, ret, kinds)
        uses = self._fn["c23_uses_avx"]()
        if uses != (1 if variant == "avx" else 0):
            raise RuntimeError("variant %s: wrapper reports mjUSEAVX=%d" % (variant, uses))

    def __getattr__(self, name):
        if name.startswith("_"):
            raise AttributeError(name)
        fn = self._fn.get(name)
        if fn is None:
            if name not in self.protos:
                raise AttributeError("no prototype for %s" % name)
            ret, kinds = self.protos[name]
            fn = self._fn[name] = Fn(self.cdll, name, ret, kinds)
        return fn

    def has(self, name):
        return hasattr(self.cdll, name)


def _ensure_so(name, srcs, extra, libpath):
    objs = build.compile_many(srcs, "rel", tuple(extra))
    key = build._sha(name, libpath, *objs)
    outdir = os.path.join(build.CACHE, "c23", key)
    out = os.path.join(outdir, "lib%s.so" % name)
    if os.path.exists(out):
        return out
    os.makedirs(outdir, exist_ok=True)
    tmp = out + ".%d.tmp" % os.getpid()
    cmd = [build.CXX, "-shared", "-Wl,-Bsymbolic", "-o", tmp] + objs + [libpath, "-Wl,-rpath," + os.path.dirname(libpath), "-lm"]
    r = subprocess.run(cmd, capture_output=True, text=True)
    if r.returncode != 0:
        raise RuntimeError("link of %s failed:\n%s" % (name, r.stderr[-3000:]))
    os.replace(tmp, out)
    return out


_libs = {}


def load(variant):
    if variant not in _libs:
        _libs[variant] = Lib23(variant)
    return _libs[variant]
