"""Models for C31 (MJB round trip / truncation / corruption).

`KITCHEN` is one compact model that makes as many MJMODEL_POINTERS arrays non-empty as the sandbox
allows (every object family: joints of all types, mocap, gravcomp, all geom types incl. mesh / hfield /
sdf plugin, flexes of dim 1-3 with trilinear nodes, skin, texture + material, pair / exclude, every
equality type, fixed + spatial tendons with sphere / cylinder wrapping and pulley, actuators of every
transmission type incl. plugin + delay history, sensors incl. plugin / user / contact, numeric / text /
tuple, keyframes, user data, names, asset paths through a VFS).  `small_models()` are small alphabet
models (a few KB each) used for the byte-level enumeration.

The arena is kept small (<size memory="1M"/>) because the corruption driver runs under ASan.
"""
from __future__ import annotations

import struct

from mc import alphabet

TETRA = "0.1 0.1 0.1  0.1 -0.1 -0.1  -0.1 0.1 -0.1  -0.1 -0.1 0.1"
# textured mesh: explicit faces, normals and texcoords
MESH2 = ('vertex="0 0 0  .1 0 0  0 .1 0  0 0 .1" face="0 2 1  0 1 3  0 3 2  1 2 3" '
         'normal="0 0 -1  0 -1 0  -1 0 0  .577 .577 .577" texcoord="0 0  1 0  0 1  1 1"')


def stl_tetra() -> bytes:
    """binary STL of a tetrahedron (decoded by the tree's first-party stl_decoder plugin)."""
    v = [(0.1, 0.1, 0.1), (0.1, -0.1, -0.1), (-0.1, 0.1, -0.1), (-0.1, -0.1, 0.1)]
    faces = [(0, 1, 2), (0, 3, 1), (0, 2, 3), (1, 3, 2)]
    out = b"\0" * 80 + struct.pack("<I", len(faces))
    for f in faces:
        out += struct.pack("<3f", 0, 0, 0)
        for k in f:
            out += struct.pack("<3f", *v[k])
        out += b"\0\0"
    return out


def hfield_bin() -> bytes:
    """MuJoCo custom binary height field: (int nrow, int ncol, float data[nrow*ncol])."""
    return struct.pack("<2i", 2, 3) + struct.pack("<6f", 0, .2, .4, .4, .2, 0)


KITCHEN_FILES = {"tet.stl": stl_tetra(), "hf.bin": hfield_bin()}

KITCHEN = """<mujoco model="c31 kitchen sink">
  <compiler angle="radian" autolimits="true"/>
  <option timestep="0.002" integrator="implicitfast" cone="elliptic" noslip_iterations="1">
    <flag energy="enable" multiccd="enable"/>
  </option>
  <size memory="1M" nuserdata="3" nuser_body="1" nuser_jnt="2" nuser_geom="1" nuser_site="1" nuser_cam="1"
        nuser_tendon="1" nuser_actuator="2" nuser_sensor="1"/>
  <extension>
    <plugin plugin="mujoco.pid"><instance name="pid1"><config key="kp" value="4"/><config key="ki" value="1"/>
      <config key="kd" value=".1"/></instance></plugin>
    <plugin plugin="mujoco.sensor.touch_grid"/>
    <plugin plugin="mujoco.elasticity.cable"/>
  </extension>
  <custom>
    <numeric name="num1" size="3" data="1 2 3"/>
    <numeric name="num2" data="7"/>
    <text name="txt1" data="hello"/>
    <tuple name="tup1"><element objtype="body" objname="b1" prm="0.5"/><element objtype="geom" objname="g1"/>
      <element objtype="site" objname="s1"/></tuple>
  </custom>
  <asset>
    <texture name="tex1" type="2d" builtin="checker" width="4" height="4" rgb1="1 0 0" rgb2="0 1 0"/>
    <texture name="tex2" type="cube" builtin="flat" width="2" height="12"/>
    <texture name="sky" type="skybox" builtin="gradient" width="2" height="12"/>
    <material name="mat1" texture="tex1"/>
    <material name="mat2" rgba="0.2 0.3 0.4 1"/>
    <mesh name="m1" vertex="%(tetra)s"/>
    <mesh name="m2" %(mesh2)s/>
    <mesh name="m3" file="tet.stl"/>
    <hfield name="hf1" nrow="2" ncol="3" size="1 1 0.5 0.1" elevation="0 0.5 1 1 0.5 0"/>
    <hfield name="hf2" file="hf.bin" size=".5 .5 .2 .1"/>
    <skin name="sk1" material="mat1" vertex="0 0 0 1 0 0 0 1 0 1 1 0" face="0 1 2 1 3 2" texcoord="0 0 1 0 0 1 1 1">
      <bone body="b1" bindpos="0 0 0" bindquat="1 0 0 0" vertid="0 1 2" vertweight="1 1 1"/>
      <bone body="b2" bindpos="0 0 0" bindquat="1 0 0 0" vertid="1 3" vertweight="1 1"/>
    </skin>
  </asset>
  <worldbody>
    <geom name="floor" type="plane" size="2 2 0.1" material="mat1"/>
    <geom name="ghf" type="hfield" hfield="hf1" pos="3 3 0"/>
    <geom name="ghf2" type="hfield" hfield="hf2" pos="-3 3 0"/>
    <camera name="cam0" pos="0 -1 1" mode="targetbody" target="b1" user="1" resolution="8 6"/>
    <light name="l0" pos="0 0 2" mode="targetbody" target="b2"/>
    <site name="s0" pos="0 0 0.5" user="2"/>
    <body name="b1" pos="0 0 1" gravcomp="0.5" user="4">
      <joint name="j1" type="hinge" axis="0 1 0" range="-1 1" user="1 2" stiffness="1" damping=".1" armature=".01"
             frictionloss=".01"/>
      <geom name="g1" type="capsule" size="0.05 0.1" user="3" material="mat2"/>
      <geom name="g1m" type="mesh" mesh="m2" pos=".1 0 .1" contype="2" conaffinity="2"/>
      <site name="s1" pos="0.1 0 0"/>
      <camera name="cam1" pos="0 0 .3"/>
      <light name="l1" pos="0 0 .3"/>
      <body name="b2" pos="0.3 0 0">
        <joint name="j2" type="slide" axis="1 0 0" range="-0.5 0.5"/>
        <geom name="g2" type="sphere" size="0.06"/>
        <geom name="g2c" type="cylinder" size="0.03 .05" pos="0 0 .2"/>
        <site name="s2" pos="0 0 0.1"/>
        <body name="b2b" pos="0.2 0 0">
          <joint name="j2b" type="hinge" axis="0 0 1"/>
          <geom name="g2b" type="ellipsoid" size="0.03 .04 .05" gap=".01" margin=".02"/>
          <site name="s2b" pos="0 0 0.05"/>
        </body>
      </body>
    </body>
    <body name="b3" pos="1 0 1">
      <joint name="j3" type="ball" range="0 1"/>
      <geom name="g3" type="box" size="0.05 0.06 0.07"/>
      <geom name="g3m" type="mesh" mesh="m1" pos="0 0 .2"/>
      <site name="s3"/>
    </body>
    <body name="b4" pos="0 1 0.12">
      <freejoint name="j4"/>
      <geom name="g4" type="mesh" mesh="m3"/>
      <geom name="g4b" type="sphere" size=".05" pos=".1 0 0"/>
      <site name="s4" type="box" size=".2 .2 .2"/>
    </body>
    <body name="b5" pos="-1 0 0.2">
      <freejoint name="j5"/>
      <geom name="g5" type="sdf" mesh="m1"/>
    </body>
    <body name="b6" pos="-1 -1 1">
      <joint name="j6" type="hinge" axis="1 0 0"/>
      <geom name="g6" size=".03"/>
      <plugin plugin="mujoco.elasticity.cable"><config key="twist" value="1e3"/><config key="bend" value="1e3"/></plugin>
    </body>
    <body name="bm" mocap="true" pos="0 1 1">
      <geom name="gm" size="0.02" contype="0" conaffinity="0"/>
      <site name="sm"/>
    </body>
    <flexcomp name="fx2" type="grid" count="3 3 1" spacing="0.1 0.1 0.1" pos="0 -2 1" radius="0.01" dim="2" mass=".1">
      <elasticity young="1e3" poisson=".2" thickness=".01" elastic2d="both"/>
      <contact selfcollide="auto" internal="true"/>
      <pin id="0"/>
    </flexcomp>
    <flexcomp name="fx1" type="grid" count="3 1 1" spacing="0.1 0.1 0.1" pos="0 -3 1" radius="0.01" dim="1" mass=".1">
      <edge equality="true"/>
    </flexcomp>
    <flexcomp name="fx3" type="grid" count="2 2 2" spacing="0.1 0.1 0.1" pos="1 -2 1" radius="0.01" dim="3" mass=".1">
      <elasticity young="1e3" poisson=".2"/><contact selfcollide="bvh" activelayers="1"/>
    </flexcomp>
    <flexcomp name="fx4" type="grid" count="3 3 3" spacing="0.1 0.1 0.1" pos="2 -2 1" radius="0.01" dim="3" mass=".1"
              dof="trilinear">
      <elasticity young="1e3" poisson=".2"/><contact selfcollide="none"/>
    </flexcomp>
  </worldbody>
  <deformable>
    <skin name="sk2" vertex="0 0 0 1 0 0 0 1 0" face="0 1 2">
      <bone body="b3" bindpos="0 0 0" bindquat="1 0 0 0" vertid="0 1 2" vertweight="1 1 1"/>
    </skin>
  </deformable>
  <contact>
    <pair name="p1" geom1="g2" geom2="g3" condim="4"/>
    <exclude name="ex1" body1="b1" body2="b3"/>
  </contact>
  <tendon>
    <fixed name="t1" range="-1 1" user="5" frictionloss=".01">
      <joint joint="j1" coef="1"/>
      <joint joint="j2" coef="-0.5"/>
    </fixed>
    <spatial name="t2" material="mat2" damping=".1">
      <site site="s1"/>
      <geom geom="g2" sidesite="s2"/>
      <site site="s2b"/>
      <pulley divisor="2"/>
      <site site="s3"/>
      <geom geom="g2c"/>
      <site site="s4"/>
    </spatial>
    <spatial name="t3" armature=".01"><site site="s1"/><site site="s3"/></spatial>
  </tendon>
  <equality>
    <connect name="e1" body1="b2b" body2="b3" anchor="0 0 0"/>
    <weld name="e2" site1="s2" site2="s3"/>
    <joint name="e3" joint1="j1" joint2="j2" polycoef="0 1 0 0 0"/>
    <tendon name="e4" tendon1="t1" tendon2="t2"/>
    <flex name="e5" flex="fx1"/>
  </equality>
  <actuator>
    <motor name="a1" joint="j1" user="1 2"/>
    <position name="a2" tendon="t1" kp="2" timeconst=".1" delay="0.004" nsample="3"/>
    <general name="a3" site="s2" refsite="s1" gear="1 0 0 0 0 0"/>
    <general name="a4" cranksite="s1" slidersite="s2b" cranklength=".3" dyntype="integrator"/>
    <adhesion name="a5" body="b4" ctrlrange="0 1" gain="2"/>
    <muscle name="a6" joint="j2b" lengthrange="-1 1"/>
    <plugin name="a7" joint="j6" plugin="mujoco.pid" instance="pid1" actdim="1"/>
    <intvelocity name="a8" joint="j3" gear="0 1 0" kp="1" actrange="-1 1"/>
    <general name="a9" jointinparent="j3" gear="1 0 0"/>
  </actuator>
  <sensor>
    <jointpos name="sn1" joint="j1" user="3"/>
    <accelerometer name="sn2" site="s1" delay="0.004" nsample="2"/>
    <touch name="sn3" site="s4"/>
    <framepos name="sn4" objtype="body" objname="b2" reftype="site" refname="s0"/>
    <subtreecom name="sn5" body="b1"/>
    <tendonpos name="sn6" tendon="t2"/>
    <actuatorfrc name="sn7" actuator="a1"/>
    <user name="sn8" dim="2" objtype="geom" objname="g1"/>
    <rangefinder name="sn9" site="s3"/>
    <distance name="sn10" geom1="g2" geom2="g3" cutoff="1"/>
    <contact name="sn11" geom1="floor" reduce="mindist" num="2" data="found force pos"/>
    <plugin name="sn12" plugin="mujoco.sensor.touch_grid" objtype="site" objname="s4">
      <config key="size" value="2 2"/><config key="fov" value="45 45"/><config key="gamma" value="0"/>
      <config key="nchannel" value="3"/></plugin>
    <e_kinetic name="sn13"/>
    <ballquat name="sn14" joint="j3"/>
    <camprojection name="sn15" site="s1" camera="cam0"/>
    <insidesite name="sn16" site="s4" objtype="body" objname="b4"/>
  </sensor>
  <keyframe>
    <key name="k0" time="1" ctrl="0 .1 0 0 .5 0 0 0 0" mpos="0 1 1.5" mquat="0 1 0 0"/>
    <key name="k1"/>
  </keyframe>
</mujoco>
""" % dict(tetra=TETRA, mesh2=MESH2)


def small_models():
    """(name, xml) small alphabet models: a few KB of MJB each."""
    out = []
    out.append(("empty", "<mujoco><size memory='64K'/></mujoco>"))
    out.append(("hinge", "<mujoco><size memory='64K'/><worldbody><body name='b'><joint name='j'/><geom size='.1'/></body>"
                "</worldbody></mujoco>"))
    out.append(("chain2", alphabet.tree_mjcf([-1, 0], ["hinge", "slide"], size='memory="64K"',
                                             sections="<actuator><motor joint='j0_0'/></actuator>"
                                                      "<sensor><jointpos joint='j1_0'/></sensor>")))
    out.append(("ballfree", alphabet.tree_mjcf([-1, -1], ["free", "ball"], size='memory="64K"',
                                               gattr="", world_extra="<geom type='plane' size='1 1 .1' pos='0 0 -.2'/>")))
    out.append(("tendon", alphabet.tree_mjcf([-1, 0, 0], ["hinge", "hinge", "slide"], size='memory="64K"', sections=(
        "<tendon><fixed name='t'><joint joint='j0_0' coef='1'/><joint joint='j2_0' coef='2'/></fixed>"
        "<spatial name='u'><site site='s0'/><site site='s1'/></spatial></tendon>"
        "<equality><connect body1='b1' body2='b2' anchor='0 0 0'/></equality>"
        "<actuator><position tendon='t' kp='1'/></actuator>"))))
    return out
