"""C21 Allocation failure never causes undefined behaviour.

Fault dimension: the index k of the mju_malloc call that fails.  Three scenarios (S1 MJCF string -> compile -> makeData ->
steps -> copyData -> copyModel -> save/load MJB -> delete; S2 the same kind of model through the mjSpec C API with
mj_copySpec and mj_recompile; S3 inline mesh + builtin texture + material + a stateful actuator plugin) are run once
fault-free to count their A allocations, then once for EVERY k in 1..A+8 and once for EVERY pair k1<k2 (A <= 300), in the
ASan/UBSan build.  A step that fails is cleaned up and retried like a client that catches the error would, so the run
continues after the fault.  Oracle: no signal / sanitizer report; the failure is observed (caught mju_error or NULL /
error return with a message); at the end every object is deleted and the allocator's live table must be empty, and no
block may be freed twice or freed without having been allocated.
"""
from __future__ import annotations

import re

from .. import build, core
from . import _c2x_run as rx

LEVEL = "fault_enumeration"
META = dict(
    category=LEVEL,
    technique="exhaustive enumeration of the failing allocation index (all singles, all pairs) per scenario, ASan/UBSan "
              "build, leak / double-free accounting in the mju_user_malloc shim",
    text="Each failure path is reached only when one particular allocation fails, so every allocation index of each "
         "scenario (and every pair of indices) is made to fail once; the fault space is finite and is covered completely, "
         "which is what fault enumeration means.  The oracle is the sanitizer, the observed error channel and the shim's "
         "live-block table.",
    note="Only allocations routed through mju_malloc are in scope (the statement's 'MuJoCo's allocator'): C++ operator new "
         "inside src/user and src/xml is not intercepted.  The error handler throws a C++ exception (documented recovery "
         "style); mjSpec / compiler internals that longjmp are exercised through mj_compile / mj_recompile.  The "
         "first-party PID plugin cannot be used under UBSan (mj_resetData does memcpy(NULL, p, 0) when npluginstate = 0), a "
         "stateful test plugin registered by the driver takes its place.",
    design_ref="DESIGN.md §3 C21")

K_THREAD = ("mju_error raised inside a mesh/texture compile worker thread: compilerLogHandler longjmps through a thread-local "
            "jmp_buf that was never set in that thread")
K_LEAK = ("mju_malloc raises mju_error itself: blocks already allocated by the interrupted call (mjData / mjModel struct, "
          "buffer, arena, plugin data) are never released, the callers' free-on-NULL code is unreachable")

_FR = re.compile(r"(libmujoco_verif\.so|c21_alloc)\+(0x[0-9a-f]+)")


def _names(text: str, objs: dict):
    """function names of the frames 'module+0xoff' in text, in order."""
    out = []
    for mod, off in _FR.findall(text):
        out.append(rx.symbolize(objs[mod], off) if mod in objs else mod + "+" + off)
    return out


class _DedupPart(core.Part):
    """Part.violation keeps at most 50 records: record each canonical key once per job so that no key is dropped."""

    def violation(self, key, what, replay=None):
        seen = self.__dict__.setdefault("_seen", set())
        if key in seen:
            return
        seen.add(key)
        core.Part.violation(self, key, what, replay)


def _job(job):
    exe, scen, mode, A, lo, hi = job
    part = _DedupPart()
    objs = rx.objs_for("asan", exe)
    if mode == "single":
        res = rx.run([exe, scen, "single", lo, hi, 64])
    else:
        res = rx.run([exe, scen, "pairs", A, lo, hi, 256])
    if res.rc != 0:
        raise RuntimeError("driver failed rc=%d: %s" % (res.rc, res.stderr))
    n = sum(res.hist.values()) + len(res.crashes)
    part["evaluations"] += n
    part["nontrivial_count"] += res.nontrivial + len(res.crashes)
    part.add("points[S%d %s]" % (scen, mode), n)
    for cls, c in res.hist.items():
        short = re.sub(r"<[^>]*>", "", cls)
        short = " ".join(w.split(":")[0] + ":" + ("error" if ":error" in w else w.split(":")[1]) for w in short.split() if ":" in w) or cls
        part.add("outcome %s" % short, c)
        if len(part["samples"]) < 2 and cls != "no fault reached":
            part["samples"].append({"scenario": "S%d" % scen, "mode": mode, "point": res.first[cls], "trace": cls[:200]})
    pairs = set()
    for f, cnt, l, key, what in res.viol:
        rep = dict(scenario=scen, mode=mode, A=A, point=f, what=what)
        if key.startswith("leak("):
            a, _, b = key.partition("] alive after failure at [")
            fa, fb = _FR.findall(a), _FR.findall(b)
            an, bn = _names(a, objs), _names(b, objs)
            # the known pattern: the leaked block was allocated by a function invocation (the direct caller of mju_malloc or
            # its caller) that was still running when the injected failure raised mju_error from inside mju_malloc
            same_call = False
            for i in (1, 2):
                for j in range(1, len(fb)):
                    if i < len(fa) and an[i] == bn[j]:
                        ra, rb = fa[i + 1:], fb[j + 1:]
                        n = min(len(ra), len(rb))
                        if ra[:n] == rb[:n]:
                            same_call = True
            pr = "%s <- failure in %s" % ("<".join(an[1:3]), bn[1] if len(bn) > 1 else "?")
            if key.startswith("leak(raise)") and same_call:
                pairs.add(pr)
                part.add("leak_points", cnt)
                part.violation(K_LEAK, "S%d %s: %s (block allocated in <- allocation that failed in)" % (scen, what, pr), rep)
            else:
                part.violation("leak: block allocated in %s is still allocated after everything was deleted (failure in %s)"
                               % ("<".join(an[1:3]), bn[1] if len(bn) > 1 else "?"), "S%d %s" % (scen, what), rep)
        elif key.startswith("free of unknown"):
            fn = _names(key, objs)
            part.violation("double free / free of unknown block in %s" % "<".join(fn[1:3]), "S%d %s" % (scen, what), rep)
        else:
            part.violation(key, "S%d %s" % (scen, what), rep)
    for pr in pairs:
        part.add("leak site: " + pr, 1)
    seen = set()
    for pt, rest in res.crashes:
        kind, fn, _ = rx.crash_key(rest, objs)
        ck = "crash: %s in %s" % (kind, fn)
        if "SEGV on unknown address" in rest and re.search(r"\bT[1-9]\d*\)", rest):
            ck = K_THREAD
        part.add("crash_points", 1)
        if ck not in seen:
            seen.add(ck)
            part.violation(ck, "S%d %s point %d: process died: %s" % (scen, mode, pt, rest[:400]),
                           dict(scenario=scen, mode=mode, A=A, point=pt))
    return part


def _chunk(chunk):
    ctx = core.Ctx("C21", "quick", 0, LEVEL)
    ctx.max_samples = 3
    for job in chunk:
        ctx.merge(_job(job))
    total = core.Part()
    total["evaluations"] = ctx.evaluations
    total["nontrivial_count"] = ctx.nontrivial_extra
    total["samples"] = ctx.samples[:2]
    total["violations"] = [{"key": k, "what": w, "replay": r} for k, w, r in ctx.violations]
    total["extra"] = ctx.extra
    return total


TAIL = 8


def run(ctx):
    exe = build.ensure_exe("c21_alloc", ["drivers/c21_alloc.cc"], variant="asan")
    jobs = []
    counts = {}
    for scen in (1, 2, 3):
        r = rx.subprocess.run([exe, str(scen), "count"], capture_output=True, text=True, env=rx.env())
        m = re.match(r"A (\d+) live (\d+) badfree (\d+) nfail (\d+)", r.stdout)
        if r.returncode != 0 or not m:
            raise RuntimeError("fault-free run of scenario %d failed: %s %s" % (scen, r.stdout[-300:], r.stderr[-1500:]))
        A, live, bad, nfail = map(int, m.groups())
        if live or bad or nfail:
            ctx.violation("fault-free scenario leaks or fails", "S%d fault-free: live=%d badfree=%d failed steps=%d"
                          % (scen, live, bad, nfail), dict(scenario=scen, mode="count"))
        counts[scen] = A
        # singles: k = 1 .. A + TAIL (the tail catches allocations that only exist on retry paths)
        jobs.append((exe, scen, "single", A, 1, A + TAIL + 1))
        # pairs k1 < k2 <= A + TAIL
        if A <= 300 and (ctx.thorough or scen == 1):
            W = A + TAIL
            P = W * (W - 1) // 2
            for lo in range(0, P, 96):
                jobs.append((exe, scen, "pairs", A, lo, min(P, lo + 96)))
        elif A > 300:
            ctx.exhaustive = False
    core.pmap(ctx, _chunk, jobs, nchunks=len(jobs))
    ctx.extra["allocations_fault_free"] = {("S%d" % k): v for k, v in counts.items()}
    ctx.rule = ("scenarios S1 (MJCF string), S2 (mjSpec API + mj_copySpec + mj_recompile), S3 (mesh + texture + stateful "
                "plugin); for each: every single failing allocation index k in 1..A+%d (A = %s measured on the fault-free "
                "run) and every pair k1<k2<=A+%d (%s); a failed step is cleaned up and retried.  non-trivial = the "
                "injected fault was reached (an allocation actually failed)"
                % (TAIL, counts, TAIL, "all scenarios" if ctx.thorough else "S1 in quick, all scenarios in thorough"))
    ctx.assumptions = [
        "only mju_malloc / mju_free traffic is observed; C++ new/delete (mjSpec objects, XML DOM, std containers) is not",
        "error handler = C++ exception thrown from the log handler (documented recovery style, doc/programming/simulation.rst)",
        "retry policy: the failed step is undone and re-executed up to 4 times",
    ]
