"""Finite, deterministic input spaces for the schema-language checks (C41, C42).

Everything is an enumerator over a stated finite space; nothing is sampled.
Texts are token lists rendered with single blanks; the tokens "\\n" (line
break) and "#c" (comment to end of line) are ordinary members of the alphabet
because the language is line-sensitive (constraints are single-line, trailing
comments become doc strings, errors carry line numbers).
"""
from __future__ import annotations

import itertools

from . import _c41_ref as R

NL = '\n'

# ------------------------------------------------------------------ alphabets
KW = ['enum', 'group', 'element', 'use', 'child', 'set', 'variant']
VERB = ['exclusive', 'requires']
TYPES = ['int', 'double', 'string', 'bool', 'chars', 'file', 'flags', 'ref', 'id']
IDENT = ['a', 'b']
FACET = ['required', 'min', 'xml', 'alias', 'field', 'pattern']
LIT = ['1', '2', '-1', '1.5', '"s"', 'true']
PUNCT = ['{', '}', '(', ')', '[', ']', '<', '>', ':', '=', ',', '?', '!', '*', '+', '..', 'R']
SPECIAL = [NL, '$', '#c']
FULL = KW + VERB + TYPES + IDENT + FACET + LIT + PUNCT + SPECIAL            # 52 tokens

CORE = ['enum', 'group', 'element', 'use', 'child', 'exclusive', 'int', 'chars', 'ref',
        'a', 'b', 'required', '1', '"s"',
        '{', '}', '(', ')', '[', ']', '<', '>', ':', '=', ',', '*', '..', NL]  # 28 tokens

CHARS = ['a', 'e', '1', '.', '-', '+', '"', '#', '\n', ' ', '$', '٣']   # 12 characters


def render(tokens):
    return ' '.join(tokens)


# ------------------------------------------------------------------ (b) grammar derivations

ATTR_TYPES = ['int', 'double', 'float', 'bool', 'string', 'file', 'chars',
              'enum<e>', 'flags<e>', 'id<ns>', 'ref<ns>', 'enum<zz>', 'ref<zz>', 'foo']
ATTR_ARITIES = ['', '[]', '[0]', '[1]', '[3]', '[0..3]', '[1..3]', '[2..mjNREF]', '[3..3]', '[3..1]', '[-1]',
                '[1.5]']
ATTR_DEFAULTS = ['', '= 1', '= -2.5', '= "s"', '= k', '= true', '= "2d"', '= {1}', '= {1, 2, 3}',
                 '= {1, 2, 3, 4}', '= {}']
ATTR_FACETS = ['', '(required)', '(nodefault)', '(field=f)', '(pattern="p")', '(pattern)', '(min=0)', '(max=5)',
               '(min=5, max=0)', '(min=0, max=5)', '(min="x")', '(min)', '(positive)', '(reading=custom)',
               '(required, nodefault)', '(required, required)', '(bogus)', '(required=0)']

_PRELUDE = ['enum e {            # doc of e', '  k = 0', '  "2d" = C1', '}']


def attr_forms(arities=None):
    for t, ar, d, f in itertools.product(ATTR_TYPES, ATTR_ARITIES if arities is None else arities, ATTR_DEFAULTS,
                                         ATTR_FACETS):
        yield ' '.join(x for x in ('a : ' + t + ar, d, f) if x)


def attr_contexts(attr):
    """One attribute form in each place an attribute can be declared."""
    doc = '   # doc of a'
    yield '\n'.join(_PRELUDE + ['element x {', '  n : id<ns>', '  ' + attr + doc, '}']) + '\n'
    yield '\n'.join(_PRELUDE + ['group g {', '  ' + attr + doc, '}',
                                'element x {', '  n : id<ns>', '  use g', '}']) + '\n'
    yield '\n'.join(_PRELUDE + ['group g variant {', '  ' + attr, '  n : id<ns>', '}',
                                'element x {', '  use g', '}'])
    yield '\n'.join(_PRELUDE + ['group g {', '  ' + attr, '}', 'element x {', '  n : id<ns>', '}']) + '\n'   # unused


ELEMENT_HEADERS = ['element x', 'element x : mjsX', 'element x (xml=tag)', 'element x (alias=y)',
                   'element x (alias=zz)', 'element x (xml)', 'element x (alias=1)',
                   'element x : mjsX (field=sub, xml="t")', 'element x (field)']
_CONSTRAINTS = ['exclusive p q', 'requires p q', 'requires p q+r', 'requires p q r', 'requires p', 'together p',
                'together p q r   # doc', 'oneof p+q r', 'oneof p+q+r q', 'exclusive p zz', 'exclusive p a',
                'exclusive r p +\n    q', 'exclusive p +\n    q r']
ELEMENT_MEMBERS = ['a : int', 'a : double[3] = {1, 2, 3}', 'b : string (required)', 'n : id<ns>', 'rf : ref<ns>',
                   't : enum<e> = k', 'f : flags<e>', 'p : float',
                   'use g', 'use h', 'use x',
                   'child x *', 'child y ?', 'child y !', 'child x R', 'child zz *',
                   'set type = C', 'set a = 1', 'exclusive : int', 'child : int'] + _CONSTRAINTS
GROUP_HEADERS = ['group g', 'group g variant']
GROUP_MEMBERS = ['a : int', 'a : double[3] = {1, 2, 3}', 'b : string (required)', 'n : id<ns>', 'rf : ref<ns>',
                 't : enum<e> = k', 'p : float', 'use h', 'use g', 'use zz', 'child x *', 'set type = C'] + _CONSTRAINTS
_SUPPORT = _PRELUDE + ['group h {', '  c : int   # doc of c', '}', 'element y {', '  yn : id<ns>', '}',
                       'group pqr {', '  p : int', '  q : int', '  r : int', '}']


def structure_texts(max_members=2):
    two = max_members >= 2
    # element x with 0, 1, 2 members from the pool, every header
    for head in ELEMENT_HEADERS:
        pools = [()] + [(m,) for m in ELEMENT_MEMBERS] + (list(itertools.product(ELEMENT_MEMBERS, repeat=2)) if two else [])
        for ms in pools:
            lines = (_SUPPORT + ['group g {', '  b : int', '}', head + ' {   # doc of x', '  use pqr'] +
                     ['  ' + m for m in ms] + ['}'])
            yield '\n'.join(lines) + '\n'
    # group g with 0, 1, 2 members, used or not
    for head in GROUP_HEADERS:
        pools = [()] + [(m,) for m in GROUP_MEMBERS] + (list(itertools.product(GROUP_MEMBERS, repeat=2)) if two else [])
        for ms in pools:
            for used in (False, True):
                lines = (_SUPPORT + [head + ' {   # doc of g', '  p : int', '  q : int', '  r : int'] +
                         ['  ' + m for m in ms] + ['}'])
                lines += ['element x {', '  xn : id<ns>'] + (['  use g'] if used else []) + ['}']
                yield '\n'.join(lines) + '\n'


def use_graph_texts():
    """Every 'use' graph on three groups (512), element x uses g0 / nothing; shared or distinct attribute names."""
    names = ['g0', 'g1', 'g2']
    for bits in range(512):
        for shared in (False, True):
            for elem_uses in (None, 'g0', 'g2'):
                lines = []
                for i, g in enumerate(names):
                    lines.append('group %s {' % g)
                    lines.append('  %s : int' % ('a' if shared else 'a%d' % i))
                    for j, h in enumerate(names):
                        if bits >> (3 * i + j) & 1:
                            lines.append('  use %s' % h)
                    lines.append('}')
                lines.append('element x {')
                if elem_uses:
                    lines.append('  use ' + elem_uses)
                lines.append('}')
                yield '\n'.join(lines) + '\n'


DECL_POOL = ['enum e { k = 0 }', 'enum e : mjtE { k = C }', 'enum e { }', 'enum e { k = 0 k = 1 }',
             'enum d { "k" = 1 k2 = -1 }', 'group e { a : int }', 'group g { }', 'group g variant { a : int }',
             'element e { }', 'element x { a : enum<e> = k }', 'element x : mjsX { use g }',
             'element y (alias=x) { child x * }', 'element e { child e R }']


# smallest texts around rules whose enforcement depends on where / how a construct is written
MINIMAL = ['element x { a : int (min) }', 'element x { a : int (max) }', 'element x { a : int (min, max=1) }',
           'element x { a : int (min=1) }', 'element x { a : int (min="1") }', 'element x { a : int (min=k) }',
           'element x { a : string (min) }', 'element x { a : int (positive) }', 'element x { a : int (positive=1) }',
           'group g { p : int q : int r : int\n requires p q+r }', 'group g { p : int q : int r : int\n requires p q r }',
           'group g { p : int q : int\n requires p q }', 'element x { p : int q : int r : int\n requires p q+r }',
           'element x { p : int q : int\n requires p q }', 'group g { p : int q : int\n requires p+q p }',
           'group g variant { p : int q : int\n requires p q+p }',
           'group g { p : int q : int\n requires p q+p }\nelement x { use g }']


def minimal_texts():
    return iter(MINIMAL)


def decl_texts():
    for n in (0, 1, 2, 3):
        for ds in itertools.product(DECL_POOL, repeat=n):
            yield '\n'.join(ds)


def tokline(text):
    """Same tokens, one per line (constraint lines and comments kept intact): makes every error line decisive."""
    out = []
    for line in text.split('\n'):
        body = line.split('#')[0].split()
        if not body:
            continue
        if body[0] in R.VERBS and '"' not in line:
            out.append(line)
        elif '"' in line:
            layout = []
            R.lex(line, layout)
            out.extend(t.value for t in layout if t.kind != 'comment')
        else:
            layout = []
            R.lex(line.split('#')[0], layout)
            out.extend(t.value for t in layout)
    return '\n'.join(out) + '\n'


# ------------------------------------------------------------------ (c) single-token deviations

def tokens_of(text):
    """Layout-preserving token strings of a text ('\\n' and whole comments are tokens)."""
    layout = []
    R.lex(text, layout)
    return [t.value for t in layout]


def split_support(text):
    """(support tokens, focus tokens): the fixed supporting declarations a derivation starts with are not deviated
    (they are the same in every text and are deviated once, in the texts where they are the focus)."""
    for pre in (_SUPPORT, _PRELUDE):
        head = '\n'.join(pre) + '\n'
        if text.startswith(head):
            return tokens_of(head), tokens_of(text[len(head):])
    return [], tokens_of(text)


def deviations(tokens, alphabet):
    """Every substitution, insertion and deletion of one token (base itself excluded)."""
    n = len(tokens)
    for i in range(n):
        yield tokens[:i] + tokens[i + 1:]
        for a in alphabet:
            if a != tokens[i]:
                yield tokens[:i] + [a] + tokens[i + 1:]
    for i in range(n + 1):
        for a in alphabet:
            yield tokens[:i] + [a] + tokens[i:]


# ------------------------------------------------------------------ (f) spelling variants

_SPELLING = {}


def other_spelling(tok):
    """A word has two spellings, bare (IDENT) and quoted (STRING); the grammar admits both for an enum key, a default
    and a facet value, and only one of them everywhere else.  Returns the other spelling of a token, or None when the
    token is not a word (punctuation, number, comment, line break, a string that is not an identifier)."""
    if tok in _SPELLING:
        return _SPELLING[tok]
    quoted = len(tok) >= 2 and tok[0] == '"' and tok[-1] == '"'
    word = tok[1:-1] if quoted else tok
    out = None
    try:
        toks = R.lex(word)[0]
        if len(toks) == 2 and toks[0].kind == 'ident' and toks[0].value == word:
            out = word if quoted else '"%s"' % word
    except R.LexError:
        pass
    _SPELLING[tok] = out
    return out


def respellings(tokens, order=1):
    """Every token list obtained by writing 1..order of the word tokens in their other spelling."""
    idx = [i for i, t in enumerate(tokens) if other_spelling(t) is not None]
    for k in range(1, order + 1):
        for comb in itertools.combinations(idx, k):
            out = list(tokens)
            for i in comb:
                out[i] = other_spelling(tokens[i])
            yield out


SPELLING_ARITIES = ['', '[3]']


def spelling_bases(thorough=False):
    """(fixed head tokens, respelled focus tokens, fixed tail tokens, order) of every base text of space (f)."""
    order = 2 if thorough else 1
    for t in decl_texts():
        yield [], tokens_of(t), [], order
    for t in MINIMAL:
        yield [], tokens_of(t), [], order
    for t in structure_texts(max_members=2 if thorough else 1):
        head, focus = split_support(t)
        yield head, focus, [], 1
    # attribute forms in element context: only the attribute's own line is respelled
    for a in attr_forms(None if thorough else SPELLING_ARITIES):
        head = tokens_of('\n'.join(_PRELUDE + ['element x {', '  n : id<ns>']) + '\n')
        yield head, tokens_of('  ' + a), tokens_of('\n}\n'), 1


# ------------------------------------------------------------------ (e) scaling families

def use_chain(n, reverse=False, with_element=True):
    blocks = []
    for i in range(n):
        b = 'group g%d {\n  a%d : int\n' % (i, i)
        if i + 1 < n:
            b += '  use g%d\n' % (i + 1)
        b += '}\n'
        blocks.append(b)
    if reverse:
        blocks.reverse()
    if with_element:
        blocks.append('element x {\n  use g0\n}\n')
    return ''.join(blocks)


def use_ring(n):
    return ''.join('group g%d {\n  a%d : int\n  use g%d\n}\n' % (i, i, (i + 1) % n) for i in range(n))


def use_diamond(n, used):
    """g_i uses g_{i+1} twice: 2^n paths, attribute duplicated once an element expands it."""
    s = ''.join('group g%d {\n  use g%d\n  use g%d\n}\n' % (i, i + 1, i + 1) for i in range(n))
    s += 'group g%d {\n  a : int\n}\n' % n
    if used:
        s += 'element x {\n  use g0\n}\n'
    return s


def wide_element(n):
    return 'element x {\n' + ''.join('  a%d : double[0..3] = {1, 2}   # d%d\n' % (i, i) for i in range(n)) + '}\n'


def many_decls(n):
    return ''.join('enum e%d { k = %d }\nelement x%d { t : enum<e%d> = k }\n' % (i, i, i, i) for i in range(n))


def child_chain(n):
    s = ''.join('element x%d {\n  child x%d *\n}\n' % (i, i + 1) for i in range(n))
    return s + 'element x%d {\n}\n' % n


def long_default(n):
    return 'element x {\n  a : double[] = {' + ', '.join(['1'] * n) + '}\n}\n'


def long_bundle(n):
    return ('element x {\n' + ''.join('  a%d : int\n' % i for i in range(n)) +
            '  exclusive ' + '+'.join('a%d' % i for i in range(n)) + ' a0\n}\n')


def long_lexemes(n):
    return ('enum e {\n  ' + 'k' * n + ' = ' + '9' * n + '   # ' + 'c' * n + '\n  "' + 's' * n + '" = -0.' + '1' * n +
            'e5\n}\nelement x {\n  a : string = "' + 'v' * n + '"\n  b : double = ' + '9' * n + '\n}\n')


def blank_lines(n):
    return '\n' * n + 'element x {\n' + '\n' * n + '  a : int = "s"\n}\n'


FAMILIES = {
    'use-chain': lambda n: use_chain(n),
    'use-chain-reversed': lambda n: use_chain(n, reverse=True),
    'use-chain-unused': lambda n: use_chain(n, with_element=False),
    'use-ring': use_ring,
    'wide-element': wide_element,
    'many-decls': many_decls,
    'child-chain': child_chain,
    'long-default': long_default,
    'long-bundle': long_bundle,
    'long-lexemes': long_lexemes,
    'blank-lines': blank_lines,
}
RECURSIVE_FAMILIES = ('use-chain', 'use-chain-reversed', 'use-chain-unused', 'use-ring')


# ------------------------------------------------------------------ (d) every rule broken at every site of a real schema

class Lines(object):
    """A schema text as per-line token lists (comments kept apart) for splice edits."""

    def __init__(self, text):
        self.rows = []          # list of [tokens], index = line-1
        self.tail = []          # trailing comment per line or ''
        for line in text.split('\n'):
            layout = []
            R.lex(line, layout)
            self.rows.append([t.value for t in layout if t.kind not in ('comment', 'nl')])
            c = [t.value for t in layout if t.kind == 'comment']
            self.tail.append(c[0] if c else '')

    def text(self, edits=None, inserts=None):
        """edits: {line: new token list}; inserts: {line: [token lists inserted after that line]}"""
        out = []
        for i, row in enumerate(self.rows):
            ln = i + 1
            r = edits[ln] if edits and ln in edits else row
            s = ' '.join(r)
            if self.tail[i]:
                s = (s + ' ' if s else '') + self.tail[i]
            out.append(s)
            if inserts and ln in inserts:
                for extra in inserts[ln]:
                    out.append(' '.join(extra))
        return '\n'.join(out)


def _split_attr(row):
    """row tokens of a one-line attribute -> (head=[name ':' type arity...], default tokens incl '=', facets incl parens)"""
    depth = 0
    eq = None
    par = None
    for i, t in enumerate(row):
        if t == '(' and par is None:
            par = i
        if t == '=' and eq is None and par is None:
            eq = i
    end_head = eq if eq is not None else (par if par is not None else len(row))
    end_def = par if par is not None else len(row)
    head = row[:end_head]
    default = row[end_head:end_def] if eq is not None else []
    facets = row[par:] if par is not None else []
    return head, default, facets


def _vec(n):
    out = ['{']
    for i in range(n):
        if i:
            out.append(',')
        out.append('1')
    return out + ['}']


def _with_facet(row, facet):
    head, default, facets = _split_attr(row)
    if facets:
        return head + default + facets[:-1] + [','] + facet + [')']
    return head + default + ['('] + facet + [')']


def _with_default(row, default):
    head, _, facets = _split_attr(row)
    return head + ['='] + default + facets


def _with_arity(row, arity):
    head, default, facets = _split_attr(row)
    base = head[:3]
    return base + arity + default + facets


def _E(edits=None, inserts=None):
    return (edits, inserts)


def rule_sites(text):
    """-> (Lines, [(rule, site-id, (edits, inserts) | None)]) : each documented rule broken once at each place
    it can be broken; the mutated text is Lines.text(edits, inserts).

    Works on a schema written one member per line (checked: members spanning lines are skipped and counted by
    the caller via the rule name 'skipped-multiline')."""
    L = Lines(text)
    return L, list(_rule_sites(text, L))


def _rule_sites(text, L):
    res = R.analyse(text)
    assert res.ok, 'base schema must be valid for the reference: %s' % (res.rules,)
    enums, groups, elements = res.model
    G = {g[0]: g for g in groups}
    nlines = len(L.rows)

    def oneline(line, first):
        row = L.rows[line - 1]
        return bool(row) and row[0] == first

    def close_line(open_line):
        """line of the '}' closing the declaration opened on open_line"""
        depth = 0
        for ln in range(open_line, nlines + 1):
            for t in L.rows[ln - 1]:
                if t == '{':
                    depth += 1
                elif t == '}':
                    depth -= 1
                    if depth == 0:
                        return ln
        return None

    # ---- declarations
    for kind, decls in (('enum', enums), ('group', groups), ('element', elements)):
        for d in decls:
            name, line = d[0], d[-1]
            end = close_line(line)
            if end == line:
                continue
            body = {'enum': ['zz', '=', '0'], 'group': ['zz', ':', 'int'], 'element': []}[kind]
            yield ('duplicate-' + kind, '%s %s' % (kind, name),
                   _E(inserts={end: [[kind, name, '{'] + body + ['}']]}))
    for e in enums:
        name, ctype, items, doc, line = e
        end = close_line(line)
        if end != line:
            yield ('duplicate-enum-keyword', 'enum ' + name,
                   _E(inserts={end - 1: [[items[0][0] if items[0][0].isidentifier() else '"%s"' % items[0][0], '=', '0']]}))
            # the same keyword repeated in the spelling the schema does not use for it
            own = L.rows[line][0] if line < nlines and L.rows[line] else None
            for spelled in ('"%s"' % items[0][0], items[0][0]):
                if spelled != own and (spelled[0] == '"' or other_spelling(spelled) is not None):
                    yield ('duplicate-enum-keyword', 'enum %s other spelling' % name,
                           _E(inserts={end - 1: [[spelled, '=', '0']]}))
                    break
            yield ('empty-enum', 'enum ' + name,
                   _E(edits={ln: [] for ln in range(line + 1, end)}))
    for g in groups:
        name, variant, members, doc, line = g
        end = close_line(line)
        if end == line:
            continue
        yield ('empty-group', 'group ' + name, _E(edits={ln: [] for ln in range(line + 1, end)}))
        yield ('child-in-group', 'group ' + name, _E(inserts={line: [['child', elements[0][0], '*']]}))
        yield ('set-in-group', 'group ' + name, _E(inserts={line: [['set', 'type', '=', 'C']]}))
        yield ('use-cycle', 'group %s self' % name, _E(inserts={line: [['use', name]]}))
        for m in members:
            if m[0] == 'use' and m[1] in G:
                yield ('use-cycle', 'group %s <-> %s' % (name, m[1]), _E(inserts={G[m[1]][4]: [['use', name]]}))
        if variant:
            other = [h[0] for h in groups if not h[1]]
            if other:
                yield ('variant-use', 'group ' + name, _E(inserts={line: [['use', other[0]]]}))

    # ---- members
    containers = [('group', g[0], g[1], g[2]) for g in groups] + [('element', e[0], False, e[3]) for e in elements]
    enum_names = set(e[0] for e in enums)
    for ckind, cname, variant, members in containers:
        where = '%s %s' % (ckind, cname)
        direct = [m[1] for m in members if m[0] == 'attr']
        for m in members:
            kind = m[0]
            line = m[-1]
            row = L.rows[line - 1]
            site = '%s line %d' % (where, line)
            if kind == 'use':
                if oneline(line, 'use') and len(row) == 2:
                    yield ('dangling-use', site, _E(edits={line: ['use', 'no_such_group']}))
                continue
            if kind == 'child':
                if oneline(line, 'child') and len(row) == 3:
                    yield ('dangling-child', site, _E(edits={line: ['child', 'no_such_element', row[2]]}))
                    yield ('duplicate-child', site, _E(inserts={line: [row]}))
                    yield ('syntax:cardinality', site, _E(edits={line: ['child', row[1], '+']}))
                continue
            if kind == 'set':
                continue
            if kind == 'con':
                if not oneline(line, m[1]):
                    yield ('skipped-multiline', site, None)
                    continue
                yield ('constraint-needs-two', site, _E(edits={line: row[:2]}))
                yield ('constraint-unknown-attr', site, _E(edits={line: row[:1] + ['no_such_attr'] + row[2:]}))
                if m[1] == 'requires':
                    rule = 'requires-arity' if ckind == 'element' else 'group-requires-arity'
                    yield (rule, site + ' bundle', _E(edits={line: row + ['+', row[1]]}))
                    yield (rule, site + ' third', _E(edits={line: row + [row[1]]}))
                continue
            # attribute
            _, name, typ, target, lo, hi, default, facets, doc, _ = m
            if not (oneline(line, name) and len(row) > 2 and row[1] == ':'):
                yield ('skipped-multiline', site, None)
                continue
            nxt = L.rows[line] if line < nlines else []
            if nxt and nxt[0] in (',', '(', '=', '{', '[', '<', '>', ')', '}') and nxt != ['}']:
                yield ('skipped-multiline', site, None)
                continue
            head, dtoks, ftoks = _split_attr(row)
            numeric = typ in ('double', 'float', 'int')
            if ckind == 'element':
                yield ('duplicate-attr', site, _E(inserts={line: [[name, ':', 'string']]}))
            if variant:
                yield ('variant-required', site,
                       _E(edits={line: _with_facet(head + ftoks if dtoks else row, ['required'])}))
            if typ in ('enum', 'flags'):
                yield ('dangling-enum', site, _E(edits={line: head[:2] + [typ, '<', 'no_such_enum', '>'] + head[6:] + dtoks + ftoks}))
            if typ == 'ref':
                yield ('dangling-ref', site, _E(edits={line: head[:2] + ['ref', '<', 'no_such_ns', '>'] + dtoks + ftoks}))
            if typ in ('file', 'bool'):
                yield ('vector-file-or-bool', site, _E(edits={line: _with_arity(row, ['[', '2', ']'])}))
            if typ == 'chars':
                yield ('chars-unbounded', site + ' []', _E(edits={line: _with_arity(row, ['[', ']'])}))
                yield ('chars-unbounded', site + ' [sym]', _E(edits={line: _with_arity(row, ['[', '1', '..', 'mjN', ']'])}))
            if typ in SCALAR_VECTOR:
                yield ('arity-not-increasing', site, _E(edits={line: _with_arity(head[:3] + ftoks, ['[', '3', '..', '3', ']'])}))
                yield ('arity-negative', site, _E(edits={line: _with_arity(head[:3] + ftoks, ['[', '-1', ']'])}))
                yield ('syntax:arity-integer', site, _E(edits={line: _with_arity(head[:3] + ftoks, ['[', '1.5', ']'])}))
            if typ not in ('string', 'chars') and not any(k == 'pattern' for k, _ in facets):
                yield ('pattern-on-nontext', site, _E(edits={line: _with_facet(row, ['pattern', '=', '"x"'])}))
            if not any(k in ('min', 'max') for k, _ in facets):
                if not numeric:
                    yield ('minmax-nonnumeric-type', site, _E(edits={line: _with_facet(row, ['min', '=', '0'])}))
                else:
                    yield ('minmax-nonnumeric-value', site, _E(edits={line: _with_facet(row, ['max', '=', '"x"'])}))
                    yield ('minmax-no-value', site, _E(edits={line: _with_facet(row, ['min'])}))
                    yield ('min-gt-max', site, _E(edits={line: _with_facet(row, ['min', '=', '2', ',', 'max', '=', '1'])}))
            if not numeric and not any(k == 'positive' for k, _ in facets):
                yield ('positive-nonnumeric', site, _E(edits={line: _with_facet(row, ['positive'])}))
            if ftoks:
                yield ('duplicate-facet', site, _E(edits={line: _with_facet(row, [facets[0][0]])}))
            yield ('syntax:unknown-facet', site, _E(edits={line: _with_facet(row, ['no_such_facet'])}))
            yield ('syntax:unknown-type', site, _E(edits={line: [name, ':', 'no_such_type'] + dtoks + ftoks}))
            if default is not None and not any(k == 'required' for k, _ in facets):
                yield ('required-with-default', site, _E(edits={line: _with_facet(row, ['required'])}))
            if dict(facets).get('required'):
                continue
            base = head + ftoks
            if typ == 'enum':
                yield ('enum-default-not-keyword', site + ' ident', _E(edits={line: _with_default(base, ['no_such_keyword'])}))
                yield ('enum-default-not-keyword', site + ' number', _E(edits={line: _with_default(base, ['1'])}))
            elif typ in ('ref', 'id', 'chars'):
                yield ('default-not-allowed', site, _E(edits={line: _with_default(base, ['"x"'])}))
            elif typ == 'bool':
                yield ('bool-default', site, _E(edits={line: _with_default(base, ['maybe'])}))
            elif typ in ('string', 'file'):
                yield ('string-default', site + ' number', _E(edits={line: _with_default(base, ['1'])}))
                yield ('string-default', site + ' vector', _E(edits={line: _with_default(base, ['{', '1', '}'])}))
            elif numeric:
                yield ('numeric-default', site, _E(edits={line: _with_default(base, ['"1"'])}))
                if lo == 1 and hi == 1:
                    yield ('vector-default-on-scalar', site, _E(edits={line: _with_default(base, ['{', '1', '}'])}))
                if lo >= 2:
                    yield ('default-too-short', site, _E(edits={line: _with_default(base, _vec(lo - 1))}))
                    yield ('default-too-short', site + ' scalar', _E(edits={line: _with_default(base, ['1'])}))
                if isinstance(hi, int) and not (lo == 1 and hi == 1) and hi < 64:
                    yield ('default-too-long', site, _E(edits={line: _with_default(base, _vec(hi + 1))}))

    # ---- elements
    for e in elements:
        name, spec, facets, members, doc, line = e
        row = L.rows[line - 1]
        site = 'element ' + name
        if not (row and row[0] == 'element' and row[-1] in ('{', '}')):
            yield ('skipped-multiline', site, None)
            continue
        brace = row.index('{')
        headrow, rest = row[:brace], row[brace:]
        if '(' in headrow:
            p = headrow.index('(')
            pre, inside = headrow[:p], headrow[p + 1:-1]
        else:
            pre, inside = headrow, []
        keep = []
        # facets other than alias/xml, re-tokenised from `inside`
        items = []
        cur = []
        for t in inside:
            if t == ',':
                items.append(cur)
                cur = []
            else:
                cur.append(t)
        if cur:
            items.append(cur)
        others = [it for it in items if it[0] not in ('alias', 'xml')]

        def hdr(extra):
            its = others + extra
            flat = []
            for k, it in enumerate(its):
                if k:
                    flat.append(',')
                flat += it
            return pre + (['('] + flat + [')'] if its else []) + rest
        yield ('dangling-alias', site, _E(edits={line: hdr([['alias', '=', 'no_such_element']])}))
        yield ('element-facet-needs-name', site + ' alias', _E(edits={line: hdr([['alias']])}))
        yield ('element-facet-needs-name', site + ' xml', _E(edits={line: hdr([['xml']])}))
        yield ('element-facet-needs-name', site + ' xml=1', _E(edits={line: hdr([['xml', '=', '1']])}))
        yield ('syntax:unknown-facet', site, _E(edits={line: hdr([['required']])}))
        yield ('duplicate-facet', site, _E(edits={line: hdr([['xml', '=', 't'], ['xml', '=', 't']])}))
        # an attribute the element already gets through a group
        for m in members:
            if m[0] == 'use' and m[1] in G:
                got = R.expand(G, (m,))
                if got:
                    yield ('duplicate-attr', site + ' via ' + m[1],
                           _E(inserts={m[2]: [[got[-1][1], ':', 'string']]}))
                    yield ('duplicate-attr', site + ' use twice ' + m[1], _E(inserts={m[2]: [['use', m[1]]]}))


SCALAR_VECTOR = ('double', 'float', 'int', 'string')
