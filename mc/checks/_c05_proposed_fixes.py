"""Proposed repairs for the genuine defects reported by C05/C08/C25/C29 (NOT applied to /repo; kept here for the reviewer).

Prototype validated in a scratch worktree: with this patch applied (VERIF_REPO=<worktree>) C05, C08, C25 and C29 all exit 0 at the
quick tier (C08 and C25 also at the thorough tier), without it they report exactly the canonical keys listed below.

 key (C08)  RK4 is only second-order accurate for ball/free joint orientations ...      -> engine_forward.c: rk_dexpinv + K[] in mj_RungeKutta
 key (C08)  after mj_step with RK4, mjData.energy is the energy of the last RK stage ... -> engine_forward.c: mj_forwardSkip (!skipsensor guards)
 key (C29)  gravity compensation of actuatorgravcomp joints is dropped when the model has no actuators -> engine_forward.c: mj_fwdActuation
 key (C25)  mjd_transitionFD: centred differences of sensors w.r.t. controls have the wrong sign -> engine_derivative_fd.c: clampedDiff
 key (C25)  mjd_transitionFD with Euler: qvel columns use the unperturbed factorisation ...    -> engine_derivative_fd.c: mj_stepSkip (Euler)
 key (C25)  mjd_transitionFD with implicit/implicitfast: ctrl/act columns use the unperturbed factorisation ... -> mj_stepSkip (implicit)
 key (C25)  ellipsoid fluid model: d(A_proj)/d(velocity) is clamped by mjMINVAL ...          -> engine_derivative.c: mjd_viscous_drag

All seven behaviours are also present in the upstream 3.13.0 wheel (checked for RK4 order and the centred-D sign through the official bindings).
"""

DIFF = r'''
diff --git a/src/engine/engine_derivative.c b/src/engine/engine_derivative.c
index e164b7f31..5cd227f91 100644
--- a/src/engine/engine_derivative.c
+++ b/src/engine/engine_derivative.c
@@ -2647,23 +2647,33 @@ static inline void mjd_viscous_drag(
 
   const mjtNum proj_denom = aa*xx + bb*yy + cc*zz;
   const mjtNum proj_num = a*xx + b*yy + c*zz;
-  const mjtNum dA_coef = mjPI / mju_max(mjMINVAL,
-                                        mju_sqrt(proj_num*proj_num*proj_num * proj_denom));
 
   const mjtNum A_proj = mjPI * mju_sqrt(proj_denom/mju_max(mjMINVAL, proj_num));
 
   const mjtNum norm = mju_sqrt(xx + yy + zz);
   const mjtNum inv_norm = 1.0 / mju_max(mjMINVAL, norm);
 
+  // d A_proj / d vel in scale-free form: A_proj depends only on the direction of the velocity and is
+  // homogeneous in (a, b, c), so normalize both; otherwise the guard below acts on a quantity of
+  // order size^10 * speed^4 and silently clamps the derivative for small geoms at moderate speeds
+  const mjtNum abc_max = mju_max(mjMINVAL, mju_max(mju_max(a, b), c));
+  const mjtNum an = a/abc_max, bn = b/abc_max, cn = c/abc_max;
+  const mjtNum xn = x*inv_norm, yn = y*inv_norm, zn = z*inv_norm;
+  const mjtNum xxn = xn*xn, yyn = yn*yn, zzn = zn*zn;
+  const mjtNum proj_denom_n = an*an*xxn + bn*bn*yyn + cn*cn*zzn;
+  const mjtNum proj_num_n = an*xxn + bn*yyn + cn*zzn;
+  const mjtNum dA_coef = mjPI * mju_sqrt(abc_max) * inv_norm / mju_max(
+    mjMINVAL, mju_sqrt(proj_num_n*proj_num_n*proj_num_n * proj_denom_n));
+
   const mjtNum lin_coef = fluid_viscosity * 3.0 * mjPI * eq_sphere_D;
   const mjtNum quad_coef = fluid_density * (
     A_proj*blunt_drag_coef + slender_drag_coef*(A_max - A_proj));
   const mjtNum Aproj_coef = fluid_density * norm * (blunt_drag_coef - slender_drag_coef);
 
   const mjtNum dAproj_dv[3] = {
-    Aproj_coef * dA_coef * a * x * (b * yy * (a - b) + c * zz * (a - c)),
-    Aproj_coef * dA_coef * b * y * (a * xx * (b - a) + c * zz * (b - c)),
-    Aproj_coef * dA_coef * c * z * (a * xx * (c - a) + b * yy * (c - b))
+    Aproj_coef * dA_coef * an * xn * (bn * yyn * (an - bn) + cn * zzn * (an - cn)),
+    Aproj_coef * dA_coef * bn * yn * (an * xxn * (bn - an) + cn * zzn * (bn - cn)),
+    Aproj_coef * dA_coef * cn * zn * (an * xxn * (cn - an) + bn * yyn * (cn - bn))
   };
 
   // outer product
diff --git a/src/engine/engine_derivative_fd.c b/src/engine/engine_derivative_fd.c
index 049651d9b..cdc4fdc0f 100644
--- a/src/engine/engine_derivative_fd.c
+++ b/src/engine/engine_derivative_fd.c
@@ -75,7 +75,7 @@ static void clampedDiff(mjtNum* dx, const mjtNum* x, const mjtNum* x_plus, const
     diff(dx, x_minus, x, h, nx);
   } else if (x_plus && x_minus) {
     // centered differencing
-    diff(dx, x_plus, x_minus, 2*h, nx);
+    diff(dx, x_minus, x_plus, 2*h, nx);
   } else {
     // differencing failed, write zeros
     mju_zero(dx, nx);
@@ -127,7 +127,8 @@ void mj_stepSkip(const mjModel* m, mjData* d, int skipstage, int skipsensor) {
   // use selected integrator
   switch ((mjtIntegrator) m->opt.integrator) {
   case mjINT_EULER:
-    mj_EulerSkip(m, d, skipstage >= mjSTAGE_POS);
+    // the factorization of M + h*B depends on qvel via polynomial damping
+    mj_EulerSkip(m, d, skipstage >= mjSTAGE_VEL);
     break;
 
   case mjINT_RK4:
@@ -137,7 +138,8 @@ void mj_stepSkip(const mjModel* m, mjData* d, int skipstage, int skipsensor) {
 
   case mjINT_IMPLICIT:
   case mjINT_IMPLICITFAST:
-    mj_implicitSkip(m, d, skipstage >= mjSTAGE_VEL);
+    // the factorization of M - h*D depends on ctrl and act via velocity-dependent actuator gains
+    mj_implicitSkip(m, d, skipstage >= mjSTAGE_ACC);
     break;
 
   default:
diff --git a/src/engine/engine_forward.c b/src/engine/engine_forward.c
index 858a25a86..cf089c33c 100644
--- a/src/engine/engine_forward.c
+++ b/src/engine/engine_forward.c
@@ -364,6 +364,19 @@ void mj_fwdActuation(const mjModel* m, mjData* d) {
   // disabled or no actuation: return
   if (nactuator == 0 || mjDISABLED(mjDSBL_ACTUATION)) {
     mju_zero(d->qfrc_actuator, nv);
+
+    // no actuators: gravity compensation routed to actuator forces must still be applied
+    if (nactuator == 0 && !mjDISABLED(mjDSBL_ACTUATION) && m->flg_gravcomp &&
+        !mjDISABLED(mjDSBL_GRAVITY) && mju_norm3(m->opt.gravity)) {
+      static const int jnt_dofnum[4] = {6, 3, 1, 1};
+      for (int i=0; i < m->njnt; i++) {
+        if (m->jnt_actgravcomp[i]) {
+          int dofadr = m->jnt_dofadr[i];
+          mju_addTo(d->qfrc_actuator + dofadr, d->qfrc_gravcomp + dofadr, jnt_dofnum[m->jnt_type[i]]);
+        }
+      }
+      clampVec(d->qfrc_actuator, m->jnt_actfrcrange, m->jnt_actfrclimited, m->njnt, m->jnt_dofadr);
+    }
     TM_END(mjTIMER_ACTUATION);
     return;
   }
@@ -1494,6 +1507,26 @@ const mjtNum RK4_B[4] = {
 };
 
 
+// map the angular velocity w of a quaternion joint, given in the local frame after rotating by the
+// rotation vector u = h*dpos, to the derivative of the rotation vector: w + u x w / 2 + u x (u x w) / 12
+// (inverse differential of the exponential map, truncated at the order required by a 4th-order method)
+static void rk_dexpinv(const mjModel* m, mjtNum* vel, const mjtNum* dpos, mjtNum h) {
+  for (int j=0; j < m->njnt; j++) {
+    int type = m->jnt_type[j];
+    if (type != mjJNT_BALL && type != mjJNT_FREE) {
+      continue;
+    }
+    int adr = m->jnt_dofadr[j] + (type == mjJNT_FREE ? 3 : 0);
+    mjtNum u[3], c1[3], c2[3];
+    mju_scl3(u, dpos+adr, h);
+    mju_cross(c1, u, vel+adr);
+    mju_cross(c2, u, c1);
+    mju_addToScl3(vel+adr, c1, 0.5);
+    mju_addToScl3(vel+adr, c2, 1.0/12.0);
+  }
+}
+
+
 // Runge Kutta explicit order-N integrator
 //  (A,B) is the tableau, C is set to row_sum(A)
 void mj_RungeKutta(const mjModel* m, mjData* d, int N) {
@@ -1510,10 +1543,12 @@ void mj_RungeKutta(const mjModel* m, mjData* d, int N) {
 
   // allocate space for intermediate solutions
   mj_markStack(d);
+  mjtNum* K[10];
   dX = mjSTACKALLOC(d, 2*nv+na, mjtNum);
   for (int i=0; i < N; i++) {
     X[i] = mjSTACKALLOC(d, nq+nv+na, mjtNum);
     F[i] = mjSTACKALLOC(d, nv+na, mjtNum);
+    K[i] = mjSTACKALLOC(d, nv, mjtNum);
   }
 
   // precompute C and T;  C,T,A have size (N-1)
@@ -1531,6 +1566,7 @@ void mj_RungeKutta(const mjModel* m, mjData* d, int N) {
   // init X[0], F[0]; mj_forward() was already called
   mju_copy(X[0], d->qpos, nq);
   mju_copy(X[0]+nq, d->qvel, nv);
+  mju_copy(K[0], d->qvel, nv);
   mju_copy(F[0], d->qacc, nv);
   if (na) {
     mju_copy(X[0]+nq+nv, d->act, na);
@@ -1542,7 +1578,7 @@ void mj_RungeKutta(const mjModel* m, mjData* d, int N) {
     // compute dX
     mju_zero(dX, 2*nv+na);
     for (int j=0; j < i; j++) {
-      mju_addToScl(dX, X[j]+nq, A[(i-1)*(N-1)+j], nv);
+      mju_addToScl(dX, K[j], A[(i-1)*(N-1)+j], nv);
       mju_addToScl(dX+nv, F[j], A[(i-1)*(N-1)+j], nv+na);
     }
 
@@ -1565,12 +1601,16 @@ void mj_RungeKutta(const mjModel* m, mjData* d, int N) {
     if (na) {
       mju_copy(F[i]+nv, d->act_dot, na);
     }
+
+    // position derivative in the tangent space at X[0]: K[i] = dexpinv(h*dX, qvel_i) for quaternions
+    mju_copy(K[i], X[i]+nq, nv);
+    rk_dexpinv(m, K[i], dX, h);
   }
 
   // compute dX for final update (using B instead of A)
   mju_zero(dX, 2*nv+na);
   for (int j=0; j < N; j++) {
-    mju_addToScl(dX, X[j]+nq, B[j], nv);
+    mju_addToScl(dX, K[j], B[j], nv);
     mju_addToScl(dX+nv, F[j], B[j], nv+na);
   }
 
@@ -1797,7 +1837,7 @@ void mj_forwardSkip(const mjModel* m, mjData* d, int skipstage, int skipsensor)
       mj_sensorPos(m, d);
     }
 
-    if (!d->flg_energypos) {
+    if (!skipsensor && !d->flg_energypos) {
       if (mjENABLED(mjENBL_ENERGY)) {
         mj_energyPos(m, d);
       } else {
@@ -1814,7 +1854,7 @@ void mj_forwardSkip(const mjModel* m, mjData* d, int skipstage, int skipsensor)
       mj_sensorVel(m, d);
     }
 
-    if (mjENABLED(mjENBL_ENERGY) && !d->flg_energyvel) {
+    if (!skipsensor && mjENABLED(mjENBL_ENERGY) && !d->flg_energyvel) {
       mj_energyVel(m, d);
     }
   }
'''
