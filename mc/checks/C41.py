"""C41 The MJCF schema-language parser is total and its checks sound.

System under test: <tree>/doc/generate/mjcf_schema.py (parse_string).  Oracle:
mc/checks/_c41_ref.py, an independent re-implementation of the documented
language (hand-written scanner, own parser, own list of every broken rule with
the lines it is located at).  For every enumerated text:

* totality   - parse_string returns a Schema or raises SchemaError, nothing
               else; the error carries the path given, an int line with
               1 <= line <= number of lines, and str(e) == "path:line: msg";
* soundness  - accepted  <=>  the reference finds no broken rule;
* location   - the reported line is a line at which the reference locates a
               violation;
* fidelity   - an accepted Schema says what the text says (every field of
               every declaration, member order, docs, lines), and
               Schema.expanded_attrs agrees with an iterative expansion.

Enumerated spaces (all exhaustive, no sampling) are listed in ctx.rule.  Spelling is a dimension of its own: a word
can be written bare (IDENT) or quoted (STRING), the grammar admits both for enum keys, defaults and facet values, and
every rule that compares words (duplicate keyword, default is a keyword, alias / use / child targets ...) must
compare the word, not its spelling; space (f) writes every word token of a derivation corpus in its other spelling.
"""
import hashlib
import os
import shutil
import signal
import sys
import tempfile
import threading
import time

from .. import build, core
from . import _c41_gen as G
from . import _c41_ref as R

LEVEL = "exploration"
META = dict(
    category=LEVEL,
    technique="exhaustive bounded enumeration over the schema language (all token streams, viable-prefix closure, "
              "grammar derivations, every 1-token deviation, every rule broken at every site of the real schema, "
              "scaling families, bare/quoted spelling variants), differential against an independent reference "
              "parser/validator",
    text="parse_string is a pure function of a text; the claim is totality plus rule soundness for all texts.  All "
         "token streams of length <=4 (5) over a 28-token alphabet, all 1-token extensions of every viable prefix up "
         "to length 6 (7) over 52 tokens, all strings of <=5 (6) characters over 12 lexically critical characters in "
         "3 contexts, ~90k grammar derivations (every type x arity x default x facet form in every declaration "
         "context, member pairs, all 512 use-graphs on 3 groups, declaration triples) in two layouts, every 1-token "
         "substitution/insertion/deletion of a derivation corpus, every documented rule broken at every applicable "
         "site of the real mjcf.schema, doubling families up to 4096 for every construct that repeats, and every word "
         "token of ~8k derivation texts respelled bare <-> quoted (the same word in both spellings).  Each text "
         "is judged by a reference that shares no code with the tree.  Exhaustive within the bounds: the right level "
         "for a pure function of a short text.",
    note="Trusted base: the reference (_c41_ref.py) and its reading of the grammar docstring / mjcf.schema syntax "
         "header; points the documentation leaves open follow the permissive reading and are listed as assumptions. "
         "Texts longer than the bounds are covered only through the real schema and the scaling families.  The "
         "interpreter's default recursion limit (1000) is part of the environment.",
    design_ref="DESIGN.md §3 C41")

PATH = "verif/input.schema"
# rule names that identify one narrow construct each; when a text breaks one of these *and* another rule, the other
# rule names the counter-example (so a narrow finding never hides a broader one)
_NARROW = ("minmax-no-value", "group-requires-arity")
_S = None            # the tree's mjcf_schema module (loaded in run(), inherited by forked workers)
_TMP = None          # directory receiving digests of non-trivial cases
_REAL = None         # (Lines, sites) of the real schema
_CORPUS = {}         # name -> list of token lists (deviation bases)
_SPELL = []          # (head, focus, tail, order) token lists: bases of the spelling-variant space


def load_impl():
    """Import mjcf_schema from the tree under test (build.REPO), the way the pinned tests do."""
    gen_dir = os.path.join(build.REPO, "doc", "generate")
    if gen_dir not in sys.path:
        sys.path.insert(0, gen_dir)
    import mjcf_schema
    here = os.path.realpath(mjcf_schema.__file__)
    if not here.startswith(os.path.realpath(gen_dir) + os.sep):
        raise RuntimeError("mjcf_schema imported from %s, not from the tree %s" % (here, gen_dir))
    return mjcf_schema


# ------------------------------------------------------------------ the oracle

def norm(msg):
    """Error message with the quoted / numeric parts dropped (stable key material)."""
    out = []
    q = False
    for ch in str(msg):
        if ch == "'":
            q = not q
            if q:
                out.append("'_'")
            continue
        if q:
            continue
        out.append('N' if ch.isdigit() else ch)
    s = ''.join(out)
    while 'NN' in s:
        s = s.replace('NN', 'N')
    return s[:120]


CPU_LIMIT_S = 60.0     # per text, CPU time of the parser alone; the slowest enumerated text needs < 2 s


class CpuTimeLimitExceeded(BaseException):
    """The parser did not return within CPU_LIMIT_S seconds of CPU time (treated as non-termination)."""


def _on_vtalarm(signum, frame):
    raise CpuTimeLimitExceeded("no result after %.0f s of CPU time" % CPU_LIMIT_S)


class State(object):
    """Per-worker accumulator: Part + minimal counter-example per key + digests of non-trivial cases."""

    def __init__(self):
        self.part = core.Part()
        self.viol = {}
        self.digests = bytearray()
        self.rules = {}
        self.n = 0

    def violation(self, key, what, text, space):
        cur = self.viol.get(key)
        cand = (len(text), text, what, space)
        if cur is None or cand < cur:
            self.viol[key] = cand

    def finish(self):
        p = self.part
        for key, (_, text, what, space) in sorted(self.viol.items()):
            p.violation(key, what, {"text": text, "space": space, "path": PATH})
        for r, n in self.rules.items():
            p.add("rule:" + r, n)
        if self.digests and _TMP:
            fd, name = tempfile.mkstemp(suffix=".bin", dir=_TMP)
            with os.fdopen(fd, "wb") as fh:
                fh.write(self.digests)
        return p


def judge(st, text, space, path=PATH):
    """Run the tree's parser and the reference on one text and compare.  Returns the reference verdict."""
    S = _S
    ref = R.analyse(text)
    part = st.part
    part["evaluations"] += 1
    if ref.ntok >= 4:
        st.digests += hashlib.blake2b(text.encode("utf-8", "surrogatepass"), digest_size=8).digest()
        if len(part["samples"]) < 2 and (st.n % 7 == 3):
            part["samples"].append({"space": space, "text": text[:400], "reference": "accept" if ref.ok else
                                    "reject(%s) at line(s) %s" % (",".join(ref.rules[:3]), sorted(ref.lines)[:4])})
    st.n += 1
    for r in ref.rules:
        st.rules[r] = st.rules.get(r, 0) + 1
    nlines = text.count("\n") + 1
    timed = threading.current_thread() is threading.main_thread()
    try:
        if timed:
            signal.setitimer(signal.ITIMER_VIRTUAL, CPU_LIMIT_S)
        try:
            schema = S.parse_string(text, path)
        finally:
            if timed:
                signal.setitimer(signal.ITIMER_VIRTUAL, 0)
    except S.SchemaError as e:
        part.add("rejected_" + (ref.phase if not ref.ok else "but_valid"))
        line = e.line
        msg = getattr(e, "message", None)
        if type(line) is not int or not (1 <= line <= nlines):
            st.violation("bad-line:" + norm(msg), "SchemaError line %r outside 1..%d (%s)" % (line, nlines, e), text, space)
        elif getattr(e, "path", None) != path or str(e) != "%s:%d: %s" % (path, line, msg) or not msg:
            st.violation("bad-error-format:" + norm(msg), "SchemaError fields/str inconsistent: path=%r line=%r str=%r"
                         % (getattr(e, "path", None), line, str(e)), text, space)
        elif ref.ok:
            st.violation("rejected-valid:" + norm(msg), "valid schema rejected: %s" % e, text, space)
        elif line not in ref.lines:
            st.violation("wrong-line:" + norm(msg), "error reported at line %d (%s) but the broken rule(s) %s are located "
                         "at line(s) %s" % (line, msg, ref.rules[:4], sorted(ref.lines)[:8]), text, space)
        return ref
    except (KeyboardInterrupt, SystemExit):
        raise
    except BaseException as e:      # noqa: totality is the property
        part.add("escaped_exception")
        st.violation("exception:%s:%s" % (type(e).__name__, space.split(":")[0]),
                     "%s escaped parse_string (%s); reference verdict: %s" %
                     (type(e).__name__, str(e)[:100], "valid" if ref.ok else ref.rules[:3]), text, space)
        return ref
    if not ref.ok:
        part.add("accepted_but_invalid")
        names = [r for r in ref.rules if r not in _NARROW] or ref.rules
        st.violation("accepted-invalid:" + names[0], "invalid schema accepted: broken rule(s) %s at line(s) %s"
                     % (ref.rules[:4], sorted(ref.lines)[:8]), text, space)
        return ref
    part.add("accepted")
    try:
        imp = R.impl_model(schema)
        diff = R.first_difference(ref.model, imp)
        if diff is None and getattr(schema, "path", None) != path:
            diff = "schema.path"
        if diff is None:
            groups = {g[0]: g for g in ref.model[1]}
            for el in ref.model[2]:
                want = [(a[1], a[9]) for a in R.expand(groups, el[3])]
                got = [(a.name, a.line) for a in schema.expanded_attrs(schema.elements[el[0]])]
                if want != got:
                    diff = "expanded_attrs"
                    break
    except (KeyboardInterrupt, SystemExit):
        raise
    except BaseException as e:
        diff = "unreadable:" + type(e).__name__
    if diff:
        st.violation("model-mismatch:" + diff, "accepted Schema does not say what the text says: first difference in %s"
                     % diff, text, space)
    return ref


# ------------------------------------------------------------------ job handlers (run in workers)

def _blind(st, alpha, L, prefix):
    toks = {"core": G.CORE, "full": G.FULL}[alpha]
    space = "a:blind-%s<=%d" % (alpha, L)

    def rec(cur):
        judge(st, " ".join(cur), space)
        if len(cur) < L:
            for t in toks:
                cur.append(t)
                rec(cur)
                cur.pop()
    rec(list(prefix))


_IN_COMMENT = [G.NL, '$']
_NO_NL = [t for t in G.FULL if t != G.NL]


def _extensions(cur):
    """Tokens a prefix is extended with: all 52, except that inside a comment only the line break and one token
    (the otherwise illegal '$') are tried, and a line break is not followed by another one (everything a comment
    swallows is equivalent by the definition of a comment; blank lines are covered by the other spaces)."""
    if cur:
        if cur[-1] == G.NL:
            return _NO_NL
        for t in reversed(cur):
            if t == G.NL:
                break
            if t == '#c':
                return _IN_COMMENT
    return G.FULL


def _guided(st, N, prefix):
    """Every 1-token extension of every viable prefix below `prefix` up to length N (prefix itself is viable)."""
    space = "a:viable-prefix<=%d" % N

    def rec(cur):
        for t in _extensions(cur):
            cur.append(t)
            ref = judge(st, " ".join(cur), space)
            if len(cur) < N and ref.viable():
                rec(cur)
            cur.pop()
    rec(list(prefix))


_CHAR_CONTEXTS = ("%s", "enum e {\nk = %s\n}", "element x {\na : double = %s\n}")


def _chars(st, K, prefix):
    space = "a:chars<=%d" % K
    lex = getattr(_S, "_lex", None)

    def rec(cur):
        s = "".join(cur)
        for c in _CHAR_CONTEXTS:
            judge(st, c % s, space)
        if lex is not None:
            _lexcmp(st, lex, s, space)
        if len(cur) < K:
            for ch in G.CHARS:
                cur.append(ch)
                rec(cur)
                cur.pop()
    rec(list(prefix))


def _lexcmp(st, lex, s, space):
    """Direct observation of the tokenizer (anchor _lex), when the tree still has it with this shape."""
    st.part["evaluations"] += 1
    try:
        want = R.lex(s)
        want = ([(t.kind, t.value, t.line) for t in want[0]], want[1])
    except R.LexError as e:
        want = e.line
    try:
        got = lex(s, PATH)
        got = ([(t.kind, t.value, t.line) for t in got[0]], dict(got[1]))
    except _S.SchemaError as e:
        got = e.line
    except (KeyboardInterrupt, SystemExit):
        raise
    except BaseException as e:
        st.violation("exception:%s:lexer" % type(e).__name__, "%s escaped the lexer" % type(e).__name__, s, space)
        return
    if got != want:
        st.violation("tokens-differ", "tokenizer output %r, documented token classes give %r" % (got, want), s, space)


def _texts(st, space, texts):
    for t in texts:
        judge(st, t, space)


def _dev1(st, name, idx):
    support, base = _CORPUS[name][idx]
    head = " ".join(support) + " " if support else ""
    space = "c:1-token-deviation(%s)" % name
    seen = set()
    for toks in G.deviations(base, G.FULL):
        t = head + " ".join(toks)
        if t in seen:
            continue
        seen.add(t)
        judge(st, t, space)


def _dev2(st, name, idx, k, nk):
    base = _CORPUS[name][idx]
    space = "c:2-token-deviation(%s)" % name
    seen = set()
    for j, first in enumerate(G.deviations(base, G.CORE)):
        if j % nk != k:
            continue
        for toks in G.deviations(first, G.CORE):
            t = " ".join(toks)
            if t in seen:
                continue
            seen.add(t)
            judge(st, t, space)


def _spell(st, k, nk):
    """Space (f): the word tokens of a base text written in their other spelling (bare <-> quoted)."""
    seen = set()
    for j in range(k, len(_SPELL), nk):
        head, focus, tail, order = _SPELL[j]
        space = "f:respelling<=%d" % order
        h = " ".join(head) + " " if head else ""
        tl = " " + " ".join(tail) if tail else ""
        st.part.add("spelling_bases")
        for toks in G.respellings(focus, order):
            t = h + " ".join(toks) + tl
            if t in seen:
                continue
            seen.add(t)
            ref = judge(st, t, space)
            st.part.add("spelling_variants_valid" if ref.ok else "spelling_variants_invalid")


def _rules(st, k, nk):
    L, sites = _REAL
    for j in range(k, len(sites), nk):
        rule, site, e = sites[j]
        if e is None:
            st.part.add("rule_sites_skipped_multiline")
            continue
        text = L.text(*e)
        ref = judge(st, text, "d:rule-broken(%s)" % rule, path="mjcf.schema")
        if ref.ok or rule not in ref.rules:
            raise RuntimeError("harness: site %s does not break %s for the reference (%s)" % (site, rule, ref.rules))
        st.part.add("rule_sites")


def _family_text(st, name, n):
    judge(st, G.FAMILIES[name](n), "e:%s" % name)


def _recursive_family(st, name, n):
    """One member of a doubling family for constructs the parser handles recursively.  Runs in a fresh thread under
    the interpreter's default recursion limit, so the outcome does not depend on how deep the harness stack is."""
    sub = State()

    def body():
        old = sys.getrecursionlimit()
        sys.setrecursionlimit(1000)
        try:
            judge(sub, G.FAMILIES[name](n), "e:%s" % name)
        finally:
            sys.setrecursionlimit(old)
    th = threading.Thread(target=body)
    th.start()
    th.join()
    st.part["evaluations"] += sub.part["evaluations"]
    for k, v in sub.part["extra"].items():
        st.part.add(k, v)
    st.digests += sub.digests
    for r, c in sub.rules.items():
        st.rules[r] = st.rules.get(r, 0) + c
    for key, (ln, text, what, space) in sub.viol.items():
        if key.startswith("exception:"):
            # the collector keeps the smallest failing member per exception type: "use-chain-depth>=N: <exception>"
            st.viol["rfam|%s|%08d|%s" % (key.split(":")[1], n, name)] = (ln, text, what, space)
        else:
            st.violation(key, what, text, space)


def _work(chunk):
    signal.signal(signal.SIGVTALRM, _on_vtalarm)
    st = State()
    for job in chunk:
        kind = job[0]
        t0 = time.process_time()
        n0 = st.part["evaluations"]
        _do(st, job, kind)
        st.part.add("cpu_s:" + kind, round(time.process_time() - t0, 4))
        st.part.add("n:" + kind, st.part["evaluations"] - n0)
    return st.finish()


def _do(st, job, kind):
    if True:
        if kind == "blind":
            _blind(st, job[1], job[2], job[3])
        elif kind == "guided":
            _guided(st, job[1], job[2])
        elif kind == "chars":
            _chars(st, job[1], job[2])
        elif kind == "attrforms":
            k, nk, layout = job[1:]
            for j, a in enumerate(G.attr_forms()):
                if j % nk == k:
                    for t in G.attr_contexts(a):
                        judge(st, G.tokline(t) if layout else t, "b:attr-forms" + ("/tokline" if layout else ""))
        elif kind == "gen":
            name, k, nk, layout = job[1:]
            for j, t in enumerate(_GENS[name]()):
                if j % nk == k:
                    judge(st, G.tokline(t) if layout else t, "b:%s%s" % (name, "/tokline" if layout else ""))
        elif kind == "dev1":
            _dev1(st, job[1], job[2])
        elif kind == "dev2":
            _dev2(st, *job[1:])
        elif kind == "rules":
            _rules(st, job[1], job[2])
        elif kind == "spell":
            _spell(st, job[1], job[2])
        elif kind == "family":
            _family_text(st, job[1], job[2])
        elif kind == "rfamily":
            _recursive_family(st, job[1], job[2])
        else:
            raise RuntimeError("unknown job %r" % (job,))


_GENS = {"structure": G.structure_texts, "use-graphs": G.use_graph_texts, "declarations": G.decl_texts,
         "minimal": G.minimal_texts}


class _Collector(object):
    """Stands in for ctx inside core.pmap so that the counter-example kept per key is the smallest one,
    independent of the dispatch order (seed)."""

    def __init__(self, ctx):
        self.ctx = ctx
        self.seed = ctx.seed
        self.viol = {}

    def merge(self, part):
        for v in part.get("violations", ()):
            text = (v.get("replay") or {}).get("text", "")
            cand = (len(text), text, v["what"], v.get("replay"))
            cur = self.viol.get(v["key"])
            if cur is None or cand[:2] < cur[:2]:
                self.viol[v["key"]] = cand
        part["violations"] = []
        self.ctx.merge(part)

    def flush(self):
        fam = {}
        for key in sorted(self.viol):
            _, _, what, replay = self.viol[key]
            if key.startswith("rfam|"):
                _, exc, n, name = key.split("|")
                fam.setdefault(exc, []).append((int(n), name, what, replay))
                continue
            self.ctx.violation(key, what, replay)
        for exc, rows in sorted(fam.items()):
            rows.sort(key=lambda r: (r[0], len(r[3].get("text", "")), r[1]))
            n, name, what, replay = rows[0]
            self.ctx.violation("use-chain-depth>=%d: %s" % (n, exc),
                               "%s escapes parse_string for 'use' structures of depth >= %d (smallest failing member of "
                               "the doubling families; failing members: %s).  %s"
                               % (exc, n, ", ".join("%s(%d)" % (r[1], r[0]) for r in rows), what), replay)


def viable_prefixes(depth):
    """All token streams of exactly `depth` tokens over FULL that the reference considers extendable."""
    level = [[]]
    for _ in range(depth):
        nxt = []
        for p in level:
            for t in G.FULL:
                if t not in _extensions(p):
                    continue
                q = p + [t]
                if R.analyse(" ".join(q)).viable():
                    nxt.append(q)
        level = nxt
    return level


def run(ctx):
    global _S, _TMP, _REAL, _CORPUS
    _S = load_impl()
    _TMP = tempfile.mkdtemp(prefix="c41_")
    try:
        _run(ctx)
    finally:
        shutil.rmtree(_TMP, ignore_errors=True)


def _run(ctx):
    global _REAL, _CORPUS, _SPELL
    thorough = ctx.thorough
    jobs = []

    # (a) token streams
    Lb = ctx.q(4, 5)
    jobs.append(("blind", "core", 1, ()))                       # lengths 0 and 1
    for a in G.CORE:
        for b in G.CORE:
            jobs.append(("blind", "core", Lb, (a, b)))            # lengths 2..Lb
    Ng = ctx.q(6, 7)
    pre = viable_prefixes(3)
    jobs.append(("guided", 3, ()))                                # all texts of length <= 3 below viable prefixes
    for p in pre:
        jobs.append(("guided", Ng, tuple(p)))
    K = ctx.q(5, 6)
    jobs.append(("chars", 1, ()))
    for a in G.CHARS:
        for b in G.CHARS:
            jobs.append(("chars", K, (a, b)))

    # (b) derivations, two layouts
    nk = 48
    for layout in (0, 1):
        for k in range(nk):
            jobs.append(("attrforms", k, nk, layout))
        for name in _GENS:
            for k in range(16):
                jobs.append(("gen", name, k, 16, layout))

    # (c) deviations
    structure = list(G.structure_texts())
    usegraphs = list(G.use_graph_texts())
    attrs = [next(iter(G.attr_contexts(a))) for a in G.attr_forms()]
    stride = ctx.q(101, 11)
    corpus = structure[::stride] + usegraphs[::stride * 4] + attrs[::stride * 8]
    corpus = [t for t in corpus if R.analyse(t).ok or R.analyse(t).phase == "validate"]
    corpus.append("\n".join(G._SUPPORT) + "\n")         # the supporting declarations themselves
    _CORPUS["derivations"] = [G.split_support(t) if i + 1 < len(corpus) else ([], G.tokens_of(t))
                              for i, t in enumerate(corpus)]
    for i in range(len(corpus)):
        jobs.append(("dev1", "derivations", i))
    small = ['group g { a : int }\nelement x { use g }',
             'element x {\n a : double[1..3] = {1, 2} (min=0) # d\n child x *\n}\n',
             'enum e { k = 0 }\ngroup g variant {\n t : enum<e> = k\n}\nelement x (alias=x) {\n use g\n}',
             'group g {\n a : int\n b : chars[2]\n requires a b # d\n}\nelement x : s {\n use g\n set f = C\n}']
    small = small[:ctx.q(1, 4)]
    _CORPUS["small"] = [G.tokens_of(t) for t in small]
    for i in range(len(small)):
        for k in range(64):
            jobs.append(("dev2", "small", i, k, 64))

    # (d) every documented rule broken at every site of the real schema
    real = open(os.path.join(build.REPO, "src", "xml", "mjcf.schema"), encoding="utf-8").read()
    base = R.analyse(real)
    signal.signal(signal.SIGVTALRM, _on_vtalarm)
    st0 = State()
    judge(st0, real, "d:real-schema", path="mjcf.schema")
    if base.ok:
        _REAL = G.rule_sites(real)
        if not thorough:
            # quick: every 16th site (sites are ordered by declaration, so every rule and every declaration is hit)
            step = 16
            L, sites = _REAL
            _REAL = (L, sites[::step])
            ctx.extra["rule_sites_stride"] = step
        for k in range(64):
            jobs.append(("rules", k, 64))
    else:
        ctx.extra["real_schema_invalid_for_reference"] = base.rules[:5]

    # (f) spelling variants: every word token of a base text in its other spelling
    _SPELL = list(G.spelling_bases(thorough))
    nsp = ctx.q(32, 128)
    for k in range(nsp):
        jobs.append(("spell", k, nsp))

    # (e) scaling
    top = 4096
    sizes = [1 << i for i in range(0, 13)]
    for name in G.FAMILIES:
        if name in G.RECURSIVE_FAMILIES:
            for n in sizes:
                if n <= (1024 if name == "use-chain-reversed" else 2048):
                    jobs.append(("rfamily", name, n))
        else:
            for n in sizes:
                if n <= top:
                    jobs.append(("family", name, n))
    diamonds = [G.use_diamond(n, u) for n in range(0, ctx.q(11, 15)) for u in (False, True)]

    signal.signal(signal.SIGVTALRM, _on_vtalarm)
    col = _Collector(ctx)
    col.merge(st0.finish())
    std = State()
    for t in diamonds:
        judge(std, t, "e:use-diamond")
    col.merge(std.finish())
    core.pmap(col, _work, jobs, nchunks=len(jobs))
    col.flush()

    # distinct non-trivial cases: union of the workers' digests
    import numpy as np
    arrs = []
    for f in os.listdir(_TMP):
        arrs.append(np.fromfile(os.path.join(_TMP, f), dtype=np.uint64))
    allv = np.concatenate(arrs) if arrs else np.zeros(0, dtype=np.uint64)
    ctx.extra["nontrivial_evaluations"] = int(allv.size)
    ctx.nontrivial_extra = int(np.unique(allv).size)

    hits = {}
    cpu = {}
    for k in list(ctx.extra):
        if k.startswith("rule:"):
            hits[k[5:]] = ctx.extra.pop(k)
        elif k.startswith("cpu_s:"):
            cpu.setdefault(k[6:], [0, 0])[0] = round(ctx.extra.pop(k), 1)
        elif k.startswith("n:"):
            cpu.setdefault(k[2:], [0, 0])[1] = ctx.extra.pop(k)
    ctx.extra["per_space_cpu_s_and_evaluations"] = cpu
    ctx.extra["reference_rules_exercised"] = len(hits)
    ctx.extra["reference_rule_hits"] = hits
    ctx.extra["viable_prefixes_len3"] = len(pre)
    ctx.extra["deviation_base_texts"] = len(corpus)
    ctx.extra["spelling_base_texts"] = len(_SPELL)
    ctx.extra["tree"] = build.REPO
    ctx.rule = (
        "(a) every token stream of length <=%d over the 28-token core alphabet; every 1-token extension of every viable "
        "prefix (reference says: valid so far, or only unresolved references, or merely incomplete) up to length %d over "
        "the 52-token alphabet; every string of <=%d characters over %r raw / as enum value / as default, plus direct "
        "comparison of the tokenizer output; (b) every attribute form (14 types x 12 arities x 11 defaults x 18 facet "
        "lists) in element / used group / variant-group / unused-group context, every element and group with <=2 members from the member pool "
        "x every header, all 512 use-graphs on 3 groups x shared/distinct names x element use, all <=3-declaration "
        "sequences from a 13-declaration pool, %d hand-minimised texts around min/max values and 'requires' in groups, each "
        "in pretty and one-token-per-line layout; (c) every substitution, "
        "insertion and deletion of one token (52-token alphabet, line break and comment are tokens; the fixed supporting "
        "declarations are deviated once, not per text) on %d derivation texts, every pair of such deviations (28 tokens) on %d small texts; (d) the real mjcf.schema and every "
        "documented rule broken once at every%s applicable site of it (%d texts); (e) doubling families 1..4096 (use "
        "chains/rings 1..2048 under the default recursion limit) and use-diamonds of depth < %d; (f) spelling variants: a word "
        "may be written bare (IDENT) or quoted (STRING) and the grammar admits both for enum keys, defaults and facet values: "
        "every single word token%s written in its other spelling, in all <=3-declaration sequences and the hand-minimised "
        "texts, in every element/group with <=%d member(s) x every header, and on the attribute line of every attribute form "
        "(arities %s) in element context (%d base texts); the rule-breaking edits of (d) repeat an enum keyword in both "
        "spellings.  A case is non-trivial "
        "when the reference reads at least 4 tokens before its verdict (not rejected inside the first declaration "
        "header); distinct = distinct text (64-bit digest), counted over all spaces together."
        % (Lb, Ng, K, "".join(G.CHARS), len(G.MINIMAL), len(corpus), len(small), "" if thorough else " 16th",
           len(_REAL[1]) if _REAL else 0, ctx.q(11, 15), " (thorough: and every pair of word tokens of the declaration "
           "sequences / minimised texts)" if thorough else "", ctx.q(1, 2),
           "all 12" if thorough else "/".join(repr(a) for a in G.SPELLING_ARITIES), len(_SPELL)))
    ctx.extra["cpu_limit_per_text_s"] = CPU_LIMIT_S
    ctx.assumptions = ["reference reading of points the documentation leaves open: " + u for u in R.UNSPECIFIED] + [
        "parse_string(text, path) is called with a str; recursion limit is the interpreter default (1000), scaling "
        "families run in a fresh thread so the harness stack depth does not matter",
        "documented rules = grammar docstring of mjcf_schema.py, syntax header of mjcf.schema, rule names asserted by "
        "test/doc/mjcf_schema_test.py"]
