"""C37 worker: loads the tree library (variant from argv) and feeds it documents.

usage: python -m mc.checks._c37_worker <variant>     (fork server, see main())

For every input line {"i": id, "x": text} it records the id in the progress file *before* touching the
library, then calls mj_parseXMLString (+ mj_compile when a spec comes back) exactly as a C client would,
and appends {"i": id, "o": outcome, "m": message}.  Outcomes:
  model        spec parsed and compiled
  cerror       spec parsed, mj_compile returned NULL with a non-empty mjs_getError message
  cerror0      ... with an empty message
  perror       mj_parseXMLString returned NULL with a non-empty error string
  perror0      ... with an empty error string
  mjuerror     mju_error reached the *global* handler (a C client's process would have exited)
  exception    a C++ exception other than the library's own escaped the API (std::terminate in a C client)
A sanitizer report / signal kills the process: the parent reads the progress file to attribute it.
"""
import ctypes
import json
import os
import sys


def serve(lib, vfs, inp, outp, prog):
    """Process one batch (see module docstring)."""
    err = ctypes.create_string_buffer(4000)
    pfd = os.open(prog, os.O_WRONLY | os.O_CREAT, 0o644)
    cfn = lib.c.vg_mj_parseXMLString
    cfn.argtypes = [ctypes.c_char_p, ctypes.c_void_p, ctypes.c_void_p, ctypes.c_int, ctypes.c_void_p]
    cfn.restype = ctypes.c_int
    ccomp = lib.c.vg_mj_compile
    ccomp.argtypes = [ctypes.c_void_p, ctypes.c_void_p, ctypes.c_void_p]
    ccomp.restype = ctypes.c_int
    vfsp = ctypes.addressof(vfs)
    from mc import mj
    with open(inp) as fin, open(outp, "w") as fout:
        for line in fin:
            d = json.loads(line)
            i = d["i"]
            os.pwrite(pfd, b"%-12d" % i, 0)
            x = d["x"].encode("utf-8", errors="surrogateescape")
            err.value = b""
            out = ctypes.c_void_p()
            st = cfn(x, vfsp, err, len(err), ctypes.byref(out))
            if st == 1:
                o, m = "mjuerror", lib.c.vg_last_error().decode(errors="replace")
            elif st:
                o, m = "exception", lib.c.vg_last_error().decode(errors="replace")
            elif not out.value:
                m = err.value.decode(errors="replace")
                o = "perror" if m.strip() else "perror0"
            else:
                spec = out.value
                mp = ctypes.c_void_p()
                st = ccomp(spec, vfsp, ctypes.byref(mp))
                if st == 1:
                    o, m = "mjuerror", "compile: " + lib.c.vg_last_error().decode(errors="replace")
                elif st:
                    o, m = "exception", "compile: " + lib.c.vg_last_error().decode(errors="replace")
                elif not mp.value:
                    m = lib.cstr(lib.mjs_getError(spec)) or ""
                    o = "cerror" if m.strip() else "cerror0"
                else:
                    o, m = "model", ""
                    lib.mj_deleteModel(mp.value)
                try:
                    lib.mj_deleteSpec(spec)
                except mj.MjError as e:
                    o, m = "mjuerror", "deleteSpec: %s" % e
            fout.write(json.dumps({"i": i, "o": o, "m": m[:300]}) + "\n")
            fout.flush()
    os.pwrite(pfd, b"%-12d" % -1, 0)
    os.close(pfd)


def main():
    """Fork server: the library is loaded once (that costs ~15 s under ASan); every batch runs in a forked child, so a
    crash costs a fork, not a start-up.  Protocol on stdin/stdout (one line each):
        RUN <in> <out> <prog> <err>   ->  PID <child pid>   ...   EXIT <wait status>"""
    variant = sys.argv[1]
    sys.path.insert(0, os.path.dirname(os.path.dirname(os.path.dirname(os.path.abspath(__file__)))))
    from mc import build, mj
    from mc.checks import _c32_gen as G
    if variant == "asan":
        path = os.environ["C37_ASAN_LIB"]
        orig = build.ensure
        build.ensure = lambda v="rel", with_support=True: path if v == "asan" else orig(v, with_support)
    lib = mj.load(variant)
    vfs = G.make_vfs(lib)
    sys.stdout.write("READY\n")
    sys.stdout.flush()
    for line in sys.stdin:
        parts = line.split()
        if not parts:
            continue
        if parts[0] == "QUIT":
            break
        _, inp, outp, prog, errp = parts
        pid = os.fork()
        if pid == 0:
            try:
                fd = os.open(errp, os.O_WRONLY | os.O_CREAT | os.O_TRUNC, 0o644)
                os.dup2(fd, 2)
                serve(lib, vfs, inp, outp, prog)
                os._exit(0)
            except BaseException:
                import traceback
                traceback.print_exc()
                os._exit(97)
        sys.stdout.write("PID %d\n" % pid)
        sys.stdout.flush()
        _, status = os.waitpid(pid, 0)
        sys.stdout.write("EXIT %d\n" % status)
        sys.stdout.flush()
    os._exit(0)


if __name__ == "__main__":
    main()
